#!/bin/bash
# refuses a commit of evidence that does not come from the unchanged /repo tree or does not match the manifest
cd "$(dirname "$0")/.."
python3 - <<'PY'
import json, glob, sys, subprocess
bad = 0
if subprocess.run(['git', '-C', '/repo', 'status', '--porcelain', '--untracked-files=no'], capture_output=True, text=True).stdout.strip():
    print('/repo has local modifications'); bad = 1
m = json.load(open('MANIFEST.json'))
cat = dict((c['property_id'], c['level_claimed']['category']) for c in m['checks'])
for p, c in sorted(cat.items()):
    try:
        e = json.load(open('evidence/%s.json' % p))
    except Exception as ex:
        print(p, 'no evidence', ex); bad = 1; continue
    cov = e['coverage']
    if cov.get('repo_worktree_modified'):
        print(p, 'evidence was written by a run against a modified /repo'); bad = 1
    if e['level'] != c:
        print(p, 'evidence level %s != manifest %s' % (e['level'], c)); bad = 1
    if cov['obligations'] != cov['discharged']:
        print(p, 'obligations %s != discharged %s' % (cov['obligations'], cov['discharged'])); bad = 1
    if e.get('violations'):
        print(p, 'evidence records violations'); bad = 1
print('precommit: %s' % ('FAILED' if bad else 'ok'))
sys.exit(bad)
PY
