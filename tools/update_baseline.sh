#!/bin/bash
# re-records baseline_obligations.json for every claimed property; only on the unchanged /repo tree
cd "$(dirname "$0")/.."
if [ -n "$(git -C /repo status --porcelain --untracked-files=no)" ]; then echo "/repo has local modifications: refusing"; exit 1; fi
for p in $(python3 -c "import json;print(' '.join(c['property_id'] for c in json.load(open('MANIFEST.json'))['checks']))"); do
  /usr/bin/time -f "%es" python3-vt check $p --update-baseline 2>&1 | tail -3
done
