#!/usr/bin/env python3
"""Regenerates MANIFEST.json from the table below (kept next to the checks so they cannot drift)."""
import json, os
ROOT = os.path.dirname(os.path.dirname(os.path.abspath(__file__)))

TECH = 'contract-based deductive verification: sidecar contracts on the real functions, VCs generated from the Python ast of /repo on every run, discharged by z3 5.1 / cvc5 1.0.3; bounded stand-ins (labelled) for regex/parser-driven text rewriting'

CLAIMED = {
 'C01': dict(cat='proof', ref='5/C01', text='safe_get, select_except (loop invariant), the writer interface and the generated select loops are proved against the projection spec for all tables and all user expressions (oracles); the query-text -> expression step is regex driven and only has a bounded stand-in (enumerated queries x tables vs reference semantics)',
             note='A-PY subset semantics, A-ORACLE (user expressions pure apart from RBQL callables), A-EXEC, A-WRITER interface contract for user writers; bounded: translate_select_expression / replace_star_vars / translate_except_expression (regex)'),
 'C02': dict(cat='proof', ref='5/C02', text='TopWriter, UniqWriter, UniqCountWriter, SortedWriter (__init__/write/finish) are proved for all record sequences against take / dedup_first / count / stable-sort-permutation specs with ghost offered sequences, typestate and frames; chain construction and TOP/LIMIT/DISTINCT extraction have bounded stand-ins only',
             note='A-SORT (sorted() is the stable permutation, validated boundedly), A-WRITER, A-PY; termination clause read as: no pull after a refused write (DESIGN C02)'),
 'C03': dict(cat='proof', ref='5/C03', text='NumHandler.parse (string->number conversion, sticky int->float fallback, error text) and all aggregator classes (SUM, COUNT, MIN, MAX, AVG, VARIANCE, MEDIAN, ANY_VALUE, constant-column verifier: __init__/increment/get_final) are proved, for every sequence of increments and every key, to hold exactly the mathematical aggregate of the group history (ghost hist per key; numbers as reals); AggregateWriter/select_aggregated/wrapper dispatch and COUNT(*) rewriting have a bounded stand-in (enumerated aggregate queries vs definitions)',
             note='A-FLOAT (IEEE rounding ignored: numbers are reals), A-NUMPARSE (int()/float() as partial parsers with float(s)==int(s) on integer literals), A-SORT (sorted == insertion-sort spec), homogeneous numeric columns (property quantifier)'),
 'C04': dict(cat='proof', ref='5/C04', text='key extraction (single/multi, NR components, short-record errors), get_join_records, Inner/Left/StrictLeft joiners and the generated JOIN select and UPDATE loops are proved against the pairing spec join_pairs_for / jsel_out for all tables and expressions; HashJoinMap.build and join expression parsing have bounded stand-ins',
             note='A-PY, A-DICT; bounded: parse_join_expression / resolve_join_variables text handling'),
 'C05': dict(cat='proof', ref='5/C05', text='safe_set and the generated UPDATE loops (simple and JOIN; WHERE embedded as `x or y`) are proved for all tables and right-hand sides: one record per input record, only assigned fields change, RHS see original values, NU counts, errors name the record; assignment-list translation has a bounded stand-in',
             note='A-PY, A-ORACLE; bounded: translate_update_expression'),
 'C06': dict(cat='proof', ref='5/C06', text='store-permission obligations (no store into a source row or an offered record) and frame clauses on every verified function; list sources additionally checked boundedly end to end',
             note='A-PY, A-DEP for pandas/sqlite/CSV files'),
 'C07': dict(cat='proof', ref='5/C07', text='select_output_header is proved, for every list of column infos and every input/join header, to return exactly the header of the naming rule (alias; source column name for aN/a[N]/a.name/a["name"]/stars; identifier; colK by output position), None exactly when there is no input header and no alias, and to reject star+alias without header; the text -> AST -> column-info step and header-vs-record width through the writers are checked by a bounded stand-in (22 item kinds, 1-2 items, header/join on-off)',
             note='ast.parse / ast.walk (CPython parser) are dependencies: bounded only; known finding F3 (DISTINCT COUNT with a CSV header) recorded; F2 (a[N] names on Python >= 3.9) repaired by fix commit'),
 'C09': dict(cat='proof', ref='5/C09', text='the CSV header state machine is proved: construction reads the first record ahead (header held back / data handed out first, exactly once), handle_query_modifier makes WITH (header)/(noheader) override the caller flag, get_header returns the first record iff has_header, and get_record returns the next record of the remaining content (so the header line is never returned as data once consumed); name -> variable mapping (escaping of names, discovery regexes) is regex driven and checked by a bounded stand-in (20 special names x positions x quote styles x 4 query shapes, direct mode, CSV x flag x modifier x join)',
             note='A-IO stream contract, A-RE-* regex contracts (bounded validation); python string-literal decoding of escaped names: bounded only'),
 'C10': dict(cat='proof', ref='5/C10', text='field extraction and quoted-line splitting are proved against the character-level dialect spec (shared with C11); the write-then-read round trip, the lossy-output warnings and latin-1 byte preservation are checked by a bounded stand-in over dialect-critical tables (labelled bounded); multi-character delimiters: see known findings',
             note='A-RE-field (anchored field regexes end at the scanner end; validated exhaustively to length 7/9), A-PY string model, codecs (A-IO); round trip itself is bounded, not proved'),
 'C11': dict(cat='proof', ref='5/C11', text='extract_next_field and split_quoted_str are proved, for every line and single-character delimiter, to produce exactly the fields, next index and warning flag of the dialect spec (quoted iff quoted form followed by delimiter/EOL; other fields extend to the next delimiter; warning iff an unquoted field contains a quote); the scanner formulation of the spec is validated against the declarative sentence exhaustively to length 7/9 (bounded)',
             note='A-RE-field assumed contract of the two field regexes (bounded validation), A-PY string model; fast path (no quote) proved equal to plain split, its agreement with the dialect is bounded; whitespace policy regex: bounded'),
 'C12': dict(cat='proof', ref='5/C12', text='line extraction is proved as a function of the remaining content rest = buffer ++ unread of an abstract stream whose read(n) may return ANY non-empty prefix of length <= n: extract_line_from_data, _get_row_from_buffer (CR look-ahead across a read boundary), _read_until_found (no content lost; exhausted only at the real end), get_row_simple (first line LF|CR|CRLF, unterminated last line, BOM on the very first line only, decode errors -> IO-handling error) and get_row_rfc (record continues until quotes balance), with induction lemmas on first_nl; comment skipping / header / field splitting per record and byte-level decoding are covered by the bounded stand-in (all partitions of texts <= 4/7)',
             note='A-IO stream contract (short reads allowed; io.TextIOWrapper incremental decoding assumed), A-RE-newline (validated boundedly), A-PY string model'),
 'C17': dict(cat='proof', ref='5/C17', text='like_to_regex is proved for every pattern to produce ^ tok(c1)..tok(cn) $ (loop invariant + per-character map of re.escape), and LIKE() is proved to return the match of exactly that regex with a cache that cannot mix patterns; that the token regex implements SQL LIKE in Python re is an assumption validated exhaustively (patterns <=3/4, texts <=2/3 over the 14-character alphabet)',
             note='A-RE-escape (re.escape is a per-character map), A-RE (Python re semantics of the token regex): bounded validation only'),
}

NA = {}

def main():
    ids = ['C%02d' % i for i in range(1, 21)]
    checks = []
    na = []
    for i in ids:
        if i in CLAIMED:
            c = CLAIMED[i]
            checks.append({
                'property_id': i,
                'quick_cmd': 'python3-vt check %s --tier quick' % i,
                'thorough_cmd': 'python3-vt check %s --tier thorough' % i,
                'evidence_file': 'evidence/%s.json' % i,
                'replay_cmd_template': 'python3-vt check %s --replay {path}' % i,
                'engine': 'pyvc',
                'level_claimed': {'category': c['cat'], 'text': c['text'], 'design_ref': 'DESIGN.md section ' + c['ref']},
                'level_note': c['note'],
                'technique': TECH,
            })
        else:
            na.append({'property_id': i, 'reason': NA.get(i, 'check not built yet (build in progress; see DESIGN.md build log)')})
    m = {
        'version': 1,
        'setup_cmd': 'python3-vt -m compileall -q pyvc bounded specs >/dev/null; true',
        'hooks': {'guard': 'RBQL_VERIF', 'enable': 'no hooks: contracts are sidecar files under /verif/contracts, /repo is not instrumented (source_commits is empty)',
                  'baseline_off_cmd': 'cd /repo && /venv/bin/python -m pytest -ra -q -p no:cacheprovider --timeout=900 --continue-on-collection-errors',
                  'source_commits': [], 'add_only': True},
        'engines': [{'name': 'pyvc', 'path': 'pyvc/', 'serves_properties': sorted(CLAIMED),
                     'kind_free_text': 'VC generator for a stated Python subset (ast -> symbolic execution with loop invariants and call-by-contract -> SMT-LIB) with z3/cvc5 back ends; bounded/ holds labelled bounded stand-ins'}],
        'checks': checks,
        'notes': 'Exit codes of every check: 0 held, 1 VIOLATION line(s), 2 UNDECIDED (not discharged and not refuted), 3 checker crash. known_findings.txt lists recorded and repaired defects.',
        'not_applicable': na,
    }
    json.dump(m, open(os.path.join(ROOT, 'MANIFEST.json'), 'w'), indent=1)

if __name__ == '__main__':
    main()
