#!/bin/bash
# runs every claimed check (quick tier) on the current /repo tree and reports exit codes; refreshes evidence/
cd "$(dirname "$0")/.."
for p in $(python3 -c "import json;print(' '.join(c['property_id'] for c in json.load(open('MANIFEST.json'))['checks']))"); do
  out=$(python3-vt check $p --tier ${1:-quick} 2>&1); rc=$?
  echo "$p exit=$rc $(echo "$out" | head -1 | cut -c1-160)"
  [ $rc -ne 0 ] && echo "$out" | tail -5
done
