#!/bin/bash
# tools/try_seed.sh <PROP> <seed dir>: apply a seeded change to /repo, run the property's check, always undo
p=$1; d=$(realpath "$2")
cd "$(dirname "$0")/.."
git -C /repo apply "$d/patch.diff" || { echo "patch does not apply"; exit 9; }
out=$(python3-vt check $p 2>&1); rc=$?
git -C /repo checkout -- .
echo "$p $(basename $d) exit=$rc :: $(echo "$out" | grep -c '^VIOLATION') violation lines; $(echo "$out" | grep '^VIOLATION' | grep -c obligation=) by obligation, $(echo "$out" | grep '^VIOLATION' | grep -vc obligation=) by bounded"
echo "$out" | grep "^VIOLATION\|^UNDECIDED" | head -4 | cut -c1-220
