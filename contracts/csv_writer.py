# CSVWriter (C10 warnings, C14 warnings iff, C15 broken pipe / finish, C06 writes only to its own stream).
# DESIGN Appendix B.9.  Records are flat here (cells None / str / number); nested list cells: bounded stand-in.

classdef('io.OutStream', ghost=dict(written=Str, closed=Bool))
classdef('rbql_csv.CSVWriter', bases=['rbql_engine.RBQLOutputWriter'],
         fields=dict(stream=Obj['io.OutStream'], line_separator=Str, delim=Str, sub_array_delim=Str, broken_pipe=Bool, close_stream_on_finish=Bool,
                     polymorphic_preprocess=Opt[MethodTag], polymorphic_join=MethodTag, check_separators_after_join=Bool, colors=Opt[List[Str]],
                     none_in_output=Bool, delim_in_simple_output=Bool, header_len=Opt[Int]))


@trusted('io.OutStream.write', trusted='A-IO: a text output stream appends what it is given, or raises BrokenPipeError having written at most a prefix of it')
def _(self: Obj['io.OutStream'], s: Str):
    ensures(self.written == old(self.written) + s, 'appended')
    raises('BrokenPipeError', len(self.written) >= len(old(self.written)) and self.written[:len(old(self.written))] == old(self.written)
           and (old(self.written) + s)[:len(self.written)] == self.written, 'pipe_broken_prefix_written')
    modifies(self)


@trusted('io.OutStream.flush', trusted='A-IO')
def _(self: Obj['io.OutStream']):
    ensures(self.written == old(self.written), 'nothing_written')
    raises('BrokenPipeError', self.written == old(self.written), 'pipe_broken')
    modifies(self)


@trusted('io.OutStream.close', trusted='A-IO')
def _(self: Obj['io.OutStream']):
    ensures(self.closed and self.written == old(self.written), 'closed')
    modifies(self)


@pred
def flat_record(fields):
    return forall(Int, lambda i: implies(0 <= i and i < len(fields), not is_list_cell(contents(fields)[i])))


@contract('rbql_csv.CSVWriter.normalize_fields', name='C14.csvwriter.normalize', props=['C14', 'C10'], store_policy='writer')
def _(self: Obj['rbql_csv.CSVWriter'], fields: List[Cell]):
    requires(flat_record(fields), 'flat_record')
    requires(not is_src(fields), 'record_is_not_a_source_row')
    invariant(0, 0 <= __i and __i <= len(fields) and len(fields) == len(old(contents(fields))), 'idx')
    invariant(0, forall(Int, lambda j: implies(0 <= j and j < __i, is_str(contents(fields)[j]) and sval(contents(fields)[j]) == norm_text(old(contents(fields))[j]))), 'normalised_so_far')
    invariant(0, forall(Int, lambda j: implies(__i <= j and j < len(fields), contents(fields)[j] == old(contents(fields))[j])), 'rest_untouched')
    invariant(0, self.none_in_output == (old(self.none_in_output) or any_none(old(contents(fields)), __i)), 'none_flag')
    # every cell becomes its text; the None warning flag is raised iff a None was written
    ensures(len(fields) == len(old(contents(fields))) and forall(Int, lambda j: implies(0 <= j and j < len(fields), is_str(contents(fields)[j]) and sval(contents(fields)[j]) == norm_text(old(contents(fields))[j]))), 'cells_become_text')
    ensures(self.none_in_output == (old(self.none_in_output) or any_none(old(contents(fields)), len(fields))), 'none_warning_iff_a_none_was_written')
    uses_at_exit(all_strings_prefix(contents(fields), len(fields)))
    ensures(all_strings(contents(fields)[:len(fields)]), 'all_text')
    modifies(field(self, 'none_in_output'), contents(fields))


@contract('rbql_csv.CSVWriter.quote_fields', name='C10.csvwriter.quote_fields', props=['C10'], store_policy='writer')
def _(self: Obj['rbql_csv.CSVWriter'], fields: List[Cell]):
    requires(not is_src(fields), 'record_is_not_a_source_row')
    requires(forall(Int, lambda j: implies(0 <= j and j < len(fields), is_str(contents(fields)[j]))), 'text_cells_pointwise')
    invariant(0, 0 <= __i and __i <= len(fields) and len(fields) == len(old(contents(fields))), 'idx')
    invariant(0, forall(Int, lambda j: implies(0 <= j and j < __i, is_str(contents(fields)[j]) and sval(contents(fields)[j]) == quote_spec(sval(old(contents(fields))[j]), self.delim, False))), 'quoted_so_far')
    invariant(0, forall(Int, lambda j: implies(__i <= j and j < len(fields), contents(fields)[j] == old(contents(fields))[j])), 'rest_untouched')
    ensures(len(fields) == len(old(contents(fields))) and forall(Int, lambda j: implies(0 <= j and j < len(fields), is_str(contents(fields)[j]) and sval(contents(fields)[j]) == quote_spec(sval(old(contents(fields))[j]), self.delim, False))), 'every_field_quoted_iff_needed')
    uses_at_exit(all_strings_prefix(contents(fields), len(fields)))
    ensures(all_strings(contents(fields)[:len(fields)]), 'all_text')
    modifies(contents(fields))


@contract('rbql_csv.CSVWriter.check_separator_in_fields_after_join', name='C14.csvwriter.delim_check', props=['C14', 'C10'])
def _(self: Obj['rbql_csv.CSVWriter'], output_line: Str, num_fields_expected: Int):
    # simple / whitespace output: the warning flag is raised iff re-splitting the line would not give back the fields
    # (a record with no fields has no field that could contain the separator: never flagged -- F5 repaired)
    ensures(self.delim_in_simple_output == (old(self.delim_in_simple_output) or (num_fields_expected != 0 and str_count(output_line, self.delim) + 1 != num_fields_expected)), 'separator_warning_iff_field_count_changes')
    modifies(field(self, 'delim_in_simple_output'))


@contract('rbql_csv.CSVWriter.get_warnings', name='C14.csvwriter.warnings', props=['C14', 'C10'])
def _(self: Obj['rbql_csv.CSVWriter']) -> List[Str]:
    local_types(result=List[Str])
    ensures(('None values in output were replaced by empty strings' in contents(result)) == self.none_in_output, 'none_warning_iff_flag')
    ensures(('Some output fields contain separator' in contents(result)) == self.delim_in_simple_output, 'separator_warning_iff_flag')
    ensures(len(result) == (1 if self.none_in_output else 0) + (1 if self.delim_in_simple_output else 0), 'nothing_else')


@contract('rbql_csv.CSVWriter.finish', name='C15.csvwriter.finish', props=['C15'])
def _(self: Obj['rbql_csv.CSVWriter']):
    # after a broken pipe nothing more is done to the stream; otherwise it is closed or flushed, and a pipe that breaks
    # on the final flush is absorbed
    ensures(implies(old(self.broken_pipe), self.stream.written == old(self.stream.written) and self.stream.closed == old(self.stream.closed)), 'no_op_after_broken_pipe')
    ensures(implies(not old(self.broken_pipe) and self.close_stream_on_finish, self.stream.closed), 'closes_its_stream')
    ensures(self.stream.written == old(self.stream.written), 'writes_nothing')
    raises('BrokenPipeError', False, 'never_raises_broken_pipe')
    modifies(self.stream, anything())


@contract('rbql_csv.CSVWriter.quote_fields_rfc', name='C10.csvwriter.quote_fields_rfc', props=['C10'], store_policy='writer')
def _(self: Obj['rbql_csv.CSVWriter'], fields: List[Cell]):
    requires(not is_src(fields), 'record_is_not_a_source_row')
    requires(forall(Int, lambda j: implies(0 <= j and j < len(fields), is_str(contents(fields)[j]))), 'text_cells_pointwise')
    invariant(0, 0 <= __i and __i <= len(fields) and len(fields) == len(old(contents(fields))), 'idx')
    invariant(0, forall(Int, lambda j: implies(0 <= j and j < __i, is_str(contents(fields)[j]) and sval(contents(fields)[j]) == quote_spec(sval(old(contents(fields))[j]), self.delim, True))), 'quoted_so_far')
    invariant(0, forall(Int, lambda j: implies(__i <= j and j < len(fields), contents(fields)[j] == old(contents(fields))[j])), 'rest_untouched')
    ensures(len(fields) == len(old(contents(fields))) and forall(Int, lambda j: implies(0 <= j and j < len(fields), is_str(contents(fields)[j]) and sval(contents(fields)[j]) == quote_spec(sval(old(contents(fields))[j]), self.delim, True))), 'every_field_quoted_iff_needed')
    uses_at_exit(all_strings_prefix(contents(fields), len(fields)))
    ensures(all_strings(contents(fields)[:len(fields)]), 'all_text')
    modifies(contents(fields))


@contract('rbql_csv.CSVWriter.ensure_single_field', name='C10.csvwriter.monocolumn', props=['C10', 'C14'])
def _(self: Obj['rbql_csv.CSVWriter'], fields: List[Cell]):
    ensures(len(fields) <= 1, 'single_field')
    raises('rbql_engine.RbqlIOHandlingError', len(fields) > 1, 'more_than_one_field')


@contract('rbql_csv.CSVWriter.join_by_delim', name='C10.csvwriter.join', props=['C10'])
def _(self: Obj['rbql_csv.CSVWriter'], fields: List[Cell]) -> Str:
    requires(all_strings(contents(fields)[:len(fields)]), 'text_cells')
    ensures(result == cells_join(self.delim, contents(fields)), 'joined_by_delimiter')


@contract('rbql_csv.CSVWriter.monocolumn_join', name='C10.csvwriter.monojoin', props=['C10'])
def _(self: Obj['rbql_csv.CSVWriter'], fields: List[Cell]) -> Str:
    requires(len(fields) == 1 and is_str(contents(fields)[0]), 'single_text_field')
    ensures(result == sval(contents(fields)[0]), 'the_field')


@pred
def csvw_config(self):
    # a writer configured by __init__ for one of the five policies, colours off
    return (is_none(self.colors)
            and (is_none(self.polymorphic_preprocess) or self.polymorphic_preprocess == mtag('quote_fields') or self.polymorphic_preprocess == mtag('quote_fields_rfc')
                 or self.polymorphic_preprocess == mtag('ensure_single_field'))
            and (self.polymorphic_join == mtag('join_by_delim') or self.polymorphic_join == mtag('monocolumn_join'))
            and (self.polymorphic_join == mtag('monocolumn_join')) == (self.polymorphic_preprocess == mtag('ensure_single_field'))
            and implies(self.check_separators_after_join, is_none(self.polymorphic_preprocess)))


@contract('rbql_csv.CSVWriter.write', name='C15.csvwriter.write', props=['C15', 'C10', 'C14', 'C06', 'C13'], store_policy='writer')
def _(self: Obj['rbql_csv.CSVWriter'], fields: List[Cell]) -> Bool:
    options(prune=True)      # the five configurations make most combinations of the polymorphic_* dispatches unreachable
    requires(csvw_config(self), 'configured')
    requires(flat_record(fields) and not is_src(fields), 'flat_fresh_record')
    requires(implies(self.polymorphic_join == mtag('monocolumn_join'), len(fields) >= 1), 'monocolumn_has_a_field')
    # refinement of IF.writer.write (C13): the record is recorded as offered, a broken pipe is the refusal
    ghost_update(self.offered, old(self.offered) + [old(contents(fields))])
    ghost_update(self.refused, not result)
    ghost_update(is_owned_below(fields), True)
    ensures(self.refused == (not result) and self.finished == old(self.finished) and is_owned_below(fields), 'interface_typestate')
    # C15: a consumer that goes away never surfaces as an exception: write reports False and remembers it
    ensures(implies(not result, self.broken_pipe and len(self.stream.written) >= len(old(self.stream.written))
                    and self.stream.written[:len(old(self.stream.written))] == old(self.stream.written)), 'broken_pipe_reported_not_raised')
    ensures(implies(result, self.broken_pipe == old(self.broken_pipe)), 'flag_only_on_failure')
    # C10/C14: on success exactly one line is appended: the (normalised, policy-quoted) fields joined by the delimiter
    ensures(implies(result, self.stream.written == old(self.stream.written) + (cells_join(self.delim, contents(fields)) if self.polymorphic_join == mtag('join_by_delim') else sval(contents(fields)[0])) + self.line_separator), 'one_line_appended')
    ensures(forall(Int, lambda j: implies(0 <= j and j < len(fields), is_str(contents(fields)[j])
                                           and sval(contents(fields)[j]) == (quote_spec(norm_text(old(contents(fields))[j]), self.delim, False) if self.polymorphic_preprocess == mtag('quote_fields')
                                                                            else (quote_spec(norm_text(old(contents(fields))[j]), self.delim, True) if self.polymorphic_preprocess == mtag('quote_fields_rfc')
                                                                                  else norm_text(old(contents(fields))[j]))))), 'fields_written_as_text_quoted_by_policy')
    ensures(self.none_in_output == (old(self.none_in_output) or any_none(old(contents(fields)), len(fields))), 'none_warning_iff_a_none_was_written')
    ensures(implies(self.check_separators_after_join,
                    self.delim_in_simple_output == (old(self.delim_in_simple_output) or (len(fields) != 0 and str_count(cells_join(self.delim, contents(fields)), self.delim) + 1 != len(fields)))), 'separator_warning_iff_field_count_changes')
    raises('rbql_engine.RbqlIOHandlingError', (not is_none(self.header_len) and len(old(contents(fields))) != opt_val(self.header_len) and self.stream.written == old(self.stream.written))
           or (self.polymorphic_join == mtag('monocolumn_join') and len(old(contents(fields))) > 1 and self.stream.written == old(self.stream.written)), 'width_mismatch_or_monocolumn_violation_nothing_written')
    raises('BrokenPipeError', False, 'never_raises_broken_pipe')
    modifies(field(self, 'none_in_output'), field(self, 'delim_in_simple_output'), field(self, 'broken_pipe'), field(self, 'offered'), field(self, 'refused'), self.stream, contents(fields))


@contract('rbql_csv.CSVWriter.colorize_fields', name='C10.csvwriter.colorize', props=['C10'], store_policy='writer')
def _(self: Obj['rbql_csv.CSVWriter'], fields: List[Cell]):
    requires(not is_none(self.colors) and len(opt_val(self.colors)) > 0, 'colours_on')
    requires(not is_src(fields), 'record_is_not_a_source_row')
    requires(forall(Int, lambda j: implies(0 <= j and j < len(fields), is_str(contents(fields)[j]))), 'text_cells_pointwise')
    invariant(0, 0 <= __i and __i <= len(fields) and len(fields) == len(old(contents(fields))), 'idx')
    invariant(0, forall(Int, lambda j: implies(__i <= j and j < len(fields), contents(fields)[j] == old(contents(fields))[j])), 'rest_untouched')
    invariant(0, forall(Int, lambda j: implies(0 <= j and j < __i, is_str(contents(fields)[j]))), 'still_text')
    ensures(len(fields) == len(old(contents(fields))) and forall(Int, lambda j: implies(0 <= j and j < len(fields), is_str(contents(fields)[j]))), 'still_text')
    modifies(contents(fields))


@trusted('rbql_csv.encode_output_stream', trusted='A-IO: wrapping a byte stream into an encoding text stream (io.TextIOWrapper / codecs writer): what is written to the wrapper is what reaches the file, encoded; nothing is written by wrapping')
def _(stream: Obj['io.OutStream'], encoding: Opt[Str]) -> Obj['io.OutStream']:
    ensures(allocated(result) and result.written == '' and not result.closed, 'a_fresh_text_stream')


@contract('rbql_csv.CSVWriter.__init__', name='C10.csvwriter.init', props=['C10', 'C14', 'C15'], store_policy='none')
def _(self: Obj['rbql_csv.CSVWriter'], stream: Obj['io.OutStream'], close_stream_on_finish: Bool, encoding: Opt[Str], delim: Str, policy: Str, line_separator: Str,
      colorize_output: Bool):
    requires(is_none(encoding) or opt_val(encoding) == 'utf-8' or opt_val(encoding) == 'latin-1', 'known_encoding')
    requires(not colorize_output, 'colours_off')
    # interface typestate of a new writer (ghost): nothing offered, refused or finished, no header announced
    ghost_update(self.offered, empty(RecV))
    ghost_update(self.refused, False)
    ghost_update(self.finished, False)
    ghost_update(self.sorted_iface, False)
    ghost_update(self.header_calls, 0)
    # the five output dialects: which preprocessing and which join each one selects
    ensures(csvw_config(self) and self.delim == delim and self.line_separator == line_separator and self.close_stream_on_finish == close_stream_on_finish, 'configured')
    ensures(self.check_separators_after_join == (policy == 'simple' or policy == 'whitespace'), 'separator_check_for_unquoted_dialects')
    ensures(implies(policy == 'simple' or policy == 'whitespace', is_none(self.polymorphic_preprocess) and self.polymorphic_join == mtag('join_by_delim')), 'simple_joins_as_is')
    ensures(implies(policy == 'quoted', self.polymorphic_preprocess == mtag('quote_fields') and self.polymorphic_join == mtag('join_by_delim')), 'quoted_quotes_when_needed')
    ensures(implies(policy == 'quoted_rfc', self.polymorphic_preprocess == mtag('quote_fields_rfc') and self.polymorphic_join == mtag('join_by_delim')), 'rfc_quotes_when_needed')
    ensures(implies(policy == 'monocolumn', self.polymorphic_preprocess == mtag('ensure_single_field') and self.polymorphic_join == mtag('monocolumn_join')), 'monocolumn_single_field')
    # a fresh writer has reported nothing and written nothing
    ensures(not self.broken_pipe and not self.none_in_output and not self.delim_in_simple_output and is_none(self.header_len), 'no_warnings_no_header_yet')
    ensures(self.stream.written == '' and not self.stream.closed, 'nothing_written_yet')
    ensures(self.sub_array_delim == ('|' if delim != '|' else ';'), 'sub_array_delimiter')
    raises('RuntimeError', policy != 'simple' and policy != 'whitespace' and policy != 'quoted' and policy != 'quoted_rfc' and policy != 'monocolumn', 'unknown_policy')
    raises('AssertionError', False, 'known_encoding')
    modifies(self, fresh_only())


@contract('rbql_csv.CSVWriter.set_header', name='C07.csvwriter.set_header', props=['C07', 'C10', 'C15'], store_policy='writer')
def _(self: Obj['rbql_csv.CSVWriter'], header: Opt[List[Cell]]):
    requires(csvw_config(self), 'configured')
    requires(implies(not is_none(header), flat_record(opt_val(header)) and not is_src(opt_val(header))), 'flat_fresh_header')
    requires(implies(not is_none(header) and self.polymorphic_join == mtag('monocolumn_join'), len(opt_val(header)) >= 1), 'monocolumn_has_a_field')
    # the header row is written like any record (through write), but is not one of the offered records
    ghost_update(self.offered, old(self.offered))
    ensures(self.offered == old(self.offered), 'header_is_not_a_record')
    # ... and fixes the width every later record must have
    ensures(implies(is_none(header), self.stream.written == old(self.stream.written) and self.header_len == old(self.header_len)), 'no_header_nothing_written')
    ensures(implies(not is_none(header), not is_none(self.header_len) and opt_val(self.header_len) == len(old(contents(opt_val(header))))), 'width_fixed_by_header')
    ensures(implies(not is_none(header) and not self.broken_pipe,
                    self.stream.written == old(self.stream.written) + (cells_join(self.delim, contents(opt_val(header))) if self.polymorphic_join == mtag('join_by_delim') else sval(contents(opt_val(header))[0])) + self.line_separator), 'header_line_written_first')
    raises('rbql_engine.RbqlIOHandlingError', self.polymorphic_join == mtag('monocolumn_join') and self.stream.written == old(self.stream.written), 'monocolumn_violation_nothing_written')
    raises('BrokenPipeError', False, 'never_raises_broken_pipe')
    modifies(field(self, 'none_in_output'), field(self, 'delim_in_simple_output'), field(self, 'broken_pipe'), field(self, 'header_len'), field(self, 'offered'), field(self, 'refused'),
             self.stream, contents(opt_val(header)))


@trusted('rbql_csv.init_ansi_terminal_colors', trusted='A-IO: terminal colour table (only reachable with colorize_output=True, which the verified configurations exclude)')
def _() -> List[Str]:
    ensures(len(result) > 0, 'some_colours')
