# JavaScript engine (C19): classes and functions of rbql-js/rbql.js, translated mechanically on every run by pyvc/jsfront.py
# (module js_rbql), verified against THE SAME specification functions (rsum, rmin, rmax, take, dedup_first, ...) and the same
# invariants (sum_inv, min_inv, ...) as the Python engine (contracts/engine_agg.py, engine_writers.py, engine_join.py).
# What differs from the Python contracts is stated where it differs: JavaScript has no NumHandler (numbers are parsed by
# parse_number, trusted: A-JS-Number), Map.get() of a missing key is `undefined` (read as None by the translation), and the
# JavaScript terminal writers never refuse a record (A-WRITER-JS).  Parsed, never executed.

classdef('js_rbql.Aggregator', family='aggregator', ghost=dict(hist=Map[Key, Seq[Cell]], finalv=Map[Key, Cell]))


@trusted('js_rbql.parse_number',
         trusted='A-JS-Number: Number(val) of a number is that number; of a string it is NaN exactly when Python float() rejects the string, and the same number otherwise. '
                 'Not true for every string ("" and "0x10" are numbers for JavaScript only, "1_0" and "infinity" for Python only); validated on decimal integer strings by the bounded C19 job')
def _(val: Cell) -> Cell:
    requires(is_num(val) or is_str(val), 'numeric_column_value')
    ensures(parsable(val) and is_num(result) and num(result) == numv(val), 'numeric_value')
    raises('js_rbql.RbqlRuntimeError', is_str(val) and not float_ok(sval(val)), 'non_numeric_value')


# ---------------------------------------------------------------- SUM
classdef('js_rbql.SumAggregator', bases=['js_rbql.Aggregator'], fields=dict(stats=Dict[Key, Cell]))


@pred
def js_sum_inv(self):
    return forall(Key, lambda k: has_key(self.stats, k) == (len(self.hist[k]) >= 1)
                  and implies(has_key(self.stats, k), is_num(self.stats[k]) and num(self.stats[k]) == rsum(self.hist[k])))


@contract('js_rbql.SumAggregator.__init__', name='C19.js.sum.init', props=['C19'])
def _(self: Obj['js_rbql.SumAggregator']):
    ghost_update(self.hist, const_map(Key, empty(Cell)))
    ensures(js_sum_inv(self) and is_fresh(self.stats), 'inv')
    modifies(self)


@contract('js_rbql.SumAggregator.increment', name='C19.js.sum.increment', props=['C19'])
def _(self: Obj['js_rbql.SumAggregator'], key: Key, val: Cell):
    requires(js_sum_inv(self) and (is_num(val) or is_str(val)), 'inv')
    ghost_update(self.hist, map_set(old(self.hist), key, old(self.hist)[key] + [val]))
    ensures(js_sum_inv(self), 'running_sum_is_the_sum_of_the_group')
    ensures(not (is_str(val) and not float_ok(sval(val))), 'non_numeric_value_is_rejected_at_increment')
    raises('js_rbql.RbqlRuntimeError', is_str(val) and not float_ok(sval(val)), 'non_numeric_value')
    modifies(field(self, 'hist'), self.stats)


@contract('js_rbql.SumAggregator.get_final', name='C19.js.sum.final', props=['C19'])
def _(self: Obj['js_rbql.SumAggregator'], key: Key) -> Cell:
    requires(js_sum_inv(self) and len(self.hist[key]) >= 1, 'inv')
    ensures(is_num(result) and num(result) == rsum(self.hist[key]), 'sum_of_group')


# ---------------------------------------------------------------- COUNT
classdef('js_rbql.CountAggregator', bases=['js_rbql.Aggregator'], fields=dict(stats=Dict[Key, Int]))


@pred
def js_count_inv(self):
    return forall(Key, lambda k: has_key(self.stats, k) == (len(self.hist[k]) >= 1)
                  and implies(has_key(self.stats, k), self.stats[k] == len(self.hist[k])))


@contract('js_rbql.CountAggregator.__init__', name='C19.js.count.init', props=['C19'])
def _(self: Obj['js_rbql.CountAggregator']):
    ghost_update(self.hist, const_map(Key, empty(Cell)))
    ensures(js_count_inv(self) and is_fresh(self.stats), 'inv')
    modifies(self)


@contract('js_rbql.CountAggregator.increment', name='C19.js.count.increment', props=['C19'])
def _(self: Obj['js_rbql.CountAggregator'], key: Key, val: Cell):
    requires(js_count_inv(self), 'inv')
    ghost_update(self.hist, map_set(old(self.hist), key, old(self.hist)[key] + [val]))
    ensures(js_count_inv(self), 'count_is_group_size')
    modifies(field(self, 'hist'), self.stats)


@contract('js_rbql.CountAggregator.get_final', name='C19.js.count.final', props=['C19'])
def _(self: Obj['js_rbql.CountAggregator'], key: Key) -> Opt[Int]:
    requires(js_count_inv(self) and len(self.hist[key]) >= 1, 'inv')
    ensures(not is_none(result) and opt_val(result) == len(self.hist[key]), 'count_of_group')


# ---------------------------------------------------------------- MIN / MAX
classdef('js_rbql.MinAggregator', bases=['js_rbql.Aggregator'], fields=dict(stats=Dict[Key, Cell]))
classdef('js_rbql.MaxAggregator', bases=['js_rbql.Aggregator'], fields=dict(stats=Dict[Key, Cell]))


@contract('js_rbql.MinAggregator.__init__', name='C19.js.min.init', props=['C19'])
def _(self: Obj['js_rbql.MinAggregator']):
    ghost_update(self.hist, const_map(Key, empty(Cell)))
    ensures(min_inv(self) and is_fresh(self.stats), 'inv')
    modifies(self)


@contract('js_rbql.MinAggregator.increment', name='C19.js.min.increment', props=['C19'])
def _(self: Obj['js_rbql.MinAggregator'], key: Key, val: Cell):
    requires(min_inv(self) and (is_num(val) or is_str(val)), 'inv')
    ghost_update(self.hist, map_set(old(self.hist), key, old(self.hist)[key] + [val]))
    ensures(min_inv(self), 'running_min_is_the_minimum_of_the_group')
    ensures(not (is_str(val) and not float_ok(sval(val))), 'non_numeric_value_is_rejected_at_increment')
    raises('js_rbql.RbqlRuntimeError', is_str(val) and not float_ok(sval(val)), 'non_numeric_value')
    modifies(field(self, 'hist'), self.stats)


@contract('js_rbql.MinAggregator.get_final', name='C19.js.min.final', props=['C19'])
def _(self: Obj['js_rbql.MinAggregator'], key: Key) -> Cell:
    requires(min_inv(self) and len(self.hist[key]) >= 1, 'inv')
    ensures(is_num(result) and num(result) == rmin(self.hist[key]), 'min_of_group')


@contract('js_rbql.MaxAggregator.__init__', name='C19.js.max.init', props=['C19'])
def _(self: Obj['js_rbql.MaxAggregator']):
    ghost_update(self.hist, const_map(Key, empty(Cell)))
    ensures(max_inv(self) and is_fresh(self.stats), 'inv')
    modifies(self)


@contract('js_rbql.MaxAggregator.increment', name='C19.js.max.increment', props=['C19'])
def _(self: Obj['js_rbql.MaxAggregator'], key: Key, val: Cell):
    requires(max_inv(self) and (is_num(val) or is_str(val)), 'inv')
    ghost_update(self.hist, map_set(old(self.hist), key, old(self.hist)[key] + [val]))
    ensures(max_inv(self), 'running_max_is_the_maximum_of_the_group')
    ensures(not (is_str(val) and not float_ok(sval(val))), 'non_numeric_value_is_rejected_at_increment')
    raises('js_rbql.RbqlRuntimeError', is_str(val) and not float_ok(sval(val)), 'non_numeric_value')
    modifies(field(self, 'hist'), self.stats)


@contract('js_rbql.MaxAggregator.get_final', name='C19.js.max.final', props=['C19'])
def _(self: Obj['js_rbql.MaxAggregator'], key: Key) -> Cell:
    requires(max_inv(self) and len(self.hist[key]) >= 1, 'inv')
    ensures(is_num(result) and num(result) == rmax(self.hist[key]), 'max_of_group')


# ---------------------------------------------------------------- AVG / VARIANCE (running statistics; get_final divides: outside the JS subset, bounded only)
classdef('js_rbql.AvgAggregator', bases=['js_rbql.Aggregator'], fields=dict(stats=Dict[Key, Tuple[Cell, Int]]))


@contract('js_rbql.AvgAggregator.__init__', name='C19.js.avg.init', props=['C19'])
def _(self: Obj['js_rbql.AvgAggregator']):
    ghost_update(self.hist, const_map(Key, empty(Cell)))
    ensures(avg_inv(self) and is_fresh(self.stats), 'inv')
    modifies(self)


@contract('js_rbql.AvgAggregator.increment', name='C19.js.avg.increment', props=['C19'])
def _(self: Obj['js_rbql.AvgAggregator'], key: Key, val: Cell):
    requires(avg_inv(self) and (is_num(val) or is_str(val)), 'inv')
    ghost_update(self.hist, map_set(old(self.hist), key, old(self.hist)[key] + [val]))
    ensures(avg_inv(self), 'running_sum_and_count_of_the_group')
    ensures(not (is_str(val) and not float_ok(sval(val))), 'non_numeric_value_is_rejected_at_increment')
    raises('js_rbql.RbqlRuntimeError', is_str(val) and not float_ok(sval(val)), 'non_numeric_value')
    modifies(field(self, 'hist'), self.stats)


# ---------------------------------------------------------------- ANY_VALUE / constant columns
classdef('js_rbql.AnyValueAggregator', bases=['js_rbql.Aggregator'], fields=dict(stats=Dict[Key, Cell]))


@contract('js_rbql.AnyValueAggregator.__init__', name='C19.js.any.init', props=['C19'])
def _(self: Obj['js_rbql.AnyValueAggregator']):
    ghost_update(self.hist, const_map(Key, empty(Cell)))
    ensures(any_inv(self) and is_fresh(self.stats), 'inv')
    modifies(self)


@contract('js_rbql.AnyValueAggregator.increment', name='C19.js.any.increment', props=['C19'])
def _(self: Obj['js_rbql.AnyValueAggregator'], key: Key, val: Cell):
    requires(any_inv(self), 'inv')
    ghost_update(self.hist, map_set(old(self.hist), key, old(self.hist)[key] + [val]))
    ensures(any_inv(self), 'first_value_of_the_group')
    modifies(field(self, 'hist'), self.stats)


@contract('js_rbql.AnyValueAggregator.get_final', name='C19.js.any.final', props=['C19'])
def _(self: Obj['js_rbql.AnyValueAggregator'], key: Key) -> Cell:
    requires(any_inv(self) and len(self.hist[key]) >= 1, 'inv')
    ensures(result == self.hist[key][0], 'a_value_of_the_group')


# ================================================================ writer chain (C02 semantics of the JavaScript engine)
# Same ghost vocabulary as contracts/engine_writers.py.  The chain is the one shallow_parse_input_query builds (rbql.js:1912-1923):
# TopWriter wraps the terminal writer; UniqWriter / UniqCountWriter wrap the TopWriter.
classdef('js_rbql.RBQLOutputWriter', family='writer',
         ghost=dict(level=Int, offered=Seq[RecV], refused=Bool, finished=Bool, sorted_iface=Bool, header_calls=Int))
classdef('js_rbql.TopWriter', bases=['js_rbql.RBQLOutputWriter'],
         fields=dict(subwriter=Obj['js_rbql.RBQLOutputWriter'], NW=Int, top_count=Opt[Int]))
classdef('js_rbql.UniqWriter', bases=['js_rbql.RBQLOutputWriter'],
         fields=dict(subwriter=Obj['js_rbql.TopWriter'], seen=Set[RecV]))


@contract('js_rbql.RBQLOutputWriter.write', name='IF.js.writer.write',
          trusted='A-WRITER-JS: interface contract of the TERMINAL JavaScript writers (TableWriter, CSVWriter): like A-WRITER, and they accept every record (write resolves to true or rejects); '
                  'a user writer that returned false would be written to again by the JavaScript TopWriter, which ignores the result')
def _(self: Obj['js_rbql.RBQLOutputWriter'], fields: List[Cell]) -> Bool:
    requires(not self.finished, 'not_finished')
    requires(not self.refused, 'no_write_after_refusal')
    requires(not self.sorted_iface, 'plain_writer')
    requires(not is_src(fields), 'record_is_not_a_source_row')
    requires(not is_offered(fields), 'engine_record_not_offered_twice')
    ensures(self.offered == old(self.offered) + [old(contents(fields))], 'offered')
    ensures(result and not self.refused, 'terminal_writers_accept_every_record')
    ensures(self.finished == old(self.finished) and self.sorted_iface == old(self.sorted_iface), 'typestate')
    ensures(is_owned_below(fields), 'ownership')
    modifies(region(self), contents(fields))


@contract('js_rbql.RBQLOutputWriter.finish', name='IF.js.writer.finish', trusted='interface contract (A-WRITER-JS)')
def _(self: Obj['js_rbql.RBQLOutputWriter']):
    requires(not self.finished, 'finish_once')
    ensures(self.finished, 'finished')
    ensures(self.offered == old(self.offered) and self.refused == old(self.refused), 'nothing_offered')
    modifies(region(self))


@pred
def js_limit(self):
    # TOP / LIMIT n of the records offered so far; no limit when top_count is null
    return self.offered if is_none(self.top_count) else take(opt_val(self.top_count), self.offered)


@pred
def js_top_inv(self):
    sub = self.subwriter
    return (sub.level < self.level and not sub.sorted_iface and not self.sorted_iface
            and self.NW == len(sub.offered) and not sub.refused
            and sub.offered == js_limit(self)
            and sub.finished == self.finished)


@contract('js_rbql.TopWriter.__init__', name='C19.js.top.init', props=['C19'])
def _(self: Obj['js_rbql.TopWriter'], subwriter: Obj['js_rbql.RBQLOutputWriter'], top_count: Opt[Int]):
    requires(not same(self, subwriter), 'distinct')
    requires(len(subwriter.offered) == 0 and not subwriter.refused and not subwriter.finished and not subwriter.sorted_iface, 'sub_new')
    ghost_update(self.level, subwriter.level + 1)
    ghost_update(self.offered, empty(RecV))
    ghost_update(self.refused, False)
    ghost_update(self.finished, False)
    ghost_update(self.sorted_iface, False)
    ensures(js_top_inv(self), 'inv')
    ensures(same(self.subwriter, subwriter) and self.top_count == top_count, 'fields')
    modifies(self)


@contract('js_rbql.TopWriter.write', name='C19.js.top.write', props=['C19'], store_policy='writer')
def _(self: Obj['js_rbql.TopWriter'], record: List[Cell]) -> Bool:
    requires(js_top_inv(self), 'inv')
    requires(not self.finished, 'not_finished')
    requires(not self.refused, 'no_write_after_refusal')
    requires(not is_src(record), 'record_is_not_a_source_row')
    requires(not is_offered(record), 'engine_record_not_offered_twice')
    ghost_update(self.offered, old(self.offered) + [old(contents(record))])
    ghost_update(self.refused, not result)
    ghost_update(is_owned_below(record), True)
    ensures(js_top_inv(self), 'inv')
    ensures(self.subwriter.offered == js_limit(self), 'forwards_exactly_first_n')
    ensures(result == (is_none(self.top_count) or len(old(self.offered)) < opt_val(self.top_count)), 'result')
    ensures(is_owned_below(record), 'ownership')
    ensures(self.top_count == old(self.top_count) and same(self.subwriter, old(self.subwriter)), 'config_unchanged')
    ensures(self.finished == old(self.finished) and self.sorted_iface == old(self.sorted_iface) and self.level == old(self.level), 'typestate')
    modifies(self, region(self.subwriter), contents(record))


@contract('js_rbql.TopWriter.finish', name='C19.js.top.finish', props=['C19'])
def _(self: Obj['js_rbql.TopWriter']):
    requires(js_top_inv(self), 'inv')
    requires(not self.finished, 'finish_once')
    ghost_update(self.finished, True)
    ensures(js_top_inv(self), 'inv')
    ensures(self.subwriter.finished, 'sub_finished_once')
    ensures(self.subwriter.offered == old(self.subwriter.offered), 'nothing_offered')
    ensures(self.offered == old(self.offered) and self.refused == old(self.refused) and self.level == old(self.level)
            and self.sorted_iface == old(self.sorted_iface), 'typestate')
    modifies(self, region(self.subwriter))


@pred
def js_uniq_inv(self):
    sub = self.subwriter
    return (sub.level < self.level and not self.sorted_iface and js_top_inv(sub)
            and forall(RecV, lambda x: in_set(self.seen, x) == (x in self.offered))
            and sub.offered == dedup_first(self.offered)
            and implies(sub.refused, self.refused)
            and sub.finished == self.finished)


@contract('js_rbql.UniqWriter.__init__', name='C19.js.uniq.init', props=['C19'])
def _(self: Obj['js_rbql.UniqWriter'], subwriter: Obj['js_rbql.TopWriter']):
    requires(not same(self, subwriter) and not same(self, subwriter.subwriter), 'distinct')
    requires(js_top_inv(subwriter) and len(subwriter.offered) == 0 and not subwriter.refused and not subwriter.finished, 'sub_new')
    ghost_update(self.level, subwriter.level + 1)
    ghost_update(self.offered, empty(RecV))
    ghost_update(self.refused, False)
    ghost_update(self.finished, False)
    ghost_update(self.sorted_iface, False)
    ensures(js_uniq_inv(self), 'inv')
    ensures(same(self.subwriter, subwriter), 'fields')
    modifies(self)


@contract('js_rbql.UniqWriter.write', name='C19.js.uniq.write', props=['C19'], store_policy='writer')
def _(self: Obj['js_rbql.UniqWriter'], record: List[Cell]) -> Bool:
    requires(js_uniq_inv(self), 'inv')
    requires(not self.finished, 'not_finished')
    requires(not self.refused, 'no_write_after_refusal')
    requires(not is_src(record), 'record_is_not_a_source_row')
    requires(not is_offered(record), 'engine_record_not_offered_twice')
    ghost_update(self.offered, old(self.offered) + [old(contents(record))])
    ghost_update(self.refused, not result)
    ghost_update(is_owned_below(record), True)
    ensures(js_uniq_inv(self), 'inv')
    ensures(is_owned_below(record), 'ownership')
    ensures(self.subwriter.offered == dedup_first(self.offered), 'forwards_first_occurrences')
    ensures(result == (not self.subwriter.refused), 'result')
    ensures(same(self.subwriter, old(self.subwriter)), 'config_unchanged')
    modifies(self, self.seen, region(self.subwriter), contents(record))


@contract('js_rbql.UniqWriter.finish', name='C19.js.uniq.finish', props=['C19'])
def _(self: Obj['js_rbql.UniqWriter']):
    requires(js_uniq_inv(self), 'inv')
    requires(not self.finished, 'finish_once')
    ghost_update(self.finished, True)
    ensures(js_uniq_inv(self), 'inv')
    ensures(self.subwriter.finished, 'sub_finished_once')
    ensures(self.subwriter.offered == old(self.subwriter.offered), 'nothing_offered')
    modifies(self, region(self.subwriter))


# ================================================================ joiners (C04 semantics of the JavaScript engine)
# Same pairing spec join_pairs_for(kind, buckets, null width, key) and the same hjm_built / match_list_ok predicates as the Python engine.
classdef('js_rbql.Joiner', family='joiner',
         ghost=dict(kind=Int, jmv=Map[JKey, Seq[Tuple[Opt[Int], Int, RecV]]], nullw=Int))
classdef('js_rbql.HashJoinMap', family='joiner',
         fields=dict(max_record_len=Int, hash_map=Dict[JKey, List[Tuple[Opt[Int], Int, Rec]]]),
         ghost=dict(kidx=Seq[Int], jm=Map[JKey, Seq[Tuple[Opt[Int], Int, RecV]]]))
classdef('js_rbql.InnerJoiner', bases=['js_rbql.Joiner'], fields=dict(join_map=Obj['js_rbql.HashJoinMap']))
classdef('js_rbql.LeftJoiner', bases=['js_rbql.Joiner'], fields=dict(join_map=Obj['js_rbql.HashJoinMap'], null_record=List[Tuple[Opt[Int], Int, Rec]]))
classdef('js_rbql.StrictLeftJoiner', bases=['js_rbql.Joiner'], fields=dict(join_map=Obj['js_rbql.HashJoinMap']))


@contract('js_rbql.HashJoinMap.get_join_records', name='C19.js.map.get', props=['C19'])
def _(self: Obj['js_rbql.HashJoinMap'], key: JKey) -> List[Tuple[Opt[Int], Int, Rec]]:
    requires(hjm_built(self), 'built')
    ensures(match_list_ok(contents(result), self.jm[key]), 'bucket_of_key')
    ensures(not is_owned_below(result), 'list_not_owned_by_writer')
    ensures(hjm_built(self) and self.jm == old(self.jm) and self.max_record_len == old(self.max_record_len), 'map_unchanged')
    ensures(forall(JKey, lambda k: has_key(self.hash_map, k) == old(has_key(self.hash_map, k))), 'a_lookup_adds_no_key')


@contract('js_rbql.InnerJoiner.__init__', name='C19.js.inner.init', props=['C19'])
def _(self: Obj['js_rbql.InnerJoiner'], join_map: Obj['js_rbql.HashJoinMap']):
    ghost_update(self.kind, 0)
    ghost_update(self.jmv, join_map.jm)
    ghost_update(self.nullw, 0)
    ensures(same(self.join_map, join_map), 'fields')
    modifies(self)


@contract('js_rbql.InnerJoiner.get_rhs', name='C19.js.inner.get_rhs', props=['C19'])
def _(self: Obj['js_rbql.InnerJoiner'], lhs_key: JKey) -> List[Tuple[Opt[Int], Int, Rec]]:
    requires(hjm_built(self.join_map) and self.kind == 0 and self.jmv == self.join_map.jm, 'inv')
    ensures(match_list_ok(contents(result), join_pairs_for(self.kind, self.jmv, self.nullw, lhs_key)), 'denotes_pairs')
    ensures(not is_owned_below(result), 'list_not_owned_by_writer')
    ensures(hjm_built(self.join_map) and self.kind == 0 and self.jmv == self.join_map.jm and self.jmv == old(self.jmv), 'inv_kept')


@contract('js_rbql.LeftJoiner.get_rhs', name='C19.js.left.get_rhs', props=['C19'])
def _(self: Obj['js_rbql.LeftJoiner'], lhs_key: JKey) -> List[Tuple[Opt[Int], Int, Rec]]:
    requires(left_inv(self), 'inv')
    # LEFT JOIN: an unmatched key yields exactly one pairing whose b-fields are all null (width of the widest B record)
    ensures(match_list_ok(contents(result), join_pairs_for(self.kind, self.jmv, self.nullw, lhs_key)), 'denotes_pairs')
    ensures(not is_owned_below(result), 'list_not_owned_by_writer')
    ensures(left_inv(self) and self.jmv == old(self.jmv) and self.nullw == old(self.nullw), 'inv_kept')


@contract('js_rbql.StrictLeftJoiner.__init__', name='C19.js.strict.init', props=['C19'])
def _(self: Obj['js_rbql.StrictLeftJoiner'], join_map: Obj['js_rbql.HashJoinMap']):
    ghost_update(self.kind, 2)
    ghost_update(self.jmv, join_map.jm)
    ghost_update(self.nullw, 0)
    ensures(same(self.join_map, join_map), 'fields')
    modifies(self)


@contract('js_rbql.StrictLeftJoiner.get_rhs', name='C19.js.strict.get_rhs', props=['C19'])
def _(self: Obj['js_rbql.StrictLeftJoiner'], lhs_key: JKey) -> List[Tuple[Opt[Int], Int, Rec]]:
    requires(hjm_built(self.join_map) and self.kind == 2 and self.jmv == self.join_map.jm, 'inv')
    ensures(len(self.jmv[lhs_key]) == 1 and match_list_ok(contents(result), join_pairs_for(self.kind, self.jmv, self.nullw, lhs_key)), 'exactly_one_match')
    ensures(not is_owned_below(result), 'list_not_owned_by_writer')
    ensures(hjm_built(self.join_map) and self.kind == 2 and self.jmv == self.join_map.jm and self.jmv == old(self.jmv), 'inv_kept')
    raises('js_rbql.RbqlRuntimeError', len(self.jmv[lhs_key]) != 1, 'fails_unless_exactly_one_match')


# ================================================================ record helpers (C01/C04/C05 semantics) and the array adapters (C06 clause of C19)
@contract('js_rbql.safe_get', name='C19.js.safe_get', props=['C19'])
def _(record: List[Cell], idx: Int) -> Cell:
    requires(idx >= 0, 'idx_nonneg')
    ensures(result == (contents(record)[idx] if idx < len(record) else None), 'post')


@contract('js_rbql.safe_join_get', name='C19.js.safe_join_get', props=['C19'])
def _(record: List[Cell], idx: Int) -> Cell:
    requires(idx >= 0, 'idx_nonneg')
    ensures(idx < len(record) and result == contents(record)[idx], 'post')
    raises('js_rbql.InternalBadFieldError', idx >= len(record) and exc_field('bad_idx') == idx, 'bad_field')


@contract('js_rbql.safe_set', name='C19.js.safe_set', props=['C19'])
def _(record: List[Cell], idx: Int, value: Cell):
    requires(idx >= 0, 'idx_nonneg')
    requires(not is_src(record), 'not_a_source_row')
    requires(not is_offered(record), 'not_already_offered')
    ensures(idx < len(old(contents(record))), 'in_range')
    ensures(contents(record) == old(contents(record))[:idx] + [value] + old(contents(record))[idx + 1:], 'post')
    raises('js_rbql.InternalBadFieldError', idx >= len(record) and exc_field('bad_idx') == idx and contents(record) == old(contents(record)), 'raises')
    modifies(contents(record))


@contract('js_rbql.select_except', name='C19.js.select_except', props=['C19'])
def _(src: List[Cell], except_fields: List[Int]) -> List[Cell]:
    ensures(is_fresh(result), 'fresh')
    ensures(contents(result) == except_spec(contents(src), contents(except_fields), len(src)), 'post')
    ensures(contents(src) == old(contents(src)), 'source_record_untouched')
    invariant(0, 0 <= i and i <= len(src), 'idx')
    invariant(0, is_fresh(result) and not same(result, src) and not same(result, except_fields), 'fresh')
    invariant(0, contents(result) == except_spec(contents(src), contents(except_fields), i), 'content')
    local_types(result=List[Cell], i=Int)


classdef('js_rbql.RBQLInputIterator', ghost=dict(rows=Seq[RecV], pos=Int))
classdef('js_rbql.TableIterator', bases=['js_rbql.RBQLInputIterator'],
         fields=dict(table=List[List[Cell]], column_names=Opt[List[Str]], normalize_column_names=Bool, variable_prefix=Str, nr=Int, fields_info=Dict[Int, Int], stopped=Bool))
classdef('js_rbql.TableWriter', bases=['js_rbql.RBQLOutputWriter'], fields=dict(table=List[List[Cell]], header=Opt[List[Str]]))


@pred
def js_table_iter_inv(it):
    # as table_iter_inv (contracts/engine_table.py): rows is the caller's array; fields_info maps each field count seen so far to the
    # 1-based number of the first record that had it
    return (len(it.rows) == len(it.table) and it.pos == it.nr and 0 <= it.nr and it.nr <= len(it.table)
            and forall(Int, lambda k: implies(0 <= k and k < len(it.table), it.rows[k] == contents(contents(it.table)[k]) and is_src(contents(it.table)[k])))
            and keys(it.fields_info) == lens_seen(it.rows, it.nr)
            and forall(Int, lambda n: has_key(it.fields_info, n) == (first_with_len(it.rows, n, it.nr) != -1))
            and forall(Int, lambda n: implies(has_key(it.fields_info, n), it.fields_info[n] == first_with_len(it.rows, n, it.nr) + 1)))


@contract('js_rbql.TableIterator.get_record', name='C19.js.table_iterator.get_record', props=['C19'], store_policy='none')
def _(self: Obj['js_rbql.TableIterator']) -> Opt[List[Cell]]:
    requires(js_table_iter_inv(self), 'inv')
    ensures(self.rows == old(self.rows), 'content_fixed')
    ensures(implies(not self.stopped and old(self.pos) < len(self.rows),
                    not is_none(result) and contents(result) == self.rows[old(self.pos)] and is_src(result) and self.pos == old(self.pos) + 1), 'next')
    ensures(implies(self.stopped or old(self.pos) >= len(self.rows), is_none(result) and self.pos == old(self.pos)), 'exhausted_or_stopped')
    ensures(js_table_iter_inv(self) and self.stopped == old(self.stopped), 'inv_kept')
    # the caller's input array is only read
    ensures(contents(self.table) == old(contents(self.table)), 'table_unchanged')
    ghost_update(self.pos, self.pos + 1 if (not self.stopped and self.pos < len(self.rows)) else self.pos)
    modifies(field(self, 'nr'), field(self, 'pos'), contents(self.fields_info))


@contract('js_rbql.TableWriter.write', name='C19.js.table_writer.write', props=['C19'], store_policy='writer')
def _(self: Obj['js_rbql.TableWriter'], fields: List[Cell]) -> Bool:
    requires(not is_src(fields), 'record_is_not_a_source_row')
    requires(not is_src(self.table), 'output_table_is_not_an_input_row')
    ghost_update(self.offered, old(self.offered) + [old(contents(fields))])
    ghost_update(self.refused, not result)
    ghost_update(is_owned_below(fields), True)
    ensures(result, 'never_refuses')
    ensures(len(self.table) == len(old(contents(self.table))) + 1 and same(contents(self.table)[len(self.table) - 1], fields)
            and contents(self.table)[:len(self.table) - 1] == old(contents(self.table)), 'record_appended_to_the_output_table')
    ensures(contents(fields) == old(contents(fields)), 'record_unchanged')
    ensures(self.offered == old(self.offered) + [old(contents(fields))] and self.refused == (not result) and self.finished == old(self.finished) and is_owned_below(fields), 'interface_typestate')
    modifies(field(self, 'offered'), field(self, 'refused'), contents(self.table))


# ---------------------------------------------------------------- constant (non-aggregate) columns of an aggregate query
classdef('js_rbql.ConstGroupVerifier', bases=['js_rbql.Aggregator'], fields=dict(const_values=Dict[Key, Cell], output_index=Int))


@pred
def js_const_inv(self):
    return forall(Key, lambda k: has_key(self.const_values, k) == (len(self.hist[k]) >= 1)
                  and implies(has_key(self.const_values, k), self.const_values[k] == self.hist[k][0]))


@contract('js_rbql.ConstGroupVerifier.__init__', name='C19.js.constgroup.init', props=['C19'])
def _(self: Obj['js_rbql.ConstGroupVerifier'], output_index: Int):
    ghost_update(self.hist, const_map(Key, empty(Cell)))
    ensures(js_const_inv(self) and self.output_index == output_index, 'inv')
    modifies(self)


@contract('js_rbql.ConstGroupVerifier.get_final', name='C19.js.constgroup.final', props=['C19'])
def _(self: Obj['js_rbql.ConstGroupVerifier'], key: Key) -> Cell:
    requires(js_const_inv(self) and len(self.hist[key]) >= 1, 'inv')
    ensures(result == self.hist[key][0], 'the_constant_value_of_the_group')


# ---------------------------------------------------------------- text-level helpers (the contracts of contracts/engine_joinvars.py, engine_text.py)
@trusted('js_rbql.replace_all', trusted='A-JS-replace_all: src.split(search).join(replacement) replaces every occurrence of a non-empty search text, left to right, like Python str.replace (validated boundedly in bounded/jobs_c19.py)')
def _(src: Str, search: Str, replacement: Str) -> Str:
    requires(len(search) > 0, 'non_empty_search_text')
    ensures(result == str_replace(src, search, replacement), 'every_occurrence_replaced')


@contract('js_rbql.combine_string_literals', name='C19.js.literals.combine', props=['C19'])
def _(backend_expression: Str, string_literals: List[Str]) -> Str:
    # as C08.literals.combine (contracts/engine_text.py)
    local_types(i=Int)
    invariant(0, 0 <= i and i <= len(string_literals), 'idx')
    invariant(0, backend_expression == combine_upto(old(backend_expression), contents(string_literals), i), 'replaced_so_far')
    ensures(result == combine_upto(backend_expression, contents(string_literals), len(string_literals)), 'placeholders_replaced_in_order')
    ensures(contents(string_literals) == old(contents(string_literals)), 'literals_untouched')


@trusted('js_rbql.get_ambiguous_error_msg', trusted='message text only')
def _(variable_name: Str) -> Str:
    pass


@pred
def js_jv_lhs(A, c1, c2):
    # rbql.js swaps the sides only when the right-hand side names an input variable (NR / aNR must be written on the left, as C04 quantifies)
    return c2 if has_key(A, c2) else c1


@pred
def js_jv_rhs(A, c1, c2):
    return c1 if has_key(A, c2) else c2


@pred
def js_jv_pair_ok(A, B, c1, c2):
    return (not (has_key(A, c1) and has_key(B, c1)) and not (has_key(A, c2) and has_key(B, c2))
            and (a_nr(js_jv_lhs(A, c1, c2)) or has_key(A, js_jv_lhs(A, c1, c2)))
            and (b_nr(js_jv_rhs(A, c1, c2)) or has_key(B, js_jv_rhs(A, c1, c2))))


@pred
def js_jv_lhs_index(A, c1, c2):
    return -1 if a_nr(js_jv_lhs(A, c1, c2)) else A[js_jv_lhs(A, c1, c2)].index


@pred
def js_jv_rhs_index(A, B, c1, c2):
    return -1 if b_nr(js_jv_rhs(A, c1, c2)) else B[js_jv_rhs(A, c1, c2)].index


@pred
def js_jv_lhs_text(A, c1, c2):
    return 'NR' if js_jv_lhs_index(A, c1, c2) == -1 else 'safe_join_get(record_a, ' + str_of_int(js_jv_lhs_index(A, c1, c2)) + ')'


@contract('js_rbql.resolve_join_variables', name='C19.js.join_vars', props=['C19'])
def _(input_variables_map: VMap, join_variables_map: VMap, variable_pairs: List[Tuple[Str, Str]], string_literals: List[Str]) -> Tuple[List[Str], List[Int]]:
    # as C04.join_vars (contracts/engine_joinvars.py), for the JavaScript engine
    requires(vmap_ok(input_variables_map) and vmap_ok(join_variables_map), 'zero_based_column_indices')
    local_types(lhs_variables=List[Str], rhs_indices=List[Int])
    loop_types(0, variable_pair=Tuple[Str, Str], join_var_1=Str, join_var_2=Str, lhs_key_index=Opt[Int], rhs_key_index=Opt[Int], lhs_join_var_expression=Str)
    invariant(0, 0 <= __i and __i <= len(variable_pairs) and is_fresh(lhs_variables) and is_fresh(rhs_indices) and not same(lhs_variables, rhs_indices), 'idx')
    invariant(0, len(lhs_variables) == __i and len(rhs_indices) == __i, 'one_component_per_pair')
    invariant(0, forall(Int, lambda j: implies(0 <= j and j < __i,
                                                 js_jv_pair_ok(input_variables_map, join_variables_map, jv_c(contents(variable_pairs)[j][0], contents(string_literals)), jv_c(contents(variable_pairs)[j][1], contents(string_literals))))), 'pairs_so_far_resolve')
    invariant(0, forall(Int, lambda j: implies(0 <= j and j < __i,
                                                 contents(rhs_indices)[j] == js_jv_rhs_index(input_variables_map, join_variables_map, jv_c(contents(variable_pairs)[j][0], contents(string_literals)), jv_c(contents(variable_pairs)[j][1], contents(string_literals)))
                                                 and contents(lhs_variables)[j] == js_jv_lhs_text(input_variables_map, jv_c(contents(variable_pairs)[j][0], contents(string_literals)), jv_c(contents(variable_pairs)[j][1], contents(string_literals))))), 'components_so_far')
    ensures(len(result[0]) == len(variable_pairs) and len(result[1]) == len(variable_pairs) and is_fresh(result[0]) and is_fresh(result[1]), 'one_key_expression_per_index')
    ensures(forall(Int, lambda i: implies(0 <= i and i < len(variable_pairs),
                                           js_jv_pair_ok(input_variables_map, join_variables_map, jv_c(contents(variable_pairs)[i][0], contents(string_literals)), jv_c(contents(variable_pairs)[i][1], contents(string_literals))))), 'every_pair_names_one_field_of_each_table')
    ensures(forall(Int, lambda i: implies(0 <= i and i < len(variable_pairs),
                                           contents(result[1])[i] == js_jv_rhs_index(input_variables_map, join_variables_map, jv_c(contents(variable_pairs)[i][0], contents(string_literals)), jv_c(contents(variable_pairs)[i][1], contents(string_literals))))), 'b_side_index_of_pair_i')
    ensures(forall(Int, lambda i: implies(0 <= i and i < len(variable_pairs),
                                           contents(result[0])[i] == js_jv_lhs_text(input_variables_map, jv_c(contents(variable_pairs)[i][0], contents(string_literals)), jv_c(contents(variable_pairs)[i][1], contents(string_literals))))), 'a_side_expression_of_pair_i')
    raises('js_rbql.RbqlParsingError', exists(Int, lambda i: 0 <= i and i < len(variable_pairs)
                                              and not js_jv_pair_ok(input_variables_map, join_variables_map, jv_c(contents(variable_pairs)[i][0], contents(string_literals)), jv_c(contents(variable_pairs)[i][1], contents(string_literals)))), 'unknown_or_ambiguous_key')


@pred
def js_common_init(q, p):
    # generate_common_init_code of rbql.js: the record object, and NR under its attribute / prefixed spellings when the text mentions them
    return (([p + ' = new Object();'] + ([p + '.NR = ' + ('NR' if p == 'a' else 'bNR') + ';'] if q.find(p + '.NR') != -1 else []))
            + (['aNR = NR;'] if (p == 'a' and q.find('aNR') != -1) else []))


@contract('js_rbql.generate_common_init_code', name='C19.js.init.common', props=['C19'])
def _(query_text: Str, variable_prefix: Str) -> List[Str]:
    # as C09.init.common (contracts/engine_parse.py), in JavaScript syntax
    requires(variable_prefix == 'a' or variable_prefix == 'b', 'prefix_is_a_or_b')
    local_types(result=List[Str])
    ensures(is_fresh(result) and contents(result) == js_common_init(query_text, variable_prefix), 'record_object_and_NR_spellings')
    raises('AssertionError', False, 'prefix_is_a_or_b')


@contract('js_rbql.TableWriter.set_header', name='C19.js.table_writer.set_header', props=['C19'])
def _(self: Obj['js_rbql.TableWriter'], header: Opt[List[Str]]):
    # as C07.table_writer.set_header: the header the engine announces is kept, as is, for the caller; the table is not touched
    ensures(is_none(self.header) == is_none(header) and implies(not is_none(header), same(opt_val(self.header), opt_val(header))), 'header_kept_for_the_caller')
    ensures(contents(self.table) == old(contents(self.table)), 'table_untouched')
    modifies(field(self, 'header'))


@contract('js_rbql.TableIterator.get_header', name='C19.js.table_iterator.get_header', props=['C19'])
def _(self: Obj['js_rbql.TableIterator']) -> Opt[List[Str]]:
    ensures(is_none(result) == is_none(self.column_names) and implies(not is_none(result), same(opt_val(result), opt_val(self.column_names))), 'the_column_names')
