# C07: output header synthesis.  The select list reaches select_output_header as a list of QueryColumnInfo (or None
# for "no information"); the text -> AST -> info step is parser driven (bounded stand-in, bounded/jobs_rel.py).



@contract('rbql_engine.select_output_header', name='C07.header', props=['C07'], store_policy='none')
def _(input_header: Opt[List[Str]], join_header: Opt[List[Str]], query_column_infos: List[Opt[NT['rbql_engine.QueryColumnInfo']]]) -> Opt[List[Str]]:
    requires(implies(is_none(input_header), is_none(join_header)), 'join_header_needs_input_header')
    requires(forall(Int, lambda i: implies(0 <= i and i < len(query_column_infos) and not is_none(contents(query_column_infos)[i])
                                           and not is_none(opt_val(contents(query_column_infos)[i]).column_index), opt_val(opt_val(contents(query_column_infos)[i]).column_index) >= 0)), 'column_indices_are_zero_based')
    local_types(input_header=Opt[List[Str]], join_header=Opt[List[Str]], output_header=List[Str])
    loop_types(0, qci=Opt[NT['rbql_engine.QueryColumnInfo']])
    loop_types(1, qci=Opt[NT['rbql_engine.QueryColumnInfo']])
    invariant(0, 0 <= __i and __i <= len(query_column_infos), 'idx')
    invariant(0, query_has_star == any_star(contents(query_column_infos), __i) and query_has_column_alias == any_alias(contents(query_column_infos), __i), 'flags')
    invariant(1, 0 <= __i and __i <= len(query_column_infos) and is_fresh(output_header) and not is_none(input_header) and not is_none(join_header)
              and not same(output_header, input_header) and not same(output_header, join_header) and not same(output_header, query_column_infos), 'idx')
    invariant(1, contents(input_header) == at_loop_entry(contents(input_header)) and contents(join_header) == at_loop_entry(contents(join_header))
              and contents(query_column_infos) == old(contents(query_column_infos)), 'inputs_stable')
    invariant(1, contents(output_header) == header_upto(contents(query_column_infos), contents(input_header), contents(join_header), __i), 'names_so_far')
    # a table without a header yields an output header only when aliases are used
    ensures(is_none(result) == (is_none(input_header) and not any_alias(contents(query_column_infos), len(query_column_infos))), 'no_header_without_header_or_alias')
    # every name follows the naming rule; a star contributes exactly the source header(s) in place
    ensures(implies(not is_none(result), contents(result) == header_upto(contents(query_column_infos),
                                                                         contents(input_header) if not is_none(input_header) else empty(Str),
                                                                         contents(join_header) if not is_none(join_header) else empty(Str), len(query_column_infos))), 'names_follow_the_rule')
    ensures(contents(query_column_infos) == old(contents(query_column_infos)), 'infos_untouched')
    raises('rbql_engine.RbqlParsingError', is_none(input_header) and any_star(contents(query_column_infos), len(query_column_infos)) and any_alias(contents(query_column_infos), len(query_column_infos)), 'star_and_alias_without_header')
    raises('AssertionError', False, 'join_header_needs_input_header')
