# csv_utils (C11, C10, C18): field extraction and splitting against the character-level dialect spec.
# The two anchored field regexes get assumed contracts (A-RE-field) stated through the scanner qclose;
# bounded/jobs_csv.py validates them exhaustively against Python's re.

@trusted('csv_utils.field_rgx.match', pattern='"((?:[^"]*"")*[^"]*)"',
         trusted='A-RE-field: the anchored regex "((?:[^"]*"")*[^"]*)" ends at the scanner end qclose whenever the quoted string is closed; otherwise a match, if any, is followed by a quote (validated exhaustively to length 9)')
def _(src: Str, pos: Int) -> Opt[Tuple[Int, Int, Str]]:
    requires(0 <= pos and pos <= len(src), 'pos_in_range')
    ensures(implies(pos >= len(src) or src[pos] != '"', is_none(result)), 'needs_opening_quote')
    ensures(implies(pos < len(src) and src[pos] == '"' and qclose(src, pos + 1) != -1,
                    not is_none(result) and opt_val(result)[0] == pos and opt_val(result)[1] == qclose(src, pos + 1)
                    and opt_val(result)[2] == src[pos + 1:qclose(src, pos + 1) - 1]), 'closed_string_matches_to_its_end')
    ensures(implies(not is_none(result) and qclose(src, pos + 1) == -1,
                    opt_val(result)[1] < len(src) and src[opt_val(result)[1]] == '"'), 'unclosed_match_is_followed_by_quote')
    ensures(implies(not is_none(result), opt_val(result)[0] == pos and pos < opt_val(result)[1] and opt_val(result)[1] <= len(src)), 'span')


@trusted('csv_utils.field_rgx_external_whitespaces.match', pattern=' *"((?:[^"]*"")*[^"]*)" *',
         trusted='A-RE-field: same with optional surrounding spaces (validated exhaustively to length 9)')
def _(src: Str, pos: Int) -> Opt[Tuple[Int, Int, Str]]:
    requires(0 <= pos and pos <= len(src), 'pos_in_range')
    ensures(implies(skip_sp(src, pos) >= len(src) or src[skip_sp(src, pos)] != '"', is_none(result)), 'needs_opening_quote')
    ensures(implies(skip_sp(src, pos) < len(src) and src[skip_sp(src, pos)] == '"' and qclose(src, skip_sp(src, pos) + 1) != -1,
                    not is_none(result) and opt_val(result)[0] == pos and opt_val(result)[1] == skip_sp(src, qclose(src, skip_sp(src, pos) + 1))
                    and opt_val(result)[2] == src[skip_sp(src, pos) + 1:qclose(src, skip_sp(src, pos) + 1) - 1]), 'closed_string_matches_to_its_end')
    ensures(implies(not is_none(result) and qclose(src, skip_sp(src, pos) + 1) == -1,
                    opt_val(result)[1] < len(src) and src[opt_val(result)[1]] == '"'), 'unclosed_match_is_followed_by_quote')
    ensures(implies(not is_none(result), opt_val(result)[0] == pos and pos < opt_val(result)[1] and opt_val(result)[1] <= len(src)), 'span')


@contract('csv_utils.extract_next_field', name='C11.extract', props=['C11', 'C10'], store_policy='none')
def _(src: Str, dlm: Str, preserve_quotes_and_whitespaces: Bool, allow_external_whitespaces: Bool, cidx: Int, result: List[Str]) -> Tuple[Int, Bool]:
    requires(0 <= cidx and cidx < len(src), 'cidx_in_range')
    requires(len(dlm) == 1 and dlm != '"', 'single_char_delimiter')
    requires(implies(allow_external_whitespaces, dlm != ' '), 'spaces_allowed_only_for_non_space_delimiter')
    uses(skip_sp_props(src, cidx, len(src) - cidx))
    exit_hint(implies(allow_external_whitespaces, forall(Int, lambda k: implies(cidx <= k and k < skip_sp(src, cidx), src[k] == ' '))), 'leading_spaces')
    exit_hint(implies(allow_external_whitespaces and cidx <= next_dlm(src, dlm, cidx) and next_dlm(src, dlm, cidx) < skip_sp(src, cidx),
                      src[next_dlm(src, dlm, cidx)] == ' '), 'a_delimiter_among_the_leading_spaces_would_be_a_space')
    exit_hint(implies(q_open(src, cidx, allow_external_whitespaces) < len(src) and src[q_open(src, cidx, allow_external_whitespaces)] == '"',
                      q_open(src, cidx, allow_external_whitespaces) < next_dlm(src, dlm, cidx)), 'opening_quote_before_next_delimiter')
    exit_hint(implies(q_open(src, cidx, allow_external_whitespaces) < len(src) and src[q_open(src, cidx, allow_external_whitespaces)] == '"',
                      '"' in src[cidx:next_dlm(src, dlm, cidx)]), 'field_contains_the_opening_quote')
    # exactly one field is appended: the spec field starting at cidx; the returned index is just past its delimiter
    ensures(contents(result) == old(contents(result)) + [field_text(src, dlm, cidx, allow_external_whitespaces, preserve_quotes_and_whitespaces)], 'appends_the_field')
    ensures(result_value()[0] == field_stop(src, dlm, cidx, allow_external_whitespaces) + 1, 'next_index')
    ensures(result_value()[1] == field_warn(src, dlm, cidx, allow_external_whitespaces), 'warning_iff_unquoted_field_has_quote')
    modifies(contents(result))


@contract('csv_utils.split_quoted_str', name='C11.split', props=['C11', 'C10'], store_policy='none')
def _(src: Str, dlm: Str, preserve_quotes_and_whitespaces: Bool) -> Tuple[List[Str], Bool]:
    requires(len(dlm) == 1 and dlm != '"', 'single_char_delimiter')
    local_types(result=List[Str])
    loop_types(0, extraction_report=Tuple[Int, Bool])
    invariant(0, 0 <= cidx and is_fresh(result) and allow_external_whitespaces == (dlm != ' ') and len(src) > 0, 'bounds')
    invariant(0, contents(result) + split_from(src, dlm, dlm != ' ', preserve_quotes_and_whitespaces, cidx)
              == split_from(src, dlm, dlm != ' ', preserve_quotes_and_whitespaces, 0), 'fields_so_far', hide=['field_text', 'field_stop', 'field_warn', 'split_from'])
    loop_hint(0, split_from(src, dlm, dlm != ' ', preserve_quotes_and_whitespaces, at_iter_start(cidx))
              == [field_text(src, dlm, at_iter_start(cidx), dlm != ' ', preserve_quotes_and_whitespaces)] + split_from(src, dlm, dlm != ' ', preserve_quotes_and_whitespaces, cidx),
              hide=['field_text', 'field_stop', 'field_warn'])
    loop_hint(0, contents(result) == at_iter_start(contents(result)) + [field_text(src, dlm, at_iter_start(cidx), dlm != ' ', preserve_quotes_and_whitespaces)])
    invariant(0, (warning or warn_from(src, dlm, dlm != ' ', cidx)) == warn_from(src, dlm, dlm != ' ', 0), 'warning_so_far', hide=['field_text', 'field_stop', 'field_warn'])
    # C11: with a quote in the line, the fields are exactly the dialect's fields and the warning is exact
    ensures(implies('"' in src, contents(result_value()[0]) == split_spec(src, dlm, preserve_quotes_and_whitespaces)), 'fields_follow_the_dialect')
    ensures(implies('"' in src, result_value()[1] == warn_from(src, dlm, dlm != ' ', 0)), 'warning_iff_unquoted_field_has_quote')
    # fast path (no quote in the line): plain split, no warning; its agreement with the dialect is the lemma
    # split_noquote (bounded validation only, see evidence)
    ensures(implies(not ('"' in src), contents(result_value()[0]) == str_split(src, dlm) and not result_value()[1]), 'fastpath_is_plain_split')
    ensures(is_fresh(result_value()[0]), 'fresh_list')
    raises('AssertionError', False, 'delimiter_is_not_a_quote')


@trusted('re[[^ ]+].finditer', trusted='A-RE-runs: finditer of [^ ]+ yields the maximal runs of non-space characters, left to right (validated boundedly)')
def _(src: Str) -> Seq[Tuple[Int, Int]]:
    ensures(result == ws_spans(src), 'runs')
    ensures(forall(Int, lambda i: implies(0 <= i and i < len(result), 0 <= result[i][0] and result[i][0] < result[i][1] and result[i][1] <= len(src))), 'spans_in_range')


@trusted('re[ *[^ ]+ *].finditer', trusted='A-RE-runs (quote-preserving variant, only used for dialect detection): spans cover the text')
def _(src: Str) -> Seq[Tuple[Int, Int]]:
    ensures(forall(Int, lambda i: implies(0 <= i and i < len(result), 0 <= result[i][0] and result[i][0] < result[i][1] and result[i][1] <= len(src))), 'spans_in_range')


@contract('csv_utils.split_whitespace_separated_str', name='C11.ws_split', props=['C11', 'C10'], store_policy='none')
def _(src: Str, preserve_whitespaces: Bool) -> List[Str]:
    local_types(result=List[Str])
    loop_types(0, m=Opaque)
    invariant(0, 0 <= __i and is_fresh(result), 'idx')
    invariant(0, implies(not preserve_whitespaces, contents(result) == ws_texts(src, ws_spans(src), __i)), 'runs_so_far')
    invariant(1, is_fresh(result) and 0 <= __i and len(result) == at_loop_entry(len(result)), 'fresh')
    loop_types(1, i=Int)
    # whitespace policy: the fields are the maximal runs of non-space characters
    ensures(implies(not preserve_whitespaces, contents(result) == ws_texts(src, ws_spans(src), len(ws_spans(src)))), 'split_on_runs_of_spaces')
    ensures(is_fresh(result), 'fresh_list')


@contract('csv_utils.smart_split', name='C11.smart_split', props=['C11', 'C10', 'C12'], store_policy='none')
def _(src: Str, dlm: Str, policy: Str, preserve_quotes_and_whitespaces: Bool) -> Tuple[List[Str], Bool]:
    requires(implies(policy != 'simple' and policy != 'whitespace' and policy != 'monocolumn', len(dlm) == 1 and dlm != '"'), 'single_char_delimiter_for_quoted_policies')
    requires(implies(policy == 'simple', len(dlm) >= 1), 'non_empty_delimiter')
    ensures(implies(not preserve_quotes_and_whitespaces, contents(result[0]) == record_fields(src, dlm, policy)), 'fields_by_policy')
    ensures(implies(not preserve_quotes_and_whitespaces, result[1] == record_warn(src, dlm, policy)), 'warning_by_policy')
    ensures(is_fresh(result[0]), 'fresh_list')


@contract('csv_utils.quote_field', name='C10.quote_field', props=['C10'])
def _(src: Str, delim: Str) -> Str:
    ensures(result == quote_spec(src, delim, False), 'quoted_iff_needed')


@contract('csv_utils.rfc_quote_field', name='C10.rfc_quote_field', props=['C10'])
def _(src: Str, delim: Str) -> Str:
    ensures(result == quote_spec(src, delim, True), 'quoted_iff_needed_rfc')
