# csv_utils (C11, C10, C18): field extraction and splitting against the character-level dialect spec.
# The two anchored field regexes get assumed contracts (A-RE-field) stated through the scanner qclose;
# bounded/jobs_csv.py validates them exhaustively against Python's re.

@trusted('csv_utils.field_rgx.match', pattern='"((?:[^"]*"")*[^"]*)"',
         trusted='A-RE-field: the anchored regex "((?:[^"]*"")*[^"]*)" ends at the scanner end qclose whenever the quoted string is closed; otherwise a match, if any, is followed by a quote (validated exhaustively to length 9)')
def _(src: Str, pos: Int) -> Opt[Tuple[Int, Int, Str]]:
    requires(0 <= pos and pos <= len(src), 'pos_in_range')
    ensures(implies(pos >= len(src) or src[pos] != '"', is_none(result)), 'needs_opening_quote')
    ensures(implies(pos < len(src) and src[pos] == '"' and qclose(src, pos + 1) != -1,
                    not is_none(result) and opt_val(result)[0] == pos and opt_val(result)[1] == qclose(src, pos + 1)
                    and opt_val(result)[2] == src[pos + 1:qclose(src, pos + 1) - 1]), 'closed_string_matches_to_its_end')
    ensures(implies(not is_none(result) and qclose(src, pos + 1) == -1,
                    opt_val(result)[1] < len(src) and src[opt_val(result)[1]] == '"'), 'unclosed_match_is_followed_by_quote')
    ensures(implies(not is_none(result), opt_val(result)[0] == pos and pos < opt_val(result)[1] and opt_val(result)[1] <= len(src)), 'span')


@trusted('csv_utils.field_rgx_external_whitespaces.match', pattern=' *"((?:[^"]*"")*[^"]*)" *',
         trusted='A-RE-field: same with optional surrounding spaces (validated exhaustively to length 9)')
def _(src: Str, pos: Int) -> Opt[Tuple[Int, Int, Str]]:
    requires(0 <= pos and pos <= len(src), 'pos_in_range')
    ensures(implies(skip_sp(src, pos) >= len(src) or src[skip_sp(src, pos)] != '"', is_none(result)), 'needs_opening_quote')
    ensures(implies(skip_sp(src, pos) < len(src) and src[skip_sp(src, pos)] == '"' and qclose(src, skip_sp(src, pos) + 1) != -1,
                    not is_none(result) and opt_val(result)[0] == pos and opt_val(result)[1] == skip_sp(src, qclose(src, skip_sp(src, pos) + 1))
                    and opt_val(result)[2] == src[skip_sp(src, pos) + 1:qclose(src, skip_sp(src, pos) + 1) - 1]), 'closed_string_matches_to_its_end')
    ensures(implies(not is_none(result) and qclose(src, skip_sp(src, pos) + 1) == -1,
                    opt_val(result)[1] < len(src) and src[opt_val(result)[1]] == '"'), 'unclosed_match_is_followed_by_quote')
    ensures(implies(not is_none(result), opt_val(result)[0] == pos and pos < opt_val(result)[1] and opt_val(result)[1] <= len(src)), 'span')


@contract('csv_utils.extract_next_field', name='C11.extract', props=['C11', 'C10'], store_policy='none')
def _(src: Str, dlm: Str, preserve_quotes_and_whitespaces: Bool, allow_external_whitespaces: Bool, cidx: Int, result: List[Str]) -> Tuple[Int, Bool]:
    requires(0 <= cidx and cidx < len(src), 'cidx_in_range')
    requires(len(dlm) == 1 and dlm != '"', 'single_char_delimiter')
    requires(implies(allow_external_whitespaces, dlm != ' '), 'spaces_allowed_only_for_non_space_delimiter')
    uses(skip_sp_props(src, cidx, len(src) - cidx))
    exit_hint(implies(allow_external_whitespaces, forall(Int, lambda k: implies(cidx <= k and k < skip_sp(src, cidx), src[k] == ' '))), 'leading_spaces')
    exit_hint(implies(allow_external_whitespaces and cidx <= next_dlm(src, dlm, cidx) and next_dlm(src, dlm, cidx) < skip_sp(src, cidx),
                      src[next_dlm(src, dlm, cidx)] == ' '), 'a_delimiter_among_the_leading_spaces_would_be_a_space')
    exit_hint(implies(q_open(src, cidx, allow_external_whitespaces) < len(src) and src[q_open(src, cidx, allow_external_whitespaces)] == '"',
                      q_open(src, cidx, allow_external_whitespaces) < next_dlm(src, dlm, cidx)), 'opening_quote_before_next_delimiter')
    exit_hint(implies(q_open(src, cidx, allow_external_whitespaces) < len(src) and src[q_open(src, cidx, allow_external_whitespaces)] == '"',
                      '"' in src[cidx:next_dlm(src, dlm, cidx)]), 'field_contains_the_opening_quote')
    # exactly one field is appended: the spec field starting at cidx; the returned index is just past its delimiter
    ensures(contents(result) == old(contents(result)) + [field_text(src, dlm, cidx, allow_external_whitespaces, preserve_quotes_and_whitespaces)], 'appends_the_field')
    ensures(result_value()[0] == field_stop(src, dlm, cidx, allow_external_whitespaces) + 1, 'next_index')
    ensures(result_value()[1] == field_warn(src, dlm, cidx, allow_external_whitespaces), 'warning_iff_unquoted_field_has_quote')
    modifies(contents(result))
