# Contracts for the small record helpers of rbql_engine (C01, C05, C06).  Parsed, never executed.
# DESIGN Appendix B.6.

@contract('rbql_engine.safe_get', name='C01.safe_get', props=['C01', 'C06'])
def _(record: List[Cell], idx: Int) -> Cell:
    requires(idx >= 0, 'idx_nonneg')
    ensures(result == (contents(record)[idx] if idx < len(record) else None), 'post')


@contract('rbql_engine.safe_join_get', name='C04.safe_join_get', props=['C04', 'C14'])
def _(record: List[Cell], idx: Int) -> Cell:
    requires(idx >= 0, 'idx_nonneg')
    ensures(idx < len(record) and result == contents(record)[idx], 'post')
    raises('rbql_engine.InternalBadFieldError', idx >= len(record) and exc_field('bad_idx') == idx, 'bad_field')


@contract('rbql_engine.safe_set', name='C05.safe_set', props=['C05', 'C06', 'C14'])
def _(record: List[Cell], idx: Int, value: Cell):
    requires(idx >= 0, 'idx_nonneg')
    requires(not is_src(record), 'not_a_source_row')
    requires(not is_offered(record), 'not_already_offered')
    ensures(idx < len(old(contents(record))), 'in_range')
    ensures(contents(record) == old(contents(record))[:idx] + [value] + old(contents(record))[idx + 1:], 'post')
    raises('rbql_engine.InternalBadFieldError', idx >= len(record) and exc_field('bad_idx') == idx and contents(record) == old(contents(record)), 'raises')
    modifies(contents(record))


@contract('rbql_engine.select_except', name='C01.select_except', props=['C01', 'C06'])
def _(src: List[Cell], except_fields: List[Int]) -> List[Cell]:
    ensures(is_fresh(result), 'fresh')
    ensures(contents(result) == except_spec(contents(src), contents(except_fields), len(src)), 'post')
    invariant(0, 0 <= __i and __i <= len(src), 'idx')
    invariant(0, is_fresh(result) and not same(result, src) and not same(result, except_fields), 'fresh')
    invariant(0, contents(result) == except_spec(contents(src), contents(except_fields), __i), 'content')
    loop_types(0, i=Int, v=Cell)
    local_types(result=List[Cell])


# the same function applied to the header (a list of names): verified once more at that type
@contract('rbql_engine.select_except#str', name='C07.select_except_names', props=['C07', 'C01'])
def _(src: List[Str], except_fields: List[Int]) -> List[Str]:
    ensures(is_fresh(result), 'fresh')
    ensures(contents(result) == except_spec_str(contents(src), contents(except_fields), len(src)), 'post')
    invariant(0, 0 <= __i and __i <= len(src), 'idx')
    invariant(0, is_fresh(result) and not same(result, src) and not same(result, except_fields), 'fresh')
    invariant(0, contents(result) == except_spec_str(contents(src), contents(except_fields), __i), 'content')
    loop_types(0, i=Int, v=Str)
    local_types(result=List[Str])
