# Variable discovery (C09): how each front end combines the regex-driven parsers of rbql_engine into the variable map of a query.
# The parsers are abstracted (specs/vars.py, A-PARSE-VARS: bounded stand-ins bounded/jobs_misc.py, jobs_extra.py); what is proved:
# every front end registers exactly the variables its parsers find, a column-name variable never loses against a positional one
# (direct mode: a column that happens to be called a1 is that column, not field 1), and the parsers are all applied to the same query text
# and prefix.  Parsed, never executed.

namedtuple_types('rbql_engine.VariableInfo', initialize=Bool, index=Int)
VMap = Dict[Str, NT['rbql_engine.VariableInfo']]


@trusted('rbql_engine.parse_basic_variables', trusted='A-PARSE-VARS: registers the aN / bN variables of the text (regex); vb_has / vb_val abstract which and with what index')
def _(query_text: Str, prefix: Str, dst_variables_map: VMap):
    ensures(forall(Str, lambda k: has_key(dst_variables_map, k) == (old(has_key(dst_variables_map, k)) or vb_has(query_text, prefix, k))), 'keys')
    ensures(forall(Str, lambda k: implies(has_key(dst_variables_map, k), dst_variables_map[k] == (vb_val(query_text, prefix, k) if vb_has(query_text, prefix, k) else old(dst_variables_map[k])))), 'override')
    ensures(forall(Str, lambda k: implies(vb_has(query_text, prefix, k), vb_val(query_text, prefix, k).index >= 0)), 'zero_based_indices')
    modifies(dst_variables_map)


@trusted('rbql_engine.parse_array_variables', trusted='A-PARSE-VARS: registers the a[N] / b[N] variables of the text (regex)')
def _(query_text: Str, prefix: Str, dst_variables_map: VMap):
    ensures(forall(Str, lambda k: has_key(dst_variables_map, k) == (old(has_key(dst_variables_map, k)) or va_has(query_text, prefix, k))), 'keys')
    ensures(forall(Str, lambda k: implies(has_key(dst_variables_map, k), dst_variables_map[k] == (va_val(query_text, prefix, k) if va_has(query_text, prefix, k) else old(dst_variables_map[k])))), 'override')
    ensures(forall(Str, lambda k: implies(va_has(query_text, prefix, k), va_val(query_text, prefix, k).index >= 0)), 'zero_based_indices')
    modifies(dst_variables_map)


@trusted('rbql_engine.parse_dictionary_variables', trusted='A-PARSE-VARS: registers a["name"] / a[\'name\'] variables for the column names that may occur in the text')
def _(query_text: Str, prefix: Str, column_names: List[Str], dst_variables_map: VMap):
    ensures(forall(Str, lambda k: has_key(dst_variables_map, k) == (old(has_key(dst_variables_map, k)) or vd_has(query_text, prefix, contents(column_names), k))), 'keys')
    ensures(forall(Str, lambda k: implies(has_key(dst_variables_map, k), dst_variables_map[k] == (vd_val(query_text, prefix, contents(column_names), k) if vd_has(query_text, prefix, contents(column_names), k) else old(dst_variables_map[k])))), 'override')
    ensures(contents(column_names) == old(contents(column_names)), 'names_untouched')
    ensures(forall(Str, lambda k: implies(vd_has(query_text, prefix, contents(column_names), k), vd_val(query_text, prefix, contents(column_names), k).index >= 0)), 'zero_based_indices')
    modifies(dst_variables_map)


@trusted('rbql_engine.parse_attribute_variables', trusted='A-PARSE-VARS: registers a.name variables of the text; an attribute that is not a column name is an error')
def _(query_text: Str, prefix: Str, column_names: List[Str], column_names_source: Str, dst_variables_map: VMap):
    ensures(not vt_fail(query_text, prefix, contents(column_names)), 'no_unknown_column')
    ensures(forall(Str, lambda k: has_key(dst_variables_map, k) == (old(has_key(dst_variables_map, k)) or vt_has(query_text, prefix, contents(column_names), k))), 'keys')
    ensures(forall(Str, lambda k: implies(has_key(dst_variables_map, k), dst_variables_map[k] == (vt_val(query_text, prefix, contents(column_names), k) if vt_has(query_text, prefix, contents(column_names), k) else old(dst_variables_map[k])))), 'override')
    ensures(contents(column_names) == old(contents(column_names)), 'names_untouched')
    raises('rbql_engine.RbqlParsingError', vt_fail(query_text, prefix, contents(column_names)), 'unknown_column')
    ensures(forall(Str, lambda k: implies(vt_has(query_text, prefix, contents(column_names), k), vt_val(query_text, prefix, contents(column_names), k).index >= 0)), 'zero_based_indices')
    modifies(dst_variables_map)


@trusted('rbql_engine.map_variables_directly', trusted='A-PARSE-VARS: registers the column names that occur in the text as variables of their own; a name that is not an identifier is an error')
def _(query_text: Str, column_names: List[Str], dst_variables_map: VMap):
    ensures(not vm_fail(query_text, contents(column_names)), 'names_are_identifiers')
    ensures(forall(Str, lambda k: has_key(dst_variables_map, k) == (old(has_key(dst_variables_map, k)) or vm_has(query_text, contents(column_names), k))), 'keys')
    ensures(forall(Str, lambda k: implies(has_key(dst_variables_map, k), dst_variables_map[k] == (vm_val(query_text, contents(column_names), k) if vm_has(query_text, contents(column_names), k) else old(dst_variables_map[k])))), 'override')
    ensures(contents(column_names) == old(contents(column_names)), 'names_untouched')
    raises('rbql_engine.RbqlIOHandlingError', vm_fail(query_text, contents(column_names)), 'name_is_not_an_identifier')
    ensures(forall(Str, lambda k: implies(vm_has(query_text, contents(column_names), k), vm_val(query_text, contents(column_names), k).index >= 0)), 'zero_based_indices')
    modifies(dst_variables_map)


@pred
def shapes_disjoint(q, p, names):
    # A-PARSE-VARS: the four spellings aN, a[N], a["name"], a.name never coincide as texts (so the order of those parsers is irrelevant)
    return forall(Str, lambda k: not (vb_has(q, p, k) and va_has(q, p, k)) and not (vb_has(q, p, k) and vd_has(q, p, names, k)) and not (vb_has(q, p, k) and vt_has(q, p, names, k))
                  and not (va_has(q, p, k) and vd_has(q, p, names, k)) and not (va_has(q, p, k) and vt_has(q, p, names, k)) and not (vd_has(q, p, names, k) and vt_has(q, p, names, k)))


@pred
def positional_vars(m, q, p):
    return forall(Str, lambda k: has_key(m, k) == (vb_has(q, p, k) or va_has(q, p, k))
                  and implies(has_key(m, k), m[k] == (vb_val(q, p, k) if vb_has(q, p, k) else va_val(q, p, k))))


@pred
def normalized_vars(m, q, p, names):
    return forall(Str, lambda k: has_key(m, k) == (vb_has(q, p, k) or va_has(q, p, k) or vd_has(q, p, names, k) or vt_has(q, p, names, k))
                  and implies(has_key(m, k), m[k] == (vb_val(q, p, k) if vb_has(q, p, k) else (va_val(q, p, k) if va_has(q, p, k)
                                                     else (vd_val(q, p, names, k) if vd_has(q, p, names, k) else vt_val(q, p, names, k))))))


@pred
def direct_vars(m, q, p, names):
    # a column used under its own name wins against the positional reading of the same text
    return forall(Str, lambda k: has_key(m, k) == (vb_has(q, p, k) or va_has(q, p, k) or vm_has(q, names, k))
                  and implies(has_key(m, k), m[k] == (vm_val(q, names, k) if vm_has(q, names, k) else (vb_val(q, p, k) if vb_has(q, p, k) else va_val(q, p, k)))))


@contract('rbql_engine.TableIterator.get_variables_map', name='C09.vars.table', props=['C09', 'C07'], store_policy='none')
def _(self: Obj['rbql_engine.TableIterator'], query_text: Str) -> VMap:
    assumes(implies(not is_none(self.column_names), shapes_disjoint(query_text, self.variable_prefix, contents(opt_val(self.column_names)))), 'A-PARSE-VARS: spellings of different kinds never coincide')
    assumes(forall(Str, lambda k: not (vb_has(query_text, self.variable_prefix, k) and va_has(query_text, self.variable_prefix, k))), 'A-PARSE-VARS: aN and a[N] never coincide')
    local_types(variable_map=VMap)
    ensures(is_fresh(result), 'a_new_map_per_call')
    ensures(vmap_ok(result), 'zero_based_column_indices')
    ensures(implies(is_none(self.column_names), positional_vars(result, query_text, self.variable_prefix)), 'without_names_only_positional_variables')
    ensures(implies(not is_none(self.column_names) and self.normalize_column_names,
                    normalized_vars(result, query_text, self.variable_prefix, contents(opt_val(self.column_names)))), 'with_names_every_spelling')
    ensures(implies(not is_none(self.column_names) and not self.normalize_column_names,
                    direct_vars(result, query_text, self.variable_prefix, contents(opt_val(self.column_names)))), 'direct_names_win_over_positional_readings')
    ensures(implies(not is_none(self.column_names) and len(self.table) > 0, len(opt_val(self.column_names)) == len(contents(self.table)[0])), 'names_fit_the_first_record')
    raises('rbql_engine.RbqlIOHandlingError', not is_none(self.column_names)
           and ((len(self.table) > 0 and len(opt_val(self.column_names)) != len(contents(self.table)[0]))
                or (not self.normalize_column_names and vm_fail(query_text, contents(opt_val(self.column_names))))), 'names_do_not_fit')
    raises('rbql_engine.RbqlParsingError', not is_none(self.column_names) and self.normalize_column_names
           and vt_fail(query_text, self.variable_prefix, contents(opt_val(self.column_names))), 'unknown_column')
    raises('AssertionError', False, 'prefix_is_a_or_b')
    modifies(fresh_only())


@contract('rbql_csv.CSVRecordIterator.get_variables_map', name='C09.vars.csv', props=['C09'], store_policy='none')
def _(self: Obj['rbql_csv.CSVRecordIterator'], query_text: Str) -> VMap:
    assumes(implies(not is_none(self.first_record), shapes_disjoint(query_text, self.variable_prefix, contents(opt_val(self.first_record)))), 'A-PARSE-VARS: spellings of different kinds never coincide')
    assumes(forall(Str, lambda k: not (vb_has(query_text, self.variable_prefix, k) and va_has(query_text, self.variable_prefix, k))), 'A-PARSE-VARS: aN and a[N] never coincide')
    local_types(variable_map=VMap)
    ensures(is_fresh(result), 'a_new_map_per_call')
    ensures(vmap_ok(result), 'zero_based_column_indices')
    ensures(implies(not (self.has_header and not is_none(self.first_record)), positional_vars(result, query_text, self.variable_prefix)), 'without_header_only_positional_variables')
    ensures(implies(self.has_header and not is_none(self.first_record),
                    normalized_vars(result, query_text, self.variable_prefix, contents(opt_val(self.first_record)))), 'with_header_every_spelling_over_the_header_line')
    raises('rbql_engine.RbqlParsingError', self.has_header and not is_none(self.first_record)
           and vt_fail(query_text, self.variable_prefix, contents(opt_val(self.first_record))), 'unknown_column')
    modifies(fresh_only())


# ---------------------------------------------------------------- the sqlite and pandas front ends combine the same parsers
classdef('rbql_sqlite.SqliteRecordIterator', ghost=dict(names=Seq[Str]))


@contract('rbql_sqlite.SqliteRecordIterator.get_variables_map', name='C09.vars.sqlite', props=['C09'], store_policy='none')
def _(self: Obj['rbql_sqlite.SqliteRecordIterator'], query_text: Str) -> VMap:
    assumes(shapes_disjoint(query_text, self.variable_prefix, self.names), 'A-PARSE-VARS: spellings of different kinds never coincide')
    local_types(variable_map=VMap)
    ensures(is_fresh(result), 'a_new_map_per_call')
    ensures(vmap_ok(result), 'zero_based_column_indices')
    ensures(normalized_vars(result, query_text, self.variable_prefix, self.names), 'every_spelling_over_the_table_columns')
    raises('rbql_engine.RbqlParsingError', vt_fail(query_text, self.variable_prefix, self.names), 'unknown_column')
    modifies(fresh_only())


classdef('rbql_pandas.DataframeIterator', bases=['rbql_engine.RBQLInputIterator'],
         fields=dict(normalize_column_names=Bool, variable_prefix=Str, NR=Int, column_names=Opt[List[Str]]))


@contract('rbql_pandas.DataframeIterator.get_variables_map', name='C09.vars.pandas', props=['C09'], store_policy='none')
def _(self: Obj['rbql_pandas.DataframeIterator'], query_text: Str) -> VMap:
    assumes(implies(not is_none(self.column_names), shapes_disjoint(query_text, self.variable_prefix, contents(opt_val(self.column_names)))), 'A-PARSE-VARS: spellings of different kinds never coincide')
    assumes(forall(Str, lambda k: not (vb_has(query_text, self.variable_prefix, k) and va_has(query_text, self.variable_prefix, k))), 'A-PARSE-VARS: aN and a[N] never coincide')
    local_types(variable_map=VMap)
    ensures(is_fresh(result), 'a_new_map_per_call')
    ensures(vmap_ok(result), 'zero_based_column_indices')
    ensures(implies(is_none(self.column_names), positional_vars(result, query_text, self.variable_prefix)), 'without_names_only_positional_variables')
    ensures(implies(not is_none(self.column_names) and self.normalize_column_names,
                    normalized_vars(result, query_text, self.variable_prefix, contents(opt_val(self.column_names)))), 'with_names_every_spelling')
    ensures(implies(not is_none(self.column_names) and not self.normalize_column_names,
                    direct_vars(result, query_text, self.variable_prefix, contents(opt_val(self.column_names)))), 'direct_names_win_over_positional_readings')
    raises('rbql_engine.RbqlIOHandlingError', not is_none(self.column_names) and not self.normalize_column_names and vm_fail(query_text, contents(opt_val(self.column_names))), 'name_is_not_an_identifier')
    raises('rbql_engine.RbqlParsingError', not is_none(self.column_names) and self.normalize_column_names
           and vt_fail(query_text, self.variable_prefix, contents(opt_val(self.column_names))), 'unknown_column')
    modifies(fresh_only())
