# Assumed contracts of Python builtins that verified functions call (A-SORT ...).  Each is validated
# boundedly against the real builtin by bounded/deps.py; none is counted as proved.

@trusted('builtins.sorted.entries', trusted='A-SORT: sorted(xs, key=lambda x: x[0]) is the stable permutation sort_perm (insertion-sort spec); validated boundedly in bounded/deps.py')
def _(v: List[Tuple[Key, Rec]], rev: Bool) -> List[Tuple[Key, Rec]]:
    requires(not rev, 'reverse_kw_not_modelled')
    ensures(is_fresh(result), 'fresh')
    ensures(len(result) == len(v), 'len')
    ensures(forall(Int, lambda j: implies(0 <= j and j < len(v), contents(result)[j] == contents(v)[sort_perm(contents(v), len(v))[j]])), 'perm')
    ensures(len(sort_perm(contents(v), len(v))) == len(v), 'perm_len')
    ensures(forall(Int, lambda j: implies(0 <= j and j < len(v), 0 <= sort_perm(contents(v), len(v))[j] and sort_perm(contents(v), len(v))[j] < len(v))), 'perm_range')
    ensures(forall(Int, Int, lambda a, b: implies(0 <= a and a < b and b < len(v), sort_perm(contents(v), len(v))[a] != sort_perm(contents(v), len(v))[b])), 'perm_injective')


@trusted('builtins.sorted.cells', trusted='A-SORT: sorted(xs) on numbers is the ascending stable sort (insertion-sort spec ssort_cells); validated boundedly')
def _(v: List[Cell]) -> List[Cell]:
    requires(all_numeric(contents(v)), 'numbers_only')
    ensures(is_fresh(result) and contents(result) == ssort_cells(contents(v)) and len(result) == len(v), 'sorted_copy')
    ensures(forall(Int, lambda i: implies(0 <= i and i < len(v), is_num(contents(result)[i]))), 'numbers')
