# Assumed contracts of Python builtins that verified functions call (A-SORT ...).  Each is validated
# boundedly against the real builtin by bounded/deps.py; none is counted as proved.

@trusted('builtins.sorted.entries', trusted='A-SORT: sorted(xs, key=lambda x: x[0]) is the stable permutation sort_perm (insertion-sort spec); validated boundedly in bounded/deps.py')
def _(v: List[Tuple[Key, Rec]], rev: Bool) -> List[Tuple[Key, Rec]]:
    requires(not rev, 'reverse_kw_not_modelled')
    ensures(is_fresh(result), 'fresh')
    ensures(len(result) == len(v), 'len')
    ensures(forall(Int, lambda j: implies(0 <= j and j < len(v), contents(result)[j] == contents(v)[sort_perm(contents(v), len(v))[j]])), 'perm')
    ensures(len(sort_perm(contents(v), len(v))) == len(v), 'perm_len')
    ensures(forall(Int, lambda j: implies(0 <= j and j < len(v), 0 <= sort_perm(contents(v), len(v))[j] and sort_perm(contents(v), len(v))[j] < len(v))), 'perm_range')
    ensures(forall(Int, Int, lambda a, b: implies(0 <= a and a < b and b < len(v), sort_perm(contents(v), len(v))[a] != sort_perm(contents(v), len(v))[b])), 'perm_injective')


@trusted('builtins.sorted.cells', trusted='A-SORT: sorted(xs) on numbers is the ascending stable sort (insertion-sort spec ssort_cells); validated boundedly')
def _(v: List[Cell]) -> List[Cell]:
    requires(all_numeric(contents(v)), 'numbers_only')
    ensures(is_fresh(result) and contents(result) == ssort_cells(contents(v)) and len(result) == len(v), 'sorted_copy')
    ensures(forall(Int, lambda i: implies(0 <= i and i < len(v), is_num(contents(result)[i]))), 'numbers')


@trusted('builtins.sorted.items_by_value', trusted='A-SORT: sorted(d.items(), key=lambda v: v[1]) lists every (key, value) entry of d once, in non-decreasing order of value; validated boundedly')
def _(d: Dict[Int, Int]) -> Seq[Tuple[Int, Int]]:
    ensures(len(result) == len(keys(d)), 'one_entry_per_key')
    ensures(forall(Int, lambda j: implies(0 <= j and j < len(result), has_key(d, result[j][0]) and d[result[j][0]] == result[j][1])), 'entries_of_d')
    ensures(forall(Int, Int, lambda a, b: implies(0 <= a and a < b and b < len(result), result[a][0] != result[b][0])), 'keys_once')
    ensures(forall(Int, Int, lambda a, b: implies(0 <= a and a <= b and b < len(result), result[a][1] <= result[b][1])), 'ordered_by_value')
    ensures(forall(Int, lambda k: implies(has_key(d, k), exists(Int, lambda j: 0 <= j and j < len(result) and result[j][0] == k))), 'every_key_listed')


@trusted('builtins.sorted.ints', trusted='A-SORT: sorted(xs) on integers is the ascending sort (insertion-sort spec ssort_ints), a new list; validated boundedly in bounded/jobs_deps.py')
def _(v: List[Int]) -> List[Int]:
    ensures(is_fresh(result) and contents(result) == ssort_ints(contents(v)) and len(result) == len(v), 'sorted_copy')
    ensures(contents(v) == old(contents(v)), 'argument_untouched')
