# JOIN (C04): key extraction, the hash join map, the three joiners.  DESIGN Appendix B.7.
# TV = Tuple[Opt[Int], Int, RecV]: (bNR or None for the LEFT JOIN null record, bNF, record value).

classdef('rbql_engine.Joiner', family='joiner',
         ghost=dict(kind=Int, jmv=Map[JKey, Seq[Tuple[Opt[Int], Int, RecV]]], nullw=Int))
classdef('rbql_engine.HashJoinMap', family='joiner',
         fields=dict(max_record_len=Int, hash_map=DDict[JKey, List[Tuple[Opt[Int], Int, Rec]]], record_iterator=Obj['rbql_engine.RBQLInputIterator'],
                     key_indices=Opt[List[Int]], key_index=Opt[Int], polymorphic_get_key=MethodTag),
         ghost=dict(kidx=Seq[Int], jm=Map[JKey, Seq[Tuple[Opt[Int], Int, RecV]]]))
classdef('rbql_engine.InnerJoiner', bases=['rbql_engine.Joiner'], fields=dict(join_map=Obj['rbql_engine.HashJoinMap']))
classdef('rbql_engine.LeftJoiner', bases=['rbql_engine.Joiner'], fields=dict(join_map=Obj['rbql_engine.HashJoinMap'], null_record=List[Tuple[Opt[Int], Int, Rec]]))
classdef('rbql_engine.StrictLeftJoiner', bases=['rbql_engine.Joiner'], fields=dict(join_map=Obj['rbql_engine.HashJoinMap']))


@pred
def match_list_ok(L, V):
    # the heap list L of (bNR, bNF, record) tuples denotes the value sequence V; its records are protected rows
    return (len(L) == len(V)
            and forall(Int, lambda i: implies(0 <= i and i < len(L),
                                              L[i][0] == V[i][0] and L[i][1] == V[i][1] and contents(L[i][2]) == V[i][2]
                                              and (is_src(L[i][2]) or (is_held(L[i][2]) and not is_owned_below(L[i][2]))))))


@contract('rbql_engine.Joiner.get_rhs', name='IF.joiner.get_rhs', trusted='interface contract of joiners over the abstract pairing join_pairs_for(kind, B-buckets, null width, key) (proved for Inner/Left/StrictLeft joiners)')
def _(self: Obj['rbql_engine.Joiner'], lhs_key: JKey) -> List[Tuple[Opt[Int], Int, Rec]]:
    ensures(match_list_ok(contents(result), join_pairs_for(self.kind, self.jmv, self.nullw, lhs_key)), 'denotes_pairs')
    ensures(not is_owned_below(result), 'list_not_owned_by_writer')
    ensures(implies(self.kind == 2, len(self.jmv[lhs_key]) == 1), 'strict_exactly_one')
    ensures(self.kind == old(self.kind) and self.jmv == old(self.jmv) and self.nullw == old(self.nullw), 'pairing_fixed')
    raises('rbql_engine.RbqlRuntimeError', self.kind == 2 and len(self.jmv[lhs_key]) != 1, 'strict_violation')
    modifies(family('joiner'))


# ---------------------------------------------------------------- key extraction
@pred
def hjm_single(self):
    return (not is_none(self.key_index) and len(self.kidx) == 1 and self.kidx[0] == opt_val(self.key_index) and opt_val(self.key_index) >= -1)


@pred
def hjm_multi(self):
    return (not is_none(self.key_indices) and len(self.kidx) != 1 and contents(self.key_indices) == self.kidx
            and forall(Int, lambda i: implies(0 <= i and i < len(self.kidx), self.kidx[i] >= -1)))


@contract('rbql_engine.HashJoinMap.get_single_key', name='C04.key.single', props=['C04', 'C14'])
def _(self: Obj['rbql_engine.HashJoinMap'], nr: Int, fields: List[Cell]) -> JKey:
    requires(hjm_single(self), 'single_key_mode')
    ensures(first_bad_key(contents(fields), self.kidx, 0) == -1 and result == jkey_of(nr, contents(fields), self.kidx), 'key')
    raises('rbql_engine.RbqlRuntimeError', first_bad_key(contents(fields), self.kidx, 0) == 0
           and exc_msg() == 'No field with index ' + str_of_int(self.kidx[0] + 1) + ' at record ' + str_of_int(nr) + ' in "B" table', 'short_record_named')


@contract('rbql_engine.HashJoinMap.get_multi_key', name='C04.key.multi', props=['C04', 'C14'])
def _(self: Obj['rbql_engine.HashJoinMap'], nr: Int, fields: List[Cell]) -> JKey:
    requires(hjm_multi(self), 'multi_key_mode')
    local_types(result=List[Cell])
    loop_types(0, ki=Int)
    invariant(0, 0 <= __i and __i <= len(self.kidx) and is_fresh(result), 'idx')
    invariant(0, contents(result) == jkeys(nr, contents(fields), self.kidx, __i), 'components')
    invariant(0, first_bad_key(contents(fields), self.kidx, 0) == first_bad_key(contents(fields), self.kidx, __i), 'in_range')
    ensures(first_bad_key(contents(fields), self.kidx, 0) == -1 and result == jkey_of(nr, contents(fields), self.kidx), 'key')
    raises('rbql_engine.RbqlRuntimeError', first_bad_key(contents(fields), self.kidx, 0) >= 0
           and exc_msg() == 'No field with index ' + str_of_int(self.kidx[first_bad_key(contents(fields), self.kidx, 0)] + 1) + ' at record ' + str_of_int(nr) + ' in "B" table', 'short_record_named')


# ---------------------------------------------------------------- the hash map after build(), and the three joiners
@pred
def hjm_built(self):
    return (forall(JKey, lambda k: implies(has_key(self.hash_map, k), match_list_ok(contents(self.hash_map[k]), self.jm[k])
                                           and not is_owned_below(self.hash_map[k]) and allocated(self.hash_map[k])))
            and forall(JKey, lambda k: implies(not has_key(self.hash_map, k), len(self.jm[k]) == 0))
            and self.max_record_len >= 0)


@contract('rbql_engine.HashJoinMap.get_join_records', name='C04.map.get', props=['C04'])
def _(self: Obj['rbql_engine.HashJoinMap'], key: JKey) -> List[Tuple[Opt[Int], Int, Rec]]:
    requires(hjm_built(self), 'built')
    ensures(match_list_ok(contents(result), self.jm[key]), 'bucket_of_key')
    ensures(not is_owned_below(result), 'list_not_owned_by_writer')
    ensures(hjm_built(self) and self.jm == old(self.jm) and self.max_record_len == old(self.max_record_len), 'map_unchanged')
    modifies(self.hash_map)


@contract('rbql_engine.InnerJoiner.__init__', name='C04.inner.init', props=['C04'])
def _(self: Obj['rbql_engine.InnerJoiner'], join_map: Obj['rbql_engine.HashJoinMap']):
    ghost_update(self.kind, 0)
    ghost_update(self.jmv, join_map.jm)
    ghost_update(self.nullw, 0)
    ensures(same(self.join_map, join_map), 'fields')
    modifies(self)


@contract('rbql_engine.InnerJoiner.get_rhs', name='C04.inner.get_rhs', props=['C04'])
def _(self: Obj['rbql_engine.InnerJoiner'], lhs_key: JKey) -> List[Tuple[Opt[Int], Int, Rec]]:
    requires(hjm_built(self.join_map) and self.kind == 0 and self.jmv == self.join_map.jm, 'inv')
    ensures(match_list_ok(contents(result), join_pairs_for(self.kind, self.jmv, self.nullw, lhs_key)), 'denotes_pairs')
    ensures(not is_owned_below(result), 'list_not_owned_by_writer')
    ensures(hjm_built(self.join_map) and self.kind == 0 and self.jmv == self.join_map.jm and self.jmv == old(self.jmv), 'inv_kept')
    modifies(self.join_map.hash_map)


@pred
def left_inv(self):
    N = contents(self.null_record)
    return (hjm_built(self.join_map) and self.kind == 1 and self.jmv == self.join_map.jm and self.nullw == self.join_map.max_record_len
            and len(N) == 1 and is_none(N[0][0]) and N[0][1] == self.nullw and contents(N[0][2]) == none_cells(self.nullw)
            and is_held(N[0][2]) and not is_owned_below(N[0][2]) and not is_owned_below(self.null_record))


@contract('rbql_engine.LeftJoiner.__init__', name='C04.left.init', props=['C04'])
def _(self: Obj['rbql_engine.LeftJoiner'], join_map: Obj['rbql_engine.HashJoinMap']):
    requires(hjm_built(join_map), 'built')
    uses(none_cells_pointwise)
    ghost_update(self.kind, 1)
    ghost_update(self.jmv, join_map.jm)
    ghost_update(self.nullw, join_map.max_record_len)
    ghost_update(is_held(contents(self.null_record)[0][2]), True)
    ensures(left_inv(self), 'inv')
    modifies(self)


@contract('rbql_engine.LeftJoiner.get_rhs', name='C04.left.get_rhs', props=['C04'])
def _(self: Obj['rbql_engine.LeftJoiner'], lhs_key: JKey) -> List[Tuple[Opt[Int], Int, Rec]]:
    requires(left_inv(self), 'inv')
    # LEFT JOIN: an unmatched key yields exactly one pairing whose b-fields are all None (width of the widest B record)
    ensures(match_list_ok(contents(result), join_pairs_for(self.kind, self.jmv, self.nullw, lhs_key)), 'denotes_pairs')
    ensures(not is_owned_below(result), 'list_not_owned_by_writer')
    ensures(left_inv(self) and self.jmv == old(self.jmv) and self.nullw == old(self.nullw), 'inv_kept')
    modifies(self.join_map.hash_map)


@contract('rbql_engine.StrictLeftJoiner.__init__', name='C04.strict.init', props=['C04'])
def _(self: Obj['rbql_engine.StrictLeftJoiner'], join_map: Obj['rbql_engine.HashJoinMap']):
    ghost_update(self.kind, 2)
    ghost_update(self.jmv, join_map.jm)
    ghost_update(self.nullw, 0)
    ensures(same(self.join_map, join_map), 'fields')
    modifies(self)


@contract('rbql_engine.StrictLeftJoiner.get_rhs', name='C04.strict.get_rhs', props=['C04', 'C14'])
def _(self: Obj['rbql_engine.StrictLeftJoiner'], lhs_key: JKey) -> List[Tuple[Opt[Int], Int, Rec]]:
    requires(hjm_built(self.join_map) and self.kind == 2 and self.jmv == self.join_map.jm, 'inv')
    ensures(len(self.jmv[lhs_key]) == 1 and match_list_ok(contents(result), join_pairs_for(self.kind, self.jmv, self.nullw, lhs_key)), 'exactly_one_match')
    ensures(not is_owned_below(result), 'list_not_owned_by_writer')
    ensures(hjm_built(self.join_map) and self.kind == 2 and self.jmv == self.join_map.jm and self.jmv == old(self.jmv), 'inv_kept')
    raises('rbql_engine.RbqlRuntimeError', len(self.jmv[lhs_key]) != 1, 'fails_unless_exactly_one_match')
    modifies(self.join_map.hash_map)
