# JOIN (C04): key extraction, the hash join map, the three joiners.  DESIGN Appendix B.7.
# TV = Tuple[Opt[Int], Int, RecV]: (bNR or None for the LEFT JOIN null record, bNF, record value).

classdef('rbql_engine.Joiner', family='joiner',
         ghost=dict(kind=Int, jmv=Map[JKey, Seq[Tuple[Opt[Int], Int, RecV]]], nullw=Int))
classdef('rbql_engine.HashJoinMap', family='joiner',
         fields=dict(max_record_len=Int, hash_map=DDict[JKey, List[Tuple[Opt[Int], Int, Rec]]], record_iterator=Obj['rbql_engine.RBQLInputIterator'],
                     key_indices=Opt[List[Int]], key_index=Opt[Int], polymorphic_get_key=MethodTag),
         ghost=dict(kidx=Seq[Int], jm=Map[JKey, Seq[Tuple[Opt[Int], Int, RecV]]]))
classdef('rbql_engine.InnerJoiner', bases=['rbql_engine.Joiner'], fields=dict(join_map=Obj['rbql_engine.HashJoinMap']))
classdef('rbql_engine.LeftJoiner', bases=['rbql_engine.Joiner'], fields=dict(join_map=Obj['rbql_engine.HashJoinMap'], null_record=List[Tuple[Opt[Int], Int, Rec]]))
classdef('rbql_engine.StrictLeftJoiner', bases=['rbql_engine.Joiner'], fields=dict(join_map=Obj['rbql_engine.HashJoinMap']))


@pred
def match_list_ok(L, V):
    # the heap list L of (bNR, bNF, record) tuples denotes the value sequence V; its records are protected rows
    return (len(L) == len(V)
            and forall(Int, lambda i: implies(0 <= i and i < len(L),
                                              L[i][0] == V[i][0] and L[i][1] == V[i][1] and contents(L[i][2]) == V[i][2]
                                              and (is_src(L[i][2]) or (is_held(L[i][2]) and not is_owned_below(L[i][2]))))))


@contract('rbql_engine.Joiner.get_rhs', name='IF.joiner.get_rhs', trusted='interface contract of joiners over the abstract pairing join_pairs_for(kind, B-buckets, null width, key) (proved for Inner/Left/StrictLeft joiners)')
def _(self: Obj['rbql_engine.Joiner'], lhs_key: JKey) -> List[Tuple[Opt[Int], Int, Rec]]:
    ensures(match_list_ok(contents(result), join_pairs_for(self.kind, self.jmv, self.nullw, lhs_key)), 'denotes_pairs')
    ensures(not is_owned_below(result), 'list_not_owned_by_writer')
    ensures(implies(self.kind == 2, len(self.jmv[lhs_key]) == 1), 'strict_exactly_one')
    ensures(self.kind == old(self.kind) and self.jmv == old(self.jmv) and self.nullw == old(self.nullw), 'pairing_fixed')
    raises('rbql_engine.RbqlRuntimeError', self.kind == 2 and len(self.jmv[lhs_key]) != 1, 'strict_violation')
    modifies(family('joiner'))


# ---------------------------------------------------------------- key extraction
@pred
def hjm_single(self):
    return (not is_none(self.key_index) and len(self.kidx) == 1 and self.kidx[0] == opt_val(self.key_index) and opt_val(self.key_index) >= -1)


@pred
def hjm_multi(self):
    return (not is_none(self.key_indices) and len(self.kidx) != 1 and contents(self.key_indices) == self.kidx
            and forall(Int, lambda i: implies(0 <= i and i < len(self.kidx), self.kidx[i] >= -1)))


@contract('rbql_engine.HashJoinMap.get_single_key', name='C04.key.single', props=['C04', 'C14'])
def _(self: Obj['rbql_engine.HashJoinMap'], nr: Int, fields: List[Cell]) -> JKey:
    requires(hjm_single(self), 'single_key_mode')
    ensures(first_bad_key(contents(fields), self.kidx, 0) == -1 and result == jkey_of(nr, contents(fields), self.kidx), 'key')
    raises('rbql_engine.RbqlRuntimeError', first_bad_key(contents(fields), self.kidx, 0) == 0
           and exc_msg() == 'No field with index ' + str_of_int(self.kidx[0] + 1) + ' at record ' + str_of_int(nr) + ' in "B" table', 'short_record_named')


@contract('rbql_engine.HashJoinMap.get_multi_key', name='C04.key.multi', props=['C04', 'C14'])
def _(self: Obj['rbql_engine.HashJoinMap'], nr: Int, fields: List[Cell]) -> JKey:
    requires(hjm_multi(self), 'multi_key_mode')
    local_types(result=List[Cell])
    loop_types(0, ki=Int)
    invariant(0, 0 <= __i and __i <= len(self.kidx) and is_fresh(result), 'idx')
    invariant(0, contents(result) == jkeys(nr, contents(fields), self.kidx, __i), 'components')
    invariant(0, first_bad_key(contents(fields), self.kidx, 0) == first_bad_key(contents(fields), self.kidx, __i), 'in_range')
    ensures(first_bad_key(contents(fields), self.kidx, 0) == -1 and result == jkey_of(nr, contents(fields), self.kidx), 'key')
    raises('rbql_engine.RbqlRuntimeError', first_bad_key(contents(fields), self.kidx, 0) >= 0
           and exc_msg() == 'No field with index ' + str_of_int(self.kidx[first_bad_key(contents(fields), self.kidx, 0)] + 1) + ' at record ' + str_of_int(nr) + ' in "B" table', 'short_record_named')


# ---------------------------------------------------------------- the hash map after build(), and the three joiners
@pred
def hjm_built(self):
    return (forall(JKey, lambda k: implies(has_key(self.hash_map, k), match_list_ok(contents(self.hash_map[k]), self.jm[k])
                                           and not is_owned_below(self.hash_map[k]) and allocated(self.hash_map[k])))
            and forall(JKey, lambda k: implies(not has_key(self.hash_map, k), len(self.jm[k]) == 0))
            and self.max_record_len >= 0)


@contract('rbql_engine.HashJoinMap.get_join_records', name='C04.map.get', props=['C04'])
def _(self: Obj['rbql_engine.HashJoinMap'], key: JKey) -> List[Tuple[Opt[Int], Int, Rec]]:
    requires(hjm_built(self), 'built')
    ensures(match_list_ok(contents(result), self.jm[key]), 'bucket_of_key')
    ensures(not is_owned_below(result), 'list_not_owned_by_writer')
    ensures(hjm_built(self) and self.jm == old(self.jm) and self.max_record_len == old(self.max_record_len), 'map_unchanged')
    modifies(self.hash_map)


@contract('rbql_engine.InnerJoiner.__init__', name='C04.inner.init', props=['C04'])
def _(self: Obj['rbql_engine.InnerJoiner'], join_map: Obj['rbql_engine.HashJoinMap']):
    ghost_update(self.kind, 0)
    ghost_update(self.jmv, join_map.jm)
    ghost_update(self.nullw, 0)
    ensures(same(self.join_map, join_map), 'fields')
    modifies(self)


@contract('rbql_engine.InnerJoiner.get_rhs', name='C04.inner.get_rhs', props=['C04'])
def _(self: Obj['rbql_engine.InnerJoiner'], lhs_key: JKey) -> List[Tuple[Opt[Int], Int, Rec]]:
    requires(hjm_built(self.join_map) and self.kind == 0 and self.jmv == self.join_map.jm, 'inv')
    ensures(match_list_ok(contents(result), join_pairs_for(self.kind, self.jmv, self.nullw, lhs_key)), 'denotes_pairs')
    ensures(not is_owned_below(result), 'list_not_owned_by_writer')
    ensures(hjm_built(self.join_map) and self.kind == 0 and self.jmv == self.join_map.jm and self.jmv == old(self.jmv), 'inv_kept')
    modifies(self.join_map.hash_map)


@pred
def left_inv(self):
    N = contents(self.null_record)
    return (hjm_built(self.join_map) and self.kind == 1 and self.jmv == self.join_map.jm and self.nullw == self.join_map.max_record_len
            and len(N) == 1 and is_none(N[0][0]) and N[0][1] == self.nullw and contents(N[0][2]) == none_cells(self.nullw)
            and is_held(N[0][2]) and not is_owned_below(N[0][2]) and not is_owned_below(self.null_record))


@contract('rbql_engine.LeftJoiner.__init__', name='C04.left.init', props=['C04'])
def _(self: Obj['rbql_engine.LeftJoiner'], join_map: Obj['rbql_engine.HashJoinMap']):
    requires(hjm_built(join_map), 'built')
    uses(none_cells_pointwise)
    ghost_update(self.kind, 1)
    ghost_update(self.jmv, join_map.jm)
    ghost_update(self.nullw, join_map.max_record_len)
    ghost_update(is_held(contents(self.null_record)[0][2]), True)
    ensures(left_inv(self), 'inv')
    modifies(self)


@contract('rbql_engine.LeftJoiner.get_rhs', name='C04.left.get_rhs', props=['C04'])
def _(self: Obj['rbql_engine.LeftJoiner'], lhs_key: JKey) -> List[Tuple[Opt[Int], Int, Rec]]:
    requires(left_inv(self), 'inv')
    # LEFT JOIN: an unmatched key yields exactly one pairing whose b-fields are all None (width of the widest B record)
    ensures(match_list_ok(contents(result), join_pairs_for(self.kind, self.jmv, self.nullw, lhs_key)), 'denotes_pairs')
    ensures(not is_owned_below(result), 'list_not_owned_by_writer')
    ensures(left_inv(self) and self.jmv == old(self.jmv) and self.nullw == old(self.nullw), 'inv_kept')
    modifies(self.join_map.hash_map)


@contract('rbql_engine.StrictLeftJoiner.__init__', name='C04.strict.init', props=['C04'])
def _(self: Obj['rbql_engine.StrictLeftJoiner'], join_map: Obj['rbql_engine.HashJoinMap']):
    ghost_update(self.kind, 2)
    ghost_update(self.jmv, join_map.jm)
    ghost_update(self.nullw, 0)
    ensures(same(self.join_map, join_map), 'fields')
    modifies(self)


@contract('rbql_engine.StrictLeftJoiner.get_rhs', name='C04.strict.get_rhs', props=['C04', 'C14'])
def _(self: Obj['rbql_engine.StrictLeftJoiner'], lhs_key: JKey) -> List[Tuple[Opt[Int], Int, Rec]]:
    requires(hjm_built(self.join_map) and self.kind == 2 and self.jmv == self.join_map.jm, 'inv')
    ensures(len(self.jmv[lhs_key]) == 1 and match_list_ok(contents(result), join_pairs_for(self.kind, self.jmv, self.nullw, lhs_key)), 'exactly_one_match')
    ensures(not is_owned_below(result), 'list_not_owned_by_writer')
    ensures(hjm_built(self.join_map) and self.kind == 2 and self.jmv == self.join_map.jm and self.jmv == old(self.jmv), 'inv_kept')
    raises('rbql_engine.RbqlRuntimeError', len(self.jmv[lhs_key]) != 1, 'fails_unless_exactly_one_match')
    modifies(self.join_map.hash_map)


# ---------------------------------------------------------------- building the hash map from the B table
@contract('rbql_engine.HashJoinMap.__init__', name='C04.map.init', props=['C04'], store_policy='none')
def _(self: Obj['rbql_engine.HashJoinMap'], record_iterator: Obj['rbql_engine.RBQLInputIterator'], key_indices: List[Int]):
    requires(len(key_indices) >= 1 and forall(Int, lambda i: implies(0 <= i and i < len(key_indices), contents(key_indices)[i] >= -1)), 'key_indices_are_fields_or_the_record_number')
    ghost_update(self.kidx, contents(key_indices))
    ensures((hjm_single(self) and self.polymorphic_get_key == mtag('get_single_key')) or (hjm_multi(self) and self.polymorphic_get_key == mtag('get_multi_key')), 'key_mode')
    ensures(self.kidx == contents(key_indices) and same(self.record_iterator, record_iterator), 'configured')
    ensures(self.max_record_len == 0 and len(keys(self.hash_map)) == 0 and is_fresh(self.hash_map)
            and forall(JKey, lambda k: not has_key(self.hash_map, k)), 'empty_map')
    modifies(self)


@pred
def src_list_ok(L, V):
    # match_list_ok for records that are source rows of the B table (the stronger fact that holds while building)
    return (len(L) == len(V)
            and forall(Int, lambda i: implies(0 <= i and i < len(L), L[i][0] == V[i][0] and L[i][1] == V[i][1] and contents(L[i][2]) == V[i][2] and is_src(L[i][2]))))


@pred
def hjm_upto(self, rows, n):
    # the buckets hold exactly the first n records of the B table, by key, in B order
    return (forall(JKey, lambda k: implies(has_key(self.hash_map, k), allocated(self.hash_map[k]) and not is_owned_below(self.hash_map[k])))
            and forall(JKey, lambda k: implies(has_key(self.hash_map, k), src_list_ok(contents(self.hash_map[k]), bucket(rows, self.kidx, k, n))), trigger=[self.hash_map[k]])
            and forall(JKey, lambda k: implies(not has_key(self.hash_map, k), len(bucket(rows, self.kidx, k, n)) == 0))
            and forall(JKey, JKey, lambda k1, k2: implies(has_key(self.hash_map, k1) and has_key(self.hash_map, k2) and k1 != k2, not same(self.hash_map[k1], self.hash_map[k2])))
            and self.max_record_len == max_width(rows, n))


@contract('rbql_engine.HashJoinMap.build', name='C04.map.build', props=['C04', 'C14', 'C06'], store_policy='none')
def _(self: Obj['rbql_engine.HashJoinMap']):
    requires((hjm_single(self) and self.polymorphic_get_key == mtag('get_single_key')) or (hjm_multi(self) and self.polymorphic_get_key == mtag('get_multi_key')), 'key_mode')
    requires(self.record_iterator.pos == 0 and self.max_record_len == 0 and forall(JKey, lambda k: not has_key(self.hash_map, k)), 'fresh_map_and_iterator')
    # ghost definition (conservative extension): jm names the buckets of the whole B table
    assumes(forall(JKey, lambda k: self.jm[k] == bucket(self.record_iterator.rows, self.kidx, k, len(self.record_iterator.rows))), 'ghost-def: jm is the bucketing of the B table by key')
    loop_types(0, fields=Opt[List[Cell]], nf=Int, key=JKey)
    invariant(0, same(self.record_iterator, old(self.record_iterator)) and same(self.hash_map, old(self.hash_map)) and self.record_iterator.rows == old(self.record_iterator.rows)
              and self.kidx == old(self.kidx) and self.jm == old(self.jm)
              and ((hjm_single(self) and self.polymorphic_get_key == mtag('get_single_key')) or (hjm_multi(self) and self.polymorphic_get_key == mtag('get_multi_key'))), 'config')
    invariant(0, nr == self.record_iterator.pos and 0 <= nr and nr <= len(self.record_iterator.rows), 'nr_is_position')
    invariant(0, hjm_upto(self, self.record_iterator.rows, nr), 'buckets_of_the_records_read')
    invariant(0, first_short_row(self.record_iterator.rows, self.kidx, nr) == -1, 'no_short_record_so_far')
    # the record just read goes to the bucket of its key and to no other
    loop_hint(0, implies(not is_none(fields), key == jkey_of(nr, self.record_iterator.rows[nr - 1], self.kidx) and contents(fields) == self.record_iterator.rows[nr - 1]), 'key_of_the_record_read')
    loop_hint(0, implies(not is_none(fields), bucket(self.record_iterator.rows, self.kidx, key, nr) == bucket(self.record_iterator.rows, self.kidx, key, nr - 1) + [tup(some(nr), len(fields), contents(fields))]), 'own_bucket_grows_by_the_record')
    loop_hint(0, implies(not is_none(fields), forall(JKey, lambda k: implies(k != key, bucket(self.record_iterator.rows, self.kidx, k, nr) == bucket(self.record_iterator.rows, self.kidx, k, nr - 1)))), 'other_buckets_unchanged')
    loop_hint(0, implies(not is_none(fields), forall(JKey, lambda k: implies(k != key and at_iter_start(has_key(self.hash_map, k)),
                                                 not same(at_iter_start(self.hash_map[k]), self.hash_map[key])))), 'the_list_appended_to_belongs_to_no_other_key')
    loop_hint(0, implies(not is_none(fields), forall(JKey, lambda k: implies(k != key, has_key(self.hash_map, k) == at_iter_start(has_key(self.hash_map, k))
                                                 and implies(has_key(self.hash_map, k), same(self.hash_map[k], at_iter_start(self.hash_map[k]))
                                                             and contents(self.hash_map[k]) == at_iter_start(contents(self.hash_map[k])))))), 'other_lists_untouched')
    loop_hint(0, implies(not is_none(fields), has_key(self.hash_map, key)
              and contents(self.hash_map[key]) == (at_iter_start(lambda k: contents(self.hash_map[k]), key) if at_iter_start(lambda k: has_key(self.hash_map, k), key) else empty(Tuple[Opt[Int], Int, Rec])) + [tup(some(nr), nf, fields)]), 'own_list_grows_by_the_record')
    loop_hint(0, implies(not is_none(fields) and at_iter_start(lambda k: has_key(self.hash_map, k), key),
                         src_list_ok(at_iter_start(lambda k: contents(self.hash_map[k]), key), bucket(self.record_iterator.rows, self.kidx, key, nr - 1))), 'own_list_denoted_its_bucket_before', hide=['bucket', 'jkey_of', 'jkeys', 'jcomp', 'max_width', 'first_short_row', 'first_bad_key'])
    loop_hint(0, implies(not is_none(fields), src_list_ok(contents(self.hash_map[key]), bucket(self.record_iterator.rows, self.kidx, key, nr))), 'own_list_denotes_its_bucket', hide=['bucket', 'jkey_of', 'jkeys', 'jcomp', 'max_width', 'first_short_row', 'first_bad_key'])
    loop_hint(0, implies(not is_none(fields), forall(JKey, lambda k: implies(k != key and has_key(self.hash_map, k), src_list_ok(contents(self.hash_map[k]), bucket(self.record_iterator.rows, self.kidx, k, nr))))), 'other_lists_denote_their_buckets')
    # C04: after build every bucket is exactly the key-equal B records in B order; the null-record width is the longest B record
    ensures(hjm_built(self), 'map_built')
    ensures(self.max_record_len == max_width(self.record_iterator.rows, len(self.record_iterator.rows)), 'null_width_is_longest_record')
    ensures(self.record_iterator.pos == len(self.record_iterator.rows), 'whole_table_read')
    # C14: a B record that lacks a key field is reported with its number
    raises('rbql_engine.RbqlRuntimeError', first_short_row(self.record_iterator.rows, self.kidx, self.record_iterator.pos) == self.record_iterator.pos - 1
           and str_contains(exc_msg(), 'at record ' + str_of_int(self.record_iterator.pos) + ' in "B" table'), 'first_short_record_named')
    modifies(field(self, 'max_record_len'), self.record_iterator, family('joiner'))
