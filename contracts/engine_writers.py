# Output-writer interface (ghost typestate + offered sequence) and the wrapping writers (C02, C15, C06).
# DESIGN Appendix B.1, B.3.  Parsed, never executed.
#
# Ghost vocabulary on every writer object (declared on the interface, inherited by refinement):
#   level     ownership depth: a wrapper is strictly above its subwriter; a call on a writer may only
#             modify writer objects at or below its level (region(self)).
#   offered   value snapshots of the records this writer was given, in order
#   refused   the last write returned False (no write may follow)
#   finished  finish() was called
#   sorted_iface  the writer takes write(sort_key, record) (SortedWriter) instead of write(record)

classdef('rbql_engine.RBQLOutputWriter', family='writer',
         ghost=dict(level=Int, offered=Seq[RecV], refused=Bool, finished=Bool, sorted_iface=Bool, header_calls=Int))

classdef('rbql_engine.TopWriter', bases=['rbql_engine.RBQLOutputWriter'],
         fields=dict(subwriter=Obj['rbql_engine.RBQLOutputWriter'], NW=Int, top_count=Int))
classdef('rbql_engine.UniqWriter', bases=['rbql_engine.RBQLOutputWriter'],
         fields=dict(subwriter=Obj['rbql_engine.RBQLOutputWriter'], seen=Set[RecV]))
classdef('rbql_engine.UniqCountWriter', bases=['rbql_engine.RBQLOutputWriter'],
         fields=dict(subwriter=Obj['rbql_engine.RBQLOutputWriter'], records=Dict[RecV, Int]))


# ---------------------------------------------------------------- interface (assumed of user writers; proved of ours)
@contract('rbql_engine.RBQLOutputWriter.write', name='IF.writer.write', trusted='interface contract: assumed of user-supplied writers (A-WRITER), proved for every RBQL writer that refines it')
def _(self: Obj['rbql_engine.RBQLOutputWriter'], fields: List[Cell]) -> Bool:
    requires(not self.finished, 'not_finished')
    requires(not self.refused, 'no_write_after_refusal')
    requires(not self.sorted_iface, 'plain_writer')
    requires(not is_src(fields), 'record_is_not_a_source_row')
    requires(not is_offered(fields), 'engine_record_not_offered_twice')
    ensures(self.offered == old(self.offered) + [old(contents(fields))], 'offered')
    ensures(self.refused == (not result), 'refused')
    ensures(self.finished == old(self.finished) and self.sorted_iface == old(self.sorted_iface), 'typestate')
    ensures(is_owned_below(fields), 'ownership')
    modifies(region(self), contents(fields))


@contract('rbql_engine.RBQLOutputWriter.finish', name='IF.writer.finish', trusted='interface contract (A-WRITER)')
def _(self: Obj['rbql_engine.RBQLOutputWriter']):
    requires(not self.finished, 'finish_once')
    ensures(self.finished, 'finished')
    ensures(self.offered == old(self.offered) and self.refused == old(self.refused), 'nothing_offered')
    modifies(region(self))


# ---------------------------------------------------------------- TopWriter
@pred
def top_inv(self):
    sub = self.subwriter
    return (sub.level < self.level and not sub.sorted_iface and not self.sorted_iface
            and 0 <= self.NW and self.NW <= len(sub.offered)
            and implies(not sub.refused, self.NW == len(sub.offered))
            and sub.offered == take(self.top_count, self.offered)
            and implies(sub.refused, self.refused)
            and sub.finished == self.finished)


@contract('rbql_engine.TopWriter.__init__', name='C02.top.init', props=['C02', 'C15'])
def _(self: Obj['rbql_engine.TopWriter'], subwriter: Obj['rbql_engine.RBQLOutputWriter'], top_count: Int):
    requires(not same(self, subwriter), 'distinct')
    requires(len(subwriter.offered) == 0 and not subwriter.refused and not subwriter.finished and not subwriter.sorted_iface, 'sub_new')
    ghost_update(self.level, subwriter.level + 1)
    ghost_update(self.offered, empty(RecV))
    ghost_update(self.refused, False)
    ghost_update(self.finished, False)
    ghost_update(self.sorted_iface, False)
    ensures(top_inv(self), 'inv')
    ensures(same(self.subwriter, subwriter) and self.top_count == top_count, 'fields')
    modifies(self)


@contract('rbql_engine.TopWriter.write', name='C02.top.write', props=['C02', 'C15', 'C06'], store_policy='writer')
def _(self: Obj['rbql_engine.TopWriter'], record: List[Cell]) -> Bool:
    requires(top_inv(self), 'inv')
    requires(not self.finished, 'not_finished')
    requires(not self.refused, 'no_write_after_refusal')
    requires(not is_src(record), 'record_is_not_a_source_row')
    requires(not is_offered(record), 'engine_record_not_offered_twice')
    ghost_update(self.offered, old(self.offered) + [old(contents(record))])
    ghost_update(self.refused, not result)
    ghost_update(is_owned_below(record), True)
    ensures(top_inv(self), 'inv')
    ensures(self.subwriter.offered == take(self.top_count, self.offered), 'forwards_exactly_first_n')
    ensures(result == (len(old(self.offered)) < self.top_count and not self.subwriter.refused), 'result')
    ensures(is_owned_below(record), 'ownership')
    ensures(self.top_count == old(self.top_count) and same(self.subwriter, old(self.subwriter)), 'config_unchanged')
    modifies(self, region(self.subwriter), contents(record))


@contract('rbql_engine.TopWriter.finish', name='C02.top.finish', props=['C02', 'C15'])
def _(self: Obj['rbql_engine.TopWriter']):
    requires(top_inv(self), 'inv')
    requires(not self.finished, 'finish_once')
    ghost_update(self.finished, True)
    ensures(top_inv(self), 'inv')
    ensures(self.subwriter.finished, 'sub_finished_once')
    ensures(self.subwriter.offered == old(self.subwriter.offered), 'nothing_offered')
    modifies(self, region(self.subwriter))


# ---------------------------------------------------------------- UniqWriter
@pred
def uniq_inv(self):
    sub = self.subwriter
    return (sub.level < self.level and not sub.sorted_iface and not self.sorted_iface
            and forall(RecV, lambda x: in_set(self.seen, x) == (x in self.offered))
            and sub.offered == dedup_first(self.offered)
            and implies(sub.refused, self.refused)
            and sub.finished == self.finished)


@contract('rbql_engine.UniqWriter.__init__', name='C02.uniq.init', props=['C02', 'C15'])
def _(self: Obj['rbql_engine.UniqWriter'], subwriter: Obj['rbql_engine.RBQLOutputWriter']):
    requires(not same(self, subwriter), 'distinct')
    requires(len(subwriter.offered) == 0 and not subwriter.refused and not subwriter.finished and not subwriter.sorted_iface, 'sub_new')
    ghost_update(self.level, subwriter.level + 1)
    ghost_update(self.offered, empty(RecV))
    ghost_update(self.refused, False)
    ghost_update(self.finished, False)
    ghost_update(self.sorted_iface, False)
    ensures(uniq_inv(self), 'inv')
    ensures(same(self.subwriter, subwriter), 'fields')
    modifies(self)


@contract('rbql_engine.UniqWriter.write', name='C02.uniq.write', props=['C02', 'C15', 'C06'], store_policy='writer')
def _(self: Obj['rbql_engine.UniqWriter'], record: List[Cell]) -> Bool:
    requires(uniq_inv(self), 'inv')
    requires(not self.finished, 'not_finished')
    requires(not self.refused, 'no_write_after_refusal')
    requires(not is_src(record), 'record_is_not_a_source_row')
    requires(not is_offered(record), 'engine_record_not_offered_twice')
    ghost_update(self.offered, old(self.offered) + [old(contents(record))])
    ghost_update(self.refused, not result)
    ghost_update(is_owned_below(record), True)
    ensures(uniq_inv(self), 'inv')
    ensures(is_owned_below(record), 'ownership')
    ensures(self.subwriter.offered == dedup_first(self.offered), 'forwards_first_occurrences')
    ensures(result == (not self.subwriter.refused), 'result')
    ensures(same(self.subwriter, old(self.subwriter)), 'config_unchanged')
    modifies(self, self.seen, region(self.subwriter), contents(record))


@contract('rbql_engine.UniqWriter.finish', name='C02.uniq.finish', props=['C02', 'C15'])
def _(self: Obj['rbql_engine.UniqWriter']):
    requires(uniq_inv(self), 'inv')
    requires(not self.finished, 'finish_once')
    ghost_update(self.finished, True)
    ensures(uniq_inv(self), 'inv')
    ensures(self.subwriter.finished, 'sub_finished_once')
    ensures(self.subwriter.offered == old(self.subwriter.offered), 'nothing_offered')
    modifies(self, region(self.subwriter))


# ---------------------------------------------------------------- UniqCountWriter
@pred
def uc_inv(self):
    sub = self.subwriter
    return (sub.level < self.level and not sub.sorted_iface and not self.sorted_iface
            and keys(self.records) == dedup_first(self.offered)
            and forall(RecV, lambda x: has_key(self.records, x) == (x in self.offered))
            and forall(RecV, lambda x: (self.records[x] if has_key(self.records, x) else 0) == count_in(self.offered, x))
            and not self.refused)


@contract('rbql_engine.UniqCountWriter.__init__', name='C02.uniqcount.init', props=['C02', 'C15'])
def _(self: Obj['rbql_engine.UniqCountWriter'], subwriter: Obj['rbql_engine.RBQLOutputWriter']):
    requires(not same(self, subwriter), 'distinct')
    requires(len(subwriter.offered) == 0 and not subwriter.refused and not subwriter.finished and not subwriter.sorted_iface, 'sub_new')
    ghost_update(self.level, subwriter.level + 1)
    ghost_update(self.offered, empty(RecV))
    ghost_update(self.refused, False)
    ghost_update(self.finished, False)
    ghost_update(self.sorted_iface, False)
    ensures(uc_inv(self), 'inv')
    ensures(same(self.subwriter, subwriter), 'fields')
    ensures(len(self.subwriter.offered) == 0 and not self.subwriter.refused and not self.subwriter.finished, 'sub_untouched')
    modifies(self)


@contract('rbql_engine.UniqCountWriter.write', name='C02.uniqcount.write', props=['C02', 'C15', 'C06'], store_policy='writer')
def _(self: Obj['rbql_engine.UniqCountWriter'], record: List[Cell]) -> Bool:
    requires(uc_inv(self), 'inv')
    requires(not self.finished, 'not_finished')
    ghost_update(self.offered, old(self.offered) + [old(contents(record))])
    ghost_update(is_owned_below(record), True)
    ensures(uc_inv(self), 'inv')
    ensures(is_owned_below(record), 'ownership')
    ensures(result, 'never_refuses')
    ensures(self.subwriter.offered == old(self.subwriter.offered) and self.subwriter.refused == old(self.subwriter.refused)
            and self.subwriter.finished == old(self.subwriter.finished), 'buffers_only')
    ensures(same(self.subwriter, old(self.subwriter)), 'config_unchanged')
    modifies(self, self.records)


@contract('rbql_engine.UniqCountWriter.finish', name='C02.uniqcount.finish', props=['C02', 'C15', 'C06'], store_policy='writer')
def _(self: Obj['rbql_engine.UniqCountWriter']):
    requires(uc_inv(self), 'inv')
    requires(not self.finished, 'finish_once')
    requires(len(self.subwriter.offered) == 0 and not self.subwriter.refused and not self.subwriter.finished, 'sub_untouched')
    ghost_update(self.finished, True)
    invariant(0, 0 <= __i and __i <= len(keys(self.records)), 'idx')
    invariant(0, same(self.subwriter, old(self.subwriter)) and same(self.records, old(self.records)) and self.offered == old(self.offered)
              and self.subwriter.level < self.level and not self.subwriter.sorted_iface, 'config')
    invariant(0, self.subwriter.offered == uc_rows(keys(self.records), self.offered, __i), 'rows')
    invariant(0, not self.subwriter.refused and not self.subwriter.finished, 'sub_open')
    invariant(0, len(self.subwriter.offered) == __i, 'count')
    ensures(self.subwriter.finished, 'sub_finished_once')
    # the forwarded sequence is the DISTINCT COUNT table of everything offered, cut only by a refusal
    ensures(self.subwriter.offered == uc_rows(dedup_first(self.offered), self.offered, len(self.subwriter.offered)), 'each_distinct_record_once_with_count')
    ensures(len(self.subwriter.offered) <= len(dedup_first(self.offered))
            and (len(self.subwriter.offered) == len(dedup_first(self.offered)) or self.subwriter.refused), 'complete_unless_refused')
    ensures(self.offered == old(self.offered), 'offered_unchanged')
    loop_types(0, record=RecV, cnt=Int, mutable_record=List[Cell])
    modifies(self, region(self.subwriter))


# ---------------------------------------------------------------- SortedWriter
classdef('rbql_engine.SortedWriter', bases=['rbql_engine.RBQLOutputWriter'],
         fields=dict(subwriter=Obj['rbql_engine.RBQLOutputWriter'], reverse_sort=Bool, unsorted_entries=List[Tuple[Key, Rec]]))


@contract('rbql_engine.RBQLOutputWriter.write2', name='IF.writer.write2', trusted='interface contract of the sorting writer protocol write(sort_key, record) (A-WRITER)')
def _(self: Obj['rbql_engine.RBQLOutputWriter'], sort_key_value: Key, fields: List[Cell]) -> Bool:
    requires(not self.finished, 'not_finished')
    requires(not self.refused, 'no_write_after_refusal')
    requires(self.sorted_iface, 'sorting_writer')
    requires(not is_src(fields), 'record_is_not_a_source_row')
    requires(not is_offered(fields), 'engine_record_not_offered_twice')
    ghost_update(is_held(fields), True)
    ensures(self.offered == old(self.offered) + [old(contents(fields))], 'offered')
    ensures(self.refused == (not result), 'refused')
    ensures(self.finished == old(self.finished), 'typestate')
    ensures(contents(fields) == old(contents(fields)), 'record_untouched')
    modifies(region(self))


@pred
def sorted_inv(self):
    sub = self.subwriter
    E = contents(self.unsorted_entries)
    return (sub.level < self.level and not sub.sorted_iface and self.sorted_iface
            and len(sub.offered) == 0 and not sub.refused and not sub.finished and not self.refused and not self.finished
            and len(E) == len(self.offered)
            and not is_offered(self.unsorted_entries) and not is_src(self.unsorted_entries)
            and forall(Int, lambda i: implies(0 <= i and i < len(E),
                                              is_held(E[i][1]) and not is_owned_below(E[i][1]) and contents(E[i][1]) == self.offered[i]))
            and forall(Int, Int, lambda i, j: implies(0 <= i and i < j and j < len(E), not same(E[i][1], E[j][1]))))


@contract('rbql_engine.SortedWriter.__init__', name='C02.sorted.init', props=['C02', 'C15'])
def _(self: Obj['rbql_engine.SortedWriter'], subwriter: Obj['rbql_engine.RBQLOutputWriter'], reverse_sort: Bool):
    requires(not same(self, subwriter), 'distinct')
    requires(len(subwriter.offered) == 0 and not subwriter.refused and not subwriter.finished and not subwriter.sorted_iface, 'sub_new')
    ghost_update(self.level, subwriter.level + 1)
    ghost_update(self.offered, empty(RecV))
    ghost_update(self.refused, False)
    ghost_update(self.finished, False)
    ghost_update(self.sorted_iface, True)
    ensures(sorted_inv(self), 'inv')
    ensures(self.reverse_sort == reverse_sort and same(self.subwriter, subwriter), 'fields')
    modifies(self)


@contract('rbql_engine.SortedWriter.write', name='C02.sorted.write', props=['C02', 'C15', 'C06'], store_policy='writer')
def _(self: Obj['rbql_engine.SortedWriter'], sort_key_value: Key, record: List[Cell]) -> Bool:
    requires(sorted_inv(self), 'inv')
    requires(not is_src(record), 'record_is_not_a_source_row')
    requires(not is_offered(record), 'engine_record_not_offered_twice')
    ghost_update(self.offered, old(self.offered) + [old(contents(record))])
    ghost_update(is_held(record), True)
    ensures(sorted_inv(self), 'inv')
    ensures(result, 'never_refuses')
    ensures(contents(self.unsorted_entries) == old(contents(self.unsorted_entries)) + [tup(sort_key_value, record)], 'buffered_in_order')
    ensures(contents(record) == old(contents(record)), 'record_untouched')
    ensures(same(self.subwriter, old(self.subwriter)) and self.reverse_sort == old(self.reverse_sort), 'config_unchanged')
    modifies(self, self.unsorted_entries)


@contract('rbql_engine.SortedWriter.finish', name='C02.sorted.finish', props=['C02', 'C15', 'C06'], store_policy='writer')
def _(self: Obj['rbql_engine.SortedWriter']):
    requires(sorted_inv(self), 'inv')
    ghost_update(self.finished, True)
    local_types(sorted_entries=List[Tuple[Key, Rec]])
    loop_types(0, e=Tuple[Key, Rec])
    invariant(0, 0 <= __i and __i <= len(sorted_entries), 'idx')
    invariant(0, same(self.subwriter, old(self.subwriter)) and same(self.unsorted_entries, old(self.unsorted_entries))
              and self.offered == old(self.offered) and self.reverse_sort == old(self.reverse_sort)
              and contents(self.unsorted_entries) == old(contents(self.unsorted_entries))
              and not is_offered(self.unsorted_entries)
              and self.subwriter.level < self.level and not self.subwriter.sorted_iface, 'config')
    invariant(0, is_fresh(sorted_entries) and not is_offered(sorted_entries) and len(sorted_entries) == len(self.offered)
              and contents(sorted_entries) == at_loop_entry(contents(sorted_entries)), 'sorted_list_stable')
    invariant(0, self.subwriter.offered == pick_dir(self.offered, sort_perm(contents(self.unsorted_entries), len(self.offered)), self.reverse_sort, __i), 'forwarded_in_sorted_order')
    invariant(0, len(self.subwriter.offered) == __i, 'count')
    invariant(0, not self.subwriter.refused and not self.subwriter.finished, 'sub_open')
    invariant(0, forall(Int, lambda k: implies(__i <= k and k < len(sorted_entries),
                                               is_held(contents(sorted_entries)[k][1]) and not is_owned_below(contents(sorted_entries)[k][1])
                                               and contents(contents(sorted_entries)[k][1]) == old_contents(contents(sorted_entries)[k][1]))), 'pending_records_untouched')
    ensures(self.subwriter.finished, 'sub_finished_once')
    # ORDER BY: the forwarded sequence is the offered records in stable key order; DESC is exactly its reverse
    ensures(self.subwriter.offered == pick_dir(self.offered, sort_perm(contents(self.unsorted_entries), len(self.offered)), self.reverse_sort, len(self.subwriter.offered)), 'forwarded_in_sorted_order')
    ensures(len(self.subwriter.offered) <= len(self.offered) and (len(self.subwriter.offered) == len(self.offered) or self.subwriter.refused), 'complete_unless_refused')
    ensures(self.offered == old(self.offered), 'offered_unchanged')
    modifies(self, region(self.subwriter))


# ---------------------------------------------------------------- AggregateWriter (C03)
classdef('rbql_engine.AggregateWriter', bases=['rbql_engine.RBQLOutputWriter'],
         fields=dict(subwriter=Obj['rbql_engine.RBQLOutputWriter'], aggregators=List[Obj['rbql_engine.Aggregator']], aggregation_keys=Set[Key]))
classdef('rbql_engine.RBQLAggregationToken', fields=dict(marker_id=Int, value=Cell))


@trusted('builtins.sorted.keyset', trusted='A-SORT: sorted(list(set)) lists exactly the members of the set, each once, in strictly ascending order (key_le is the order of the keys: homogeneous, comparable group keys)')
def _(v: Set[Key]) -> List[Key]:
    ensures(is_fresh(result) and contents(result) == sorted_keyset(set_map(v), set_size(v)), 'fresh')
    ensures(forall(Key, lambda k: in_set(v, k) == (k in contents(result))), 'same_members')
    ensures(forall(Int, Int, lambda i, j: implies(0 <= i and i < j and j < len(result), key_le(contents(result)[i], contents(result)[j]) and contents(result)[i] != contents(result)[j])), 'strictly_ascending')
    ensures(len(result) == set_size(v), 'each_once')


@contract('rbql_engine.AggregateWriter.__init__', name='C03.aggwriter.init', props=['C03', 'C15'])
def _(self: Obj['rbql_engine.AggregateWriter'], subwriter: Obj['rbql_engine.RBQLOutputWriter']):
    requires(not same(self, subwriter), 'distinct')
    ghost_update(self.level, subwriter.level + 1)
    ghost_update(self.offered, empty(RecV))
    ghost_update(self.refused, False)
    ghost_update(self.finished, False)
    ghost_update(self.sorted_iface, False)
    ensures(same(self.subwriter, subwriter) and len(self.aggregators) == 0 and set_size(self.aggregation_keys) == 0
            and forall(Key, lambda k: not in_set(self.aggregation_keys, k)) and is_fresh(self.aggregators) and is_fresh(self.aggregation_keys), 'fields')
    modifies(self)


@contract('rbql_engine.AggregateWriter.finish', name='C03.aggwriter.finish', props=['C03', 'C15', 'C06'], store_policy='writer')
def _(self: Obj['rbql_engine.AggregateWriter']):
    requires(self.subwriter.level < self.level and not self.subwriter.sorted_iface, 'chain')
    requires(not self.subwriter.finished and not self.subwriter.refused and not self.finished, 'sub_open')
    requires(not is_offered(self.aggregators), 'aggregator_list_not_owned_by_writer')
    requires(forall(Key, Int, lambda k, i: implies(in_set(self.aggregation_keys, k) and 0 <= i and i < len(self.aggregators), len(contents(self.aggregators)[i].hist[k]) >= 1)), 'every_group_has_values_in_every_column')
    ghost_update(self.finished, True)
    local_types(all_keys=List[Key])
    loop_types(0, key=Key, out_fields=List[Cell])
    invariant(0, 0 <= __i and __i <= len(all_keys) and is_fresh(all_keys) and not is_offered(all_keys) and contents(all_keys) == at_loop_entry(contents(all_keys))
              and same(self.aggregation_keys, old(self.aggregation_keys)) and len(all_keys) == set_size(self.aggregation_keys)
              and contents(all_keys) == sorted_keyset(set_map(self.aggregation_keys), set_size(self.aggregation_keys))
              and forall(Int, lambda j: implies(0 <= j and j < len(all_keys), in_set(self.aggregation_keys, contents(all_keys)[j]))), 'keys')
    invariant(0, same(self.subwriter, old(self.subwriter)) and same(self.aggregators, old(self.aggregators)) and contents(self.aggregators) == old(contents(self.aggregators))
              and self.subwriter.level < self.level and not self.subwriter.sorted_iface and not is_offered(self.aggregators), 'config')
    invariant(0, len(self.subwriter.offered) == len(old(self.subwriter.offered)) + __i and not self.subwriter.refused and not self.subwriter.finished, 'one_row_per_key_so_far')
    invariant(0, forall(Int, Int, lambda j, c: implies(0 <= j and j < __i and 0 <= c and c < len(self.aggregators),
                                                          len(self.subwriter.offered[len(old(self.subwriter.offered)) + j]) == len(self.aggregators)
                                                          and self.subwriter.offered[len(old(self.subwriter.offered)) + j][c] == contents(self.aggregators)[c].finalv[contents(all_keys)[j]])), 'row_j_holds_the_final_values_of_key_j')
    exit_hint(contents(self.aggregators) == old(contents(self.aggregators)) and same(self.aggregators, old(self.aggregators))
              and same(self.aggregation_keys, old(self.aggregation_keys)) and same(self.subwriter, old(self.subwriter)), 'configuration_unchanged')
    exit_hint(forall(Int, lambda j: implies(0 <= j and j < at_iter_start(len(self.subwriter.offered)), self.subwriter.offered[j] == at_iter_start(self.subwriter.offered)[j])), 'earlier_rows_unchanged')
    # one output row per distinct group key, in ascending key order, each column the final value of its aggregator; stops at a refusal
    ensures(self.subwriter.finished, 'sub_finished_once')
    ensures(len(self.subwriter.offered) - len(old(self.subwriter.offered)) <= set_size(self.aggregation_keys)
            and (self.subwriter.refused or len(self.subwriter.offered) - len(old(self.subwriter.offered)) == set_size(self.aggregation_keys)), 'one_row_per_group_unless_refused')
    ensures(forall(Int, Int, lambda j, c: implies(0 <= j and j < len(self.subwriter.offered) - len(old(self.subwriter.offered)) - (1 if self.subwriter.refused else 0) and 0 <= c and c < len(self.aggregators),
                                                   self.subwriter.offered[len(old(self.subwriter.offered)) + j][c]
                                                   == contents(self.aggregators)[c].finalv[sorted_keyset(set_map(self.aggregation_keys), set_size(self.aggregation_keys))[j]])), 'rows_in_ascending_key_order_with_final_values')
    modifies(self, region(self.subwriter))
