# List-table adapters (C13 refinement of the iterator/writer interfaces; C14 field-count bookkeeping; C06).
# DESIGN Appendix B.10.

classdef('rbql_engine.TableIterator', bases=['rbql_engine.RBQLInputIterator'],
         fields=dict(table=List[List[Cell]], column_names=Opt[List[Str]], normalize_column_names=Bool, variable_prefix=Str, NR=Int, fields_info=Dict[Int, Int]))
classdef('rbql_engine.TableWriter', bases=['rbql_engine.RBQLOutputWriter'], fields=dict(table=List[List[Cell]], header=Opt[List[Str]]))


@spec
def first_with_len(rows: Seq[RecV], n: Int, m: Int) -> Int:
    # 0-based index of the first of the first m rows that has n fields, -1 when none has
    if m <= 0:
        return -1
    if first_with_len(rows, n, m - 1) != -1:
        return first_with_len(rows, n, m - 1)
    if len(rows[m - 1]) == n:
        return m - 1
    return -1


@spec
def lens_seen(rows: Seq[RecV], m: Int) -> Seq[Int]:
    # the distinct field counts of the first m rows, in order of first occurrence
    if m <= 0:
        return []
    if first_with_len(rows, len(rows[m - 1]), m - 1) != -1:
        return lens_seen(rows, m - 1)
    return lens_seen(rows, m - 1) + [len(rows[m - 1])]


@pred
def table_iter_inv(it):
    # the abstract content `rows` is the caller's table; fields_info maps each field count seen so far to the 1-based
    # number of the first record that had it
    return (len(it.rows) == len(it.table) and it.pos == it.NR and 0 <= it.NR and it.NR <= len(it.table)
            and forall(Int, lambda k: implies(0 <= k and k < len(it.table), it.rows[k] == contents(contents(it.table)[k]) and is_src(contents(it.table)[k])))
            and keys(it.fields_info) == lens_seen(it.rows, it.NR)
            and forall(Int, lambda n: has_key(it.fields_info, n) == (first_with_len(it.rows, n, it.NR) != -1))
            and forall(Int, lambda n: implies(has_key(it.fields_info, n), it.fields_info[n] == first_with_len(it.rows, n, it.NR) + 1)))


@contract('rbql_engine.TableIterator.get_record', name='C13.table_iterator.get_record', props=['C13', 'C14', 'C06'], store_policy='none')
def _(self: Obj['rbql_engine.TableIterator']) -> Opt[List[Cell]]:
    requires(table_iter_inv(self), 'inv')
    # refinement of IF.iterator.get_record: the k-th pull hands out the k-th row of the table, then None for ever
    ensures(self.rows == old(self.rows), 'content_fixed')
    ensures(implies(old(self.pos) < len(self.rows),
                    not is_none(result) and contents(result) == self.rows[old(self.pos)] and is_src(result) and self.pos == old(self.pos) + 1), 'next')
    ensures(implies(old(self.pos) >= len(self.rows), is_none(result) and self.pos == old(self.pos)), 'exhausted')
    # C14: the bookkeeping for the inconsistent-field-count warning stays exact
    ensures(table_iter_inv(self), 'inv_kept')
    # C06: the table itself is only read
    ensures(contents(self.table) == old(contents(self.table)), 'table_unchanged')
    ghost_update(self.pos, self.pos + 1 if self.pos < len(self.rows) else self.pos)
    modifies(field(self, 'NR'), field(self, 'pos'), contents(self.fields_info))


@contract('rbql_engine.TableIterator.__init__', name='C13.table_iterator.init', props=['C13', 'C14', 'C06'], store_policy='none')
def _(self: Obj['rbql_engine.TableIterator'], table: List[List[Cell]], column_names: Opt[List[Str]], normalize_column_names: Bool, variable_prefix: Str):
    requires(forall(Int, lambda k: implies(0 <= k and k < len(table), is_src(contents(table)[k]))), 'table_rows_are_sources')
    # ghost definition (conservative extension, not an assumption about the code): `rows` names the content of the table
    assumes(len(self.rows) == len(table) and self.pos == 0
            and forall(Int, lambda k: implies(0 <= k and k < len(table), self.rows[k] == contents(contents(table)[k]))), 'ghost-def: rows is the content of the caller table, pos counts the pulls')
    ensures(table_iter_inv(self) and self.pos == 0 and same(self.table, table), 'fresh_iterator_over_the_table')
    ensures(self.normalize_column_names == normalize_column_names and self.variable_prefix == variable_prefix and is_none(self.column_names) == is_none(column_names)
            and implies(not is_none(column_names), same(opt_val(self.column_names), opt_val(column_names))), 'configured_as_given')
    ensures(contents(table) == old(contents(table)), 'table_unchanged')
    modifies(self)


@contract('rbql_engine.TableIterator.get_header', name='C13.table_iterator.get_header', props=['C13', 'C07'])
def _(self: Obj['rbql_engine.TableIterator']) -> Opt[List[Str]]:
    ensures(is_none(result) == is_none(self.column_names) and implies(not is_none(result), same(opt_val(result), opt_val(self.column_names))), 'the_column_names')


@contract('rbql_engine.make_inconsistent_num_fields_warning', name='C14.fieldcount.message', props=['C14'])
def _(table_name: Str, inconsistent_records_info: Dict[Int, Int]) -> Str:
    requires(len(keys(inconsistent_records_info)) > 1, 'two_lengths_seen')
    local_types(num_fields_1=Int, record_num_1=Int, num_fields_2=Int, record_num_2=Int)
    # the message cites the two entries with the smallest record numbers: the first record of each of the first two lengths
    exit_hint(has_key(inconsistent_records_info, num_fields_1) and has_key(inconsistent_records_info, num_fields_2) and num_fields_1 != num_fields_2
              and inconsistent_records_info[num_fields_1] == record_num_1 and inconsistent_records_info[num_fields_2] == record_num_2
              and forall(Int, lambda k: implies(has_key(inconsistent_records_info, k), record_num_1 <= inconsistent_records_info[k]
                                                 and (k == num_fields_1 or record_num_2 <= inconsistent_records_info[k]))), 'witnesses')
    ensures(exists(Int, Int, lambda n1, n2: has_key(inconsistent_records_info, n1) and has_key(inconsistent_records_info, n2) and n1 != n2
                   and forall(Int, lambda k: implies(has_key(inconsistent_records_info, k), inconsistent_records_info[n1] <= inconsistent_records_info[k]
                                                      and (k == n1 or inconsistent_records_info[n2] <= inconsistent_records_info[k])))
                   and result == 'Number of fields in "' + table_name + '" table is not consistent: e.g. record ' + str_of_int(inconsistent_records_info[n1]) + ' -> ' + str_of_int(n1)
                   + ' fields, record ' + str_of_int(inconsistent_records_info[n2]) + ' -> ' + str_of_int(n2) + ' fields'), 'cites_first_record_of_each_of_the_first_two_lengths')
    raises('AssertionError', False, 'two_lengths_seen')


@lemma
def first_with_len_props(rows: Seq[RecV], n: Int, m: Int):
    # first_with_len finds a row of that length iff there is one, and it is the first
    props('C14')
    requires(0 <= m and m <= len(rows))
    ensures(implies(first_with_len(rows, n, m) != -1, 0 <= first_with_len(rows, n, m) and first_with_len(rows, n, m) < m and len(rows[first_with_len(rows, n, m)]) == n), 'found_has_the_length')
    ensures(forall(Int, lambda k: implies(0 <= k and k < m and len(rows[k]) == n, first_with_len(rows, n, m) != -1 and first_with_len(rows, n, m) <= k)), 'none_earlier')
    induct(m)


@lemma
def lens_seen_props(rows: Seq[RecV], m: Int):
    # more than one distinct field count was recorded iff two of the rows differ in length
    props('C14')
    requires(0 <= m and m <= len(rows))
    uses(first_with_len_props)
    ensures((len(lens_seen(rows, m)) >= 1) == (m >= 1), 'some_length_iff_some_row')
    ensures((len(lens_seen(rows, m)) <= 1) == forall(Int, Int, lambda i, j: implies(0 <= i and i < m and 0 <= j and j < m, len(rows[i]) == len(rows[j]))), 'one_length_iff_all_rows_agree')
    induct(m)


@contract('rbql_engine.TableIterator.get_warnings', name='C14.table_iterator.warnings', props=['C14'])
def _(self: Obj['rbql_engine.TableIterator']) -> List[Str]:
    requires(table_iter_inv(self), 'inv')
    uses(first_with_len_props)
    uses(lens_seen_props(self.rows, self.NR))
    # exact: the warning appears iff two of the records pulled so far have different numbers of fields
    ensures((len(result) == 1) == exists(Int, Int, lambda i, j: 0 <= i and i < self.NR and 0 <= j and j < self.NR and len(self.rows[i]) != len(self.rows[j])), 'warning_iff_two_lengths_were_seen')
    ensures(len(result) <= 1, 'at_most_one_warning')
    # and it cites, for the two lengths seen first, the 1-based number of the first record of each
    ensures(implies(len(result) == 1, exists(Int, Int, lambda n1, n2: n1 != n2 and first_with_len(self.rows, n1, self.NR) != -1 and first_with_len(self.rows, n2, self.NR) != -1
                    and forall(Int, lambda k: implies(first_with_len(self.rows, k, self.NR) != -1, first_with_len(self.rows, n1, self.NR) <= first_with_len(self.rows, k, self.NR)
                                                       and (k == n1 or first_with_len(self.rows, n2, self.NR) <= first_with_len(self.rows, k, self.NR))))
                    and contents(result)[0] == 'Number of fields in "input" table is not consistent: e.g. record ' + str_of_int(first_with_len(self.rows, n1, self.NR) + 1) + ' -> ' + str_of_int(n1)
                    + ' fields, record ' + str_of_int(first_with_len(self.rows, n2, self.NR) + 1) + ' -> ' + str_of_int(n2) + ' fields')), 'cites_first_record_of_each_of_the_first_two_lengths')


# ---------------------------------------------------------------- TableWriter
@contract('rbql_engine.TableWriter.__init__', name='C13.table_writer.init', props=['C13'], store_policy='none')
def _(self: Obj['rbql_engine.TableWriter'], external_table: List[List[Cell]]):
    ghost_update(self.offered, empty(RecV))
    ghost_update(self.refused, False)
    ghost_update(self.finished, False)
    ghost_update(self.sorted_iface, False)
    ghost_update(self.header_calls, 0)
    ensures(same(self.table, external_table) and is_none(self.header), 'fresh_writer_over_the_callers_table')
    ensures(contents(external_table) == old(contents(external_table)), 'nothing_written_yet')
    modifies(self)


@contract('rbql_engine.TableWriter.write', name='C13.table_writer.write', props=['C13', 'C15', 'C06'], store_policy='writer')
def _(self: Obj['rbql_engine.TableWriter'], fields: List[Cell]) -> Bool:
    requires(not is_src(fields), 'record_is_not_a_source_row')
    requires(not is_src(self.table), 'output_table_is_not_an_input_row')
    # refinement of IF.writer.write: the record itself is appended to the caller's output table and never refused
    ghost_update(self.offered, old(self.offered) + [old(contents(fields))])
    ghost_update(self.refused, not result)
    ghost_update(is_owned_below(fields), True)
    ensures(result, 'never_refuses')
    ensures(len(self.table) == len(old(contents(self.table))) + 1 and same(contents(self.table)[len(self.table) - 1], fields)
            and contents(self.table)[:len(self.table) - 1] == old(contents(self.table)), 'record_appended_to_the_output_table')
    ensures(contents(fields) == old(contents(fields)), 'record_unchanged')
    ensures(self.offered == old(self.offered) + [old(contents(fields))] and self.refused == (not result) and self.finished == old(self.finished) and is_owned_below(fields), 'interface_typestate')
    modifies(field(self, 'offered'), field(self, 'refused'), contents(self.table))


@contract('rbql_engine.TableWriter.set_header', name='C07.table_writer.set_header', props=['C07', 'C13'])
def _(self: Obj['rbql_engine.TableWriter'], header: Opt[List[Str]]):
    ensures(is_none(self.header) == is_none(header) and implies(not is_none(header), same(opt_val(self.header), opt_val(header))), 'header_kept_for_the_caller')
    ensures(contents(self.table) == old(contents(self.table)), 'table_untouched')
    modifies(field(self, 'header'))


# ---------------------------------------------------------------- ListTableRegistry (C16/C13: every lookup hands out a NEW, unread iterator)
namedtuple_types('rbql_engine.ListTableInfo', table_id=Str, table=List[List[Cell]], column_names=Opt[List[Str]])
classdef('rbql_engine.ListTableRegistry', bases=['rbql_engine.RBQLTableRegistry'], fields=dict(table_infos=List[NT['rbql_engine.ListTableInfo']], normalize_column_names=Bool))


@contract('rbql_engine.ListTableRegistry.get_iterator_by_table_id', name='C16.list_registry.lookup', props=['C16', 'C13'], store_policy='none')
def _(self: Obj['rbql_engine.ListTableRegistry'], table_id: Str, single_char_alias: Str) -> Opt[Obj['rbql_engine.TableIterator']]:
    requires(forall(Int, lambda i: implies(0 <= i and i < len(self.table_infos), allocated(contents(self.table_infos)[i].table)
                                           and forall(Int, lambda k: implies(0 <= k and k < len(contents(self.table_infos)[i].table), is_src(contents(contents(self.table_infos)[i].table)[k]))))), 'registered_tables_are_sources')
    loop_types(0, table_info=NT['rbql_engine.ListTableInfo'])
    invariant(0, 0 <= __i and __i <= len(self.table_infos) and contents(self.table_infos) == old(contents(self.table_infos)), 'idx')
    # queries sharing one registry do not share iterator state: every lookup creates a new iterator positioned at the first record
    ensures(implies(not is_none(result), is_fresh(opt_val(result)) and opt_val(result).pos == 0 and opt_val(result).NR == 0), 'a_new_unread_iterator')
    ensures(contents(self.table_infos) == old(contents(self.table_infos)), 'registry_unchanged')
    modifies(fresh_only())


# ---------------------------------------------------------------- query_table: the list front end (C13 entry point, C07 names handed back, C15 unused writer)
@contract('rbql_engine.ensure_no_ambiguous_variables', name='C09.direct_names_ambiguity', props=['C09', 'C14'])
def _(query_text: Str, input_column_names: List[Str], join_column_names: List[Str]):
    # direct mode: a column name that both tables have and that occurs in the query text is a parsing error (before anything runs);
    # a shared name the query does not mention is not
    loop_types(0, column_name=Str)
    local_types(join_column_names_set=Set[Str])
    invariant(0, 0 <= __i and __i <= len(input_column_names), 'idx')
    invariant(0, forall(Int, lambda j: implies(0 <= j and j < __i, not (contents(input_column_names)[j] in contents(join_column_names) and query_text.find(contents(input_column_names)[j]) != -1))), 'no_shared_name_used_so_far')
    ensures(forall(Int, lambda j: implies(0 <= j and j < len(input_column_names),
                                           not (contents(input_column_names)[j] in contents(join_column_names) and query_text.find(contents(input_column_names)[j]) != -1))), 'no_used_name_is_in_both_tables')
    ensures(contents(input_column_names) == old(contents(input_column_names)) and contents(join_column_names) == old(contents(join_column_names)), 'names_untouched')
    raises('rbql_engine.RbqlParsingError', exists(Int, lambda j: 0 <= j and j < len(input_column_names)
                                                  and contents(input_column_names)[j] in contents(join_column_names) and query_text.find(contents(input_column_names)[j]) != -1), 'a_used_name_is_in_both_tables')


@contract('rbql_engine.ListTableRegistry.__init__', name='C13.list_registry.init', props=['C13', 'C16'], store_policy='none')
def _(self: Obj['rbql_engine.ListTableRegistry'], table_infos: List[NT['rbql_engine.ListTableInfo']], normalize_column_names: Bool):
    ensures(same(self.table_infos, table_infos) and self.normalize_column_names == normalize_column_names, 'registered_as_given')
    ensures(contents(table_infos) == old(contents(table_infos)), 'infos_untouched')
    modifies(self)


@pred
def same_opt_list(a, b):
    return is_none(a) == is_none(b) and implies(not is_none(a), same(opt_val(a), opt_val(b)))


@contract('rbql_engine.query_table', name='C13.query_table', props=['C13', 'C07', 'C15', 'C09'], store_policy='none')
def _(query_text: Str, input_table: List[List[Cell]], output_table: List[List[Cell]], output_warnings: List[Str], join_table: Opt[List[List[Cell]]],
      input_column_names: Opt[List[Str]], join_column_names: Opt[List[Str]], output_column_names: Opt[List[Str]], normalize_column_names: Bool, user_init_code: Str):
    # ghost definition: the rows of the caller's tables are the sources of this query
    requires(forall(Int, lambda k: implies(0 <= k and k < len(input_table), is_src(contents(input_table)[k]))), 'input_rows_are_sources')
    requires(implies(not is_none(join_table), forall(Int, lambda k: implies(0 <= k and k < len(opt_val(join_table)), is_src(contents(opt_val(join_table))[k])))), 'join_rows_are_sources')
    local_types(input_iterator=Obj['rbql_engine.TableIterator'], output_writer=Obj['rbql_engine.TableWriter'], join_tables_registry=Opt[Obj['rbql_engine.ListTableRegistry']])
    loop_types(0, column_name=Str)
    # what is proved here are the obligations at the call sites: the direct-mode ambiguity check runs before anything else, the engine gets a
    # new iterator over the caller's input table, a new unused writer over the caller's output table (preconditions of C15.query) and a
    # registry that knows the join table as b and B; afterwards the header the engine gave the writer is copied, name by name, in order:
    cut('query(query_text', same(input_iterator.table, input_table) and input_iterator.pos == 0 and table_iter_inv(input_iterator) and input_iterator.normalize_column_names == normalize_column_names
        and input_iterator.variable_prefix == 'a' and is_none(input_iterator.column_names) == is_none(input_column_names)
        and implies(not is_none(input_column_names), same(opt_val(input_iterator.column_names), opt_val(input_column_names))), 'engine_reads_the_callers_input_table_under_the_callers_names')
    cut('query(query_text', same(output_writer.table, output_table) and is_none(output_writer.header) and fresh_writer(output_writer) and not output_writer.sorted_iface
        and output_writer.header_calls == 0 and not same(output_writer, input_iterator) and contents(output_table) == old(contents(output_table)), 'engine_writes_to_the_callers_output_table_through_an_unused_writer')
    cut('query(query_text', is_none(join_tables_registry) == is_none(join_table)
        and implies(not is_none(join_table), len(opt_val(join_tables_registry).table_infos) == 2 and opt_val(join_tables_registry).normalize_column_names == normalize_column_names
                    and contents(opt_val(join_tables_registry).table_infos)[0].table_id == 'b' and contents(opt_val(join_tables_registry).table_infos)[1].table_id == 'B'
                    and same(contents(opt_val(join_tables_registry).table_infos)[0].table, opt_val(join_table)) and same(contents(opt_val(join_tables_registry).table_infos)[1].table, opt_val(join_table))
                    and same_opt_list(contents(opt_val(join_tables_registry).table_infos)[0].column_names, join_column_names) and same_opt_list(contents(opt_val(join_tables_registry).table_infos)[1].column_names, join_column_names)), 'join_table_is_registered_as_b_and_B_under_the_callers_names')
    cut('query(query_text', contents(input_table) == old(contents(input_table)) and implies(not is_none(join_table), contents(opt_val(join_table)) == old(contents(opt_val(join_table)))), 'nothing_touched_before_the_engine_runs')
    # (query() may change anything -- its contract says nothing about which list the header is -- hence the guard: the caller's names list is not the header list itself)
    invariant(0, not is_none(output_column_names) and not is_none(output_writer.header) and 0 <= __i and __i <= len(opt_val(output_writer.header)), 'idx')
    invariant(0, implies(not same(opt_val(output_column_names), opt_val(output_writer.header)),
                         len(opt_val(output_column_names)) == __i and contents(opt_val(output_column_names)) == contents(opt_val(output_writer.header))[:__i]), 'names_copied_so_far')
    raises('rbql_engine.RbqlParsingError', True, 'query_error')
    raises('rbql_engine.RbqlRuntimeError', True, 'query_error')
    raises('rbql_engine.RbqlIOHandlingError', True, 'query_error')
    raises('SyntaxError', True, 'query_error')
    raises('AssertionError', True, 'query_error_or_nonempty_names_list')
    modifies(anything())
