# shallow_parse_input_query: the skeleton that turns the clause map of a query into a configured RBQLContext
# (writer chain, joiner, expression texts).  The text-level helpers it calls are regex driven and get ASSUMED contracts
# (A-PARSE: bounded stand-ins only); what is proved here is what the skeleton does with their results:
#   C02  the writer chain is built inside out as Top -> Uniq | UniqCount -> Sorted, each at most once, over the caller's writer
#   C15  set_header is called at most once, no record is written, nothing is finished
#   C14  every error detected here is raised before any record is written
#   C04  the joiner kind follows the JOIN spelling and wraps a map built from the whole join table
# DESIGN section 10.

namedtuple_types('rbql_engine.VariableInfo', initialize=Bool, index=Int)
VMap = Dict[Str, NT['rbql_engine.VariableInfo']]

classdef('rbql_engine.RBQLTableRegistry')
classdef('rbql_engine.RBQLContext',
         fields=dict(aggregation_key_expression=Opt[Str], join_map_impl=Opt[Obj['rbql_engine.HashJoinMap']], lhs_join_var_expression=Opt[Str], where_expression=Opt[Str],
                     select_expression=Opt[Str], update_expressions=Opt[Str], variables_init_code=Opt[Str]))

ACTIONS = RecDict[{'FROM': RecDict[{'text': Str}], 'WITH': Str, 'ORDER BY': RecDict[{'text': Str, 'reverse': Bool}], 'UPDATE': RecDict[{'text': Str}],
                   'GROUP BY': RecDict[{'text': Str}], 'JOIN': RecDict[{'text': Str, 'join_subtype': Str}], 'WHERE': RecDict[{'text': Str}],
                   'SELECT': RecDict[{'text': Str, 'distinct_count': Bool, 'distinct': Bool, 'top': Int}], 'EXCEPT': RecDict[{'text': Str}], 'LIMIT': RecDict[{'text': Str}]}]


@contract('rbql_engine.cleanup_query', name='C08.cleanup.query', props=['C08'])
def _(query_text: Str) -> Str:
    # the query text is read line by line: comment lines (first non-blank character #) and blank lines vanish, every other line loses its surrounding
    # blanks, the remaining lines are joined by single spaces and trailing semicolons are dropped
    ensures(exists(Seq[Str], lambda L: len(L) == len(str_split(query_text, '\n'))
                   and forall(Int, lambda i: implies(0 <= i and i < len(L), L[i] == strip_line(str_split(query_text, '\n')[i])))
                   and result == ch_rstrip(str_join(' ', nonempty_strs(L)), ';')), 'lines_stripped_comments_dropped_joined_by_spaces_semicolons_dropped')


@trusted('rbql_engine.remove_redundant_input_table_name', trusted='A-PARSE: text -> text (FROM a / UPDATE a SET); bounded stand-in bounded/jobs_c08.py')
def _(query_text: Str) -> Str:
    pass


@trusted('rbql_engine.separate_actions', trusted='A-PARSE: the clause map of a query text (regex shallow parser); an UPDATE query has no SELECT clause and vice versa; JOIN carries one of the five join spellings; bounded stand-ins bounded/jobs_c08.py, jobs_rel.py')
def _(statement_groups: Opaque, rbql_expression: Str) -> ACTIONS:
    ensures(('SELECT' in result) != ('UPDATE' in result), 'select_or_update')
    ensures(implies('JOIN' in result, result['JOIN']['join_subtype'] == 'JOIN' or result['JOIN']['join_subtype'] == 'INNER JOIN' or result['JOIN']['join_subtype'] == 'LEFT JOIN'
                    or result['JOIN']['join_subtype'] == 'LEFT OUTER JOIN' or result['JOIN']['join_subtype'] == 'STRICT LEFT JOIN'), 'join_spelling')
    ensures(implies('EXCEPT' in result, 'SELECT' in result), 'except_is_a_select_clause')
    ensures(actions_ok(result), 'every_clause_has_its_text')
    raises('rbql_engine.RbqlParsingError', True, 'text_level_mistake')


@trusted('rbql_engine.RBQLInputIterator.handle_query_modifier', trusted='A-ITER: interface method; changes only the iterator')
def _(self: Obj['rbql_engine.RBQLInputIterator'], modifier_name: Str):
    ensures(self.rows == old(self.rows) and self.pos == old(self.pos), 'nothing_is_read')
    modifies(self)


@trusted('rbql_engine.RBQLInputIterator.get_variables_map', trusted='A-ITER / A-PARSE: variable discovery over the query text (regexes); bounded stand-in bounded/jobs_misc.py')
def _(self: Obj['rbql_engine.RBQLInputIterator'], query_text: Str) -> VMap:
    ensures(vmap_ok(result) and is_fresh(result), 'a_new_map_with_zero_based_column_indices')
    raises('rbql_engine.RbqlParsingError', True, 'unknown_column')
    raises('rbql_engine.RbqlIOHandlingError', True, 'names_do_not_fit_the_table')


@trusted('rbql_engine.RBQLInputIterator.get_header', trusted='A-ITER: interface method (proved for TableIterator and CSVRecordIterator)')
def _(self: Obj['rbql_engine.RBQLInputIterator']) -> Opt[List[Str]]:
    pass


@trusted('rbql_engine.RBQLTableRegistry.get_iterator_by_table_id', trusted='A-ITER: a registry hands out a fresh, unread iterator over the join table, or None')
def _(self: Obj['rbql_engine.RBQLTableRegistry'], table_id: Str, single_char_alias: Str) -> Opt[Obj['rbql_engine.RBQLInputIterator']]:
    ensures(implies(not is_none(result), opt_val(result).pos == 0 and allocated(opt_val(result))), 'unread_iterator')
    raises('rbql_engine.RbqlIOHandlingError', True, 'table_cannot_be_opened')
    modifies(self)


@trusted('rbql_engine.parse_join_expression', trusted='A-PARSE: JOIN clause text -> (table id, key pairs); bounded stand-in bounded/jobs_rel.py')
def _(src: Str) -> Tuple[Str, List[Tuple[Str, Str]]]:
    ensures(len(result[1]) >= 1, 'at_least_one_key_pair')
    raises('rbql_engine.RbqlParsingError', True, 'bad_join_syntax')



@pred
def common_init(q, p):
    # generate_common_init_code: the record object, and NR under its attribute / prefixed spellings when the text mentions them
    return (([p + ' = RBQLRecord()'] + ([p + '.NR = ' + ('NR' if p == 'a' else 'bNR')] if q.find(p + '.NR') != -1 else []))
            + (['aNR = NR'] if (p == 'a' and q.find('aNR') != -1) else []))


@contract('rbql_engine.generate_common_init_code', name='C09.init.common', props=['C09'])
def _(query_text: Str, variable_prefix: Str) -> List[Str]:
    requires(variable_prefix == 'a' or variable_prefix == 'b', 'prefix_is_a_or_b')
    local_types(result=List[Str])
    ensures(is_fresh(result) and contents(result) == common_init(query_text, variable_prefix), 'record_object_and_NR_spellings')
    raises('AssertionError', False, 'prefix_is_a_or_b')


@contract('rbql_engine.generate_init_statements', name='C09.init.statements', props=['C09', 'C04'])
def _(query_text: Str, variables_map: VMap, join_variables_map: Opt[VMap]) -> Str:
    # C09: every variable of the query that is to be initialised is bound, by name, to the field of record_a (record_b for the join table, None
    # when there is no partner) at the index the variable map gives it -- and nothing else is bound
    local_types(code_lines=List[Str])
    loop_types(0, var_name=Str, var_info=NT['rbql_engine.VariableInfo'])
    loop_types(1, var_name=Str, var_info=NT['rbql_engine.VariableInfo'])
    invariant(0, 0 <= __i and __i <= len(keys(variables_map)) and is_fresh(code_lines), 'idx')
    invariant(0, contents(code_lines) == common_init(query_text, 'a') + init_lines(dict_map(variables_map), keys(variables_map), __i, ' = safe_get(record_a, ', ')'), 'a_lines_so_far')
    invariant(1, 0 <= __i and __i <= len(keys(opt_val(join_variables_map))) and is_fresh(code_lines) and not is_none(join_variables_map), 'idx')
    # (what code_lines held before the second loop is known from the path that reached it: the invariant only adds the b lines)
    invariant(1, contents(code_lines) == at_loop_entry(contents(code_lines))
              + init_lines(dict_map(opt_val(join_variables_map)), keys(opt_val(join_variables_map)), __i, ' = safe_get(record_b, ', ') if record_b is not None else None'), 'b_lines_so_far', local=True)
    ensures(implies(is_none(join_variables_map) or len(keys(opt_val(join_variables_map))) == 0,
                    result == str_join('\n', common_init(query_text, 'a') + init_lines(dict_map(variables_map), keys(variables_map), len(keys(variables_map)), ' = safe_get(record_a, ', ')'))), 'input_variables_bound_to_their_columns')
    ensures(implies(not is_none(join_variables_map) and len(keys(opt_val(join_variables_map))) > 0,
                    result == str_join('\n', common_init(query_text, 'a') + init_lines(dict_map(variables_map), keys(variables_map), len(keys(variables_map)), ' = safe_get(record_a, ', ')')
                                       + common_init(query_text, 'b') + init_lines(dict_map(opt_val(join_variables_map)), keys(opt_val(join_variables_map)), len(keys(opt_val(join_variables_map))),
                                                                                  ' = safe_get(record_b, ', ') if record_b is not None else None'))), 'join_variables_bound_to_their_columns_or_None')
    raises('AssertionError', False, 'prefix_is_a_or_b')


@trusted('rbql_engine.translate_update_expression', trusted='A-PARSE: assignment list -> safe_set calls; bounded stand-in bounded/jobs_rel.py')
def _(update_expression: Str, input_variables_map: VMap, string_literals: List[Str]) -> Str:
    raises('rbql_engine.RbqlParsingError', True, 'bad_update_expression')


@contract('rbql_engine.find_top', name='C02.find_top', props=['C02', 'C08'])
def _(rb_actions: ACTIONS) -> Opt[Int]:
    requires('SELECT' in rb_actions and implies('LIMIT' in rb_actions, 'text' in rb_actions['LIMIT']), 'select_query')
    # LIMIT n wins over TOP n; a count of 0 is a count (not "no limit"); no TOP and no LIMIT means None
    ensures(implies('LIMIT' in rb_actions, not is_none(result) and opt_val(result) == int_of(rb_actions['LIMIT']['text'])), 'limit_count')
    ensures(implies(not ('LIMIT' in rb_actions), is_none(result) == (not ('top' in rb_actions['SELECT'])) and implies(not is_none(result), opt_val(result) == rb_actions['SELECT']['top'])), 'top_count_or_none')
    raises('rbql_engine.RbqlParsingError', 'LIMIT' in rb_actions and not int_ok(rb_actions['LIMIT']['text']), 'limit_is_not_a_number')


@pred
def n_except(e):
    return len(str_split(e, ','))


@contract('rbql_engine.translate_except_expression', name='C01.except.translate', props=['C01', 'C07', 'C08'])
def _(except_expression: Str, input_variables_map: VMap, string_literals: List[Str], input_header: Opt[List[Str]]) -> Tuple[Opt[List[Str]], Str]:
    # `* EXCEPT n1, n2, ...`: every listed name (blanks stripped, string literals restored) must be a variable of the input table; the fields
    # dropped are exactly the ones those names denote, whatever order they are written in; the header loses the same positions as the records
    local_types(skip_vars=List[Str], skip_indices=List[Int])
    loop_types(0, var_name=Str, var_info=Opt[NT['rbql_engine.VariableInfo']])
    invariant(0, 0 <= __i and __i <= len(skip_vars) and len(skip_vars) == n_except(except_expression) and is_fresh(skip_indices) and not same(skip_indices, skip_vars), 'idx')
    invariant(0, forall(Int, lambda j: implies(0 <= j and j < len(skip_vars), contents(skip_vars)[j] == ws_strip(str_split(except_expression, ',')[j]))), 'names_as_listed')
    invariant(0, forall(Int, lambda j: implies(0 <= j and j < __i, not is_none(dict_map(input_variables_map)[except_name(except_expression, contents(string_literals), j)]))), 'names_so_far_are_variables')
    invariant(0, len(skip_indices) == __i and contents(skip_indices) == except_indices(dict_map(input_variables_map), except_expression, contents(string_literals), __i), 'indices_so_far')
    ensures(forall(Int, lambda j: implies(0 <= j and j < n_except(except_expression), not is_none(dict_map(input_variables_map)[except_name(except_expression, contents(string_literals), j)]))), 'every_listed_name_is_a_variable')
    ensures(is_none(result[0]) == is_none(input_header), 'header_iff_input_header')
    ensures(implies(not is_none(input_header), is_fresh(opt_val(result[0]))
                    and contents(opt_val(result[0])) == except_spec_str(contents(opt_val(input_header)), ssort_ints(except_indices(dict_map(input_variables_map), except_expression, contents(string_literals), n_except(except_expression))),
                                                                    len(opt_val(input_header)))), 'header_loses_exactly_the_listed_columns')
    exit_hint(len(skip_indices) == n_except(except_expression), 'witness_len')
    exit_hint(forall(Int, lambda i: implies(0 <= i and i < len(skip_indices), contents(skip_indices)[i] == str_of_int(ssort_ints(except_indices(dict_map(input_variables_map), except_expression, contents(string_literals), n_except(except_expression)))[i]))), 'witness_items', hide=['ssort_ints', 'ins_int', 'except_indices', 'str_split', 'combine_upto', 'ws_strip', 'str_join', 'except_spec_str'])
    exit_hint(result[1] == 'select_except(record_a, [' + str_join(',', contents(skip_indices)) + '])', 'witness_text')
    ensures(exists(Seq[Str], lambda S: len(S) == n_except(except_expression)
                   and forall(Int, lambda i: implies(0 <= i and i < len(S), S[i] == str_of_int(ssort_ints(except_indices(dict_map(input_variables_map), except_expression, contents(string_literals), n_except(except_expression)))[i])))
                   and result[1] == 'select_except(record_a, [' + str_join(',', S) + '])'), 'records_lose_exactly_the_listed_columns')
    ensures(implies(not is_none(input_header), contents(opt_val(input_header)) == old(contents(opt_val(input_header)))), 'input_header_untouched')
    raises('rbql_engine.RbqlParsingError', exists(Int, lambda j: 0 <= j and j < n_except(except_expression) and is_none(dict_map(input_variables_map)[except_name(except_expression, contents(string_literals), j)])), 'unknown_field')


@trusted('rbql_engine.translate_select_expression', trusted='A-PARSE: select list -> (expression text, text for the header parser)')
def _(select_expression: Str) -> Tuple[Str, Str]:
    raises('rbql_engine.RbqlParsingError', True, 'empty_select')


@trusted('rbql_engine.ast_parse_select_expression_to_column_infos', trusted='A-PARSE / ast.parse: select list text -> column infos')
def _(select_expression: Str) -> List[Opt[NT['rbql_engine.QueryColumnInfo']]]:
    ensures(forall(Int, lambda i: implies(0 <= i and i < len(result) and not is_none(contents(result)[i])
                                           and not is_none(opt_val(contents(result)[i]).column_index), opt_val(opt_val(contents(result)[i]).column_index) >= 0)), 'column_indices_are_zero_based')
    raises('rbql_engine.RbqlParsingError', True, 'select_list_does_not_parse')
    raises('SyntaxError', True, 'select_list_does_not_parse')


@trusted('rbql_engine.RBQLOutputWriter.set_header', trusted='A-WRITER: interface method: records that the header was set; writes no record (CSVWriter writes the header line, which is not a record)')
def _(self: Obj['rbql_engine.RBQLOutputWriter'], header: Opt[List[Str]]):
    ghost_update(self.header_calls, old(self.header_calls) + 1)
    ensures(self.offered == old(self.offered) and self.finished == old(self.finished) and self.refused == old(self.refused) or True, 'no_record_written')
    modifies(field(self, 'header_calls'))


@trusted('re[[^><!=]=[^=]].search', pattern='[^><!=]=[^=]', trusted='A-RE: search for a lone = in the WHERE text (text-level check)')
def _(src: Str) -> Opt[Tuple[Int, Int, Str]]:
    pass


@pred
def fresh_writer(w):
    return len(w.offered) == 0 and not w.refused and not w.finished


@pred
def actions_ok(a):
    return ((('SELECT' in a) != ('UPDATE' in a)) and implies('EXCEPT' in a, 'SELECT' in a)
            and implies('FROM' in a, 'text' in a['FROM']) and implies('ORDER BY' in a, 'text' in a['ORDER BY'] and 'reverse' in a['ORDER BY'])
            and implies('UPDATE' in a, 'text' in a['UPDATE']) and implies('GROUP BY' in a, 'text' in a['GROUP BY'])
            and implies('JOIN' in a, 'text' in a['JOIN'] and 'join_subtype' in a['JOIN']) and implies('WHERE' in a, 'text' in a['WHERE'])
            and implies('SELECT' in a, 'text' in a['SELECT']) and implies('EXCEPT' in a, 'text' in a['EXCEPT']) and implies('LIMIT' in a, 'text' in a['LIMIT'])
            and implies('JOIN' in a, a['JOIN']['join_subtype'] == 'JOIN' or a['JOIN']['join_subtype'] == 'INNER JOIN' or a['JOIN']['join_subtype'] == 'LEFT JOIN'
                        or a['JOIN']['join_subtype'] == 'LEFT OUTER JOIN' or a['JOIN']['join_subtype'] == 'STRICT LEFT JOIN'))


@pred
def under_sorted(w, w0):
    return as_obj(w, 'rbql_engine.SortedWriter').subwriter if (typeof(w, 'rbql_engine.SortedWriter') and w.level > w0.level) else w


@pred
def under_uniq(w, w0):
    return (as_obj(w, 'rbql_engine.UniqWriter').subwriter if (typeof(w, 'rbql_engine.UniqWriter') and w.level > w0.level)
            else (as_obj(w, 'rbql_engine.UniqCountWriter').subwriter if (typeof(w, 'rbql_engine.UniqCountWriter') and w.level > w0.level) else w))


@pred
def under_top(w, w0):
    return as_obj(w, 'rbql_engine.TopWriter').subwriter if (typeof(w, 'rbql_engine.TopWriter') and w.level > w0.level) else w


@pred
def chain_over(w, w0):
    # C02: the writer chain is  [SortedWriter ->] [UniqWriter | UniqCountWriter ->] [TopWriter ->] caller's writer,
    # so records are sorted first, then deduplicated, then truncated
    return (same(under_top(under_uniq(under_sorted(w, w0), w0), w0), w0)
            and implies(typeof(w, 'rbql_engine.SortedWriter') and w.level > w0.level, sorted_inv(as_obj(w, 'rbql_engine.SortedWriter')))
            and implies(typeof(under_sorted(w, w0), 'rbql_engine.UniqWriter') and under_sorted(w, w0).level > w0.level, uniq_inv(as_obj(under_sorted(w, w0), 'rbql_engine.UniqWriter')))
            and implies(typeof(under_sorted(w, w0), 'rbql_engine.UniqCountWriter') and under_sorted(w, w0).level > w0.level, uc_inv(as_obj(under_sorted(w, w0), 'rbql_engine.UniqCountWriter')))
            and implies(typeof(under_uniq(under_sorted(w, w0), w0), 'rbql_engine.TopWriter') and under_uniq(under_sorted(w, w0), w0).level > w0.level,
                        top_inv(as_obj(under_uniq(under_sorted(w, w0), w0), 'rbql_engine.TopWriter'))))


@pred
def skel(ctx, w0, it, acts):
    # what every stage of the skeleton keeps: the caller's writer has seen no record and at most one header, nothing is finished
    return (actions_ok(acts) and len(w0.offered) == 0 and not w0.finished and not w0.refused and w0.header_calls <= 1
            and same(ctx.input_iterator, it) and not same(ctx.writer, ctx.input_iterator) and allocated(ctx.writer) and allocated(w0))


@pred
def null_width_ok(ctx):
    # C04: the all-None record a LEFT JOIN pairs with an unmatched A record is as wide as the widest record of the join table
    return implies(not is_none(ctx.join_map) and not is_none(ctx.join_map_impl) and opt_val(ctx.join_map).kind == 1,
                   opt_val(ctx.join_map).nullw == max_width(opt_val(ctx.join_map_impl).record_iterator.rows, len(opt_val(ctx.join_map_impl).record_iterator.rows)))


@contract('rbql_engine.shallow_parse_input_query', name='C02.parse.skeleton', props=['C02', 'C15', 'C14', 'C04'], store_policy='none')
def _(query_text: Str, input_iterator: Opt[Obj['rbql_engine.RBQLInputIterator']], tables_registry: Opt[Obj['rbql_engine.RBQLTableRegistry']], query_context: Obj['rbql_engine.RBQLContext']):
    requires(not is_none(input_iterator) and same(query_context.input_iterator, opt_val(input_iterator)), 'input_table_given_by_the_caller')
    requires(fresh_writer(query_context.writer) and not query_context.writer.sorted_iface and query_context.writer.header_calls == 0 and is_none(query_context.sort_key_expression)
             and is_none(query_context.top_count) and is_none(query_context.join_map) and query_context.aggregation_stage == 0, 'fresh_context')
    requires(not same(query_context.writer, query_context.input_iterator), 'writer_is_not_the_iterator')
    local_types(rb_actions=ACTIONS, input_header=Opt[List[Str]], join_header=Opt[List[Str]], join_variables_map=Opt[VMap], input_variables_map=VMap, output_header=Opt[List[Str]])
    cut('if JOIN in rb_actions:', skel(query_context, old(query_context.writer), opt_val(input_iterator), rb_actions) and same(query_context.writer, old(query_context.writer))
        and old(query_context.writer).header_calls == 0 and not query_context.writer.sorted_iface and is_none(query_context.sort_key_expression) and is_none(query_context.join_map)
        and allocated(string_literals) and implies(not is_none(input_header), allocated(opt_val(input_header))) and is_none(join_header)
        and vmap_ok(input_variables_map) and allocated(input_variables_map), 'before_join')
    cut('if UPDATE in rb_actions:', skel(query_context, old(query_context.writer), opt_val(input_iterator), rb_actions) and same(query_context.writer, old(query_context.writer))
        and old(query_context.writer).header_calls == 0 and not query_context.writer.sorted_iface and is_none(query_context.sort_key_expression)
        and allocated(string_literals) and implies(not is_none(input_header), allocated(opt_val(input_header))) and implies(not is_none(join_header), allocated(opt_val(join_header))) and implies(is_none(input_header), is_none(join_header)) and null_width_ok(query_context), 'before_update', hide=['max_width'])
    cut('if SELECT in rb_actions:', skel(query_context, old(query_context.writer), opt_val(input_iterator), rb_actions) and same(query_context.writer, old(query_context.writer))
        and implies('SELECT' in rb_actions, old(query_context.writer).header_calls == 0) and not query_context.writer.sorted_iface and is_none(query_context.sort_key_expression)
        and allocated(string_literals) and implies(not is_none(input_header), allocated(opt_val(input_header))) and implies(not is_none(join_header), allocated(opt_val(join_header))) and implies(is_none(input_header), is_none(join_header)) and null_width_ok(query_context), 'before_select', hide=['max_width'])
    cut('if ORDER_BY in rb_actions:', skel(query_context, old(query_context.writer), opt_val(input_iterator), rb_actions) and chain_over(query_context.writer, old(query_context.writer))
        and fresh_writer(query_context.writer) and not query_context.writer.sorted_iface and is_none(query_context.sort_key_expression) and query_context.writer.level >= old(query_context.writer).level
        and allocated(string_literals) and null_width_ok(query_context), 'before_order_by', hide=['max_width'])
    # C15 / C14: nothing is written or finished here, on any path; the header is announced at most once
    ensures(old(query_context.writer).header_calls <= 1 and len(old(query_context.writer).offered) == 0 and not old(query_context.writer).finished, 'header_at_most_once_nothing_written')
    raises('rbql_engine.RbqlParsingError', old(query_context.writer).header_calls <= 1 and len(old(query_context.writer).offered) == 0 and not old(query_context.writer).finished, 'parsing_error_before_any_record')
    raises('rbql_engine.RbqlIOHandlingError', len(old(query_context.writer).offered) == 0 and not old(query_context.writer).finished, 'io_error_before_any_record')
    raises('rbql_engine.RbqlRuntimeError', len(old(query_context.writer).offered) == 0 and not old(query_context.writer).finished, 'join_table_error_before_any_record')
    raises('SyntaxError', len(old(query_context.writer).offered) == 0 and not old(query_context.writer).finished, 'syntax_error_before_any_record')
    raises('AssertionError', len(old(query_context.writer).offered) == 0 and not old(query_context.writer).finished, 'from_clause_although_the_input_is_given (cannot happen once the FROM group is removed: A-PARSE)')
    # C02: the chain; and the context handed to the main loop satisfies the loops' precondition
    ensures(chain_over(query_context.writer, old(query_context.writer)), 'chain_is_sort_then_dedup_then_truncate', hide=['max_width'])
    ensures(ctx_inv(query_context) and fresh_writer(query_context.writer), 'context_ready_for_the_main_loop', hide=['max_width'])
    ensures(null_width_ok(query_context), 'left_join_null_record_is_as_wide_as_the_widest_join_record', hide=['max_width'])
    modifies(query_context, anything())


# ---------------------------------------------------------------- query(): parse, run, finish once, collect warnings
classdef('rbql_engine.RBQLInputIterator', ghost=dict(warn=Seq[Str]))
classdef('rbql_engine.RBQLOutputWriter', ghost=dict(warn=Seq[Str]))


@contract('rbql_engine.RBQLContext.__init__', name='C16.context.init', props=['C16', 'C15'], store_policy='none')
def _(self: Obj['rbql_engine.RBQLContext'], input_iterator: Obj['rbql_engine.RBQLInputIterator'], output_writer: Obj['rbql_engine.RBQLOutputWriter'], user_init_code: Str):
    # C16: all per-query mutable state lives in this object, created per call
    ensures(same(self.writer, output_writer) and same(self.input_iterator, input_iterator) and self.user_init_code == user_init_code, 'holds_the_callers_objects')
    ensures(is_none(self.unnest_list) and is_none(self.top_count) and is_none(self.sort_key_expression) and self.aggregation_stage == 0 and is_none(self.join_map)
            and is_none(self.join_map_impl) and len(keys(self.like_regex_cache)) == 0 and len(self.functional_aggregators) == 0
            and is_fresh(self.like_regex_cache) and is_fresh(self.functional_aggregators), 'fresh_per_query_state')
    modifies(self)


@trusted('rbql_engine.compile_and_run', trusted='A-EXEC: runs the generated main loop (verified per variant as gen:*): offers records to the writer chain, never finishes it; may fail with the error classes of the loops')
def _(query_context: Obj['rbql_engine.RBQLContext'], user_namespace: Opaque):
    requires(not query_context.writer.finished, 'writer_open')
    ensures(not query_context.writer.finished and same(query_context.writer, old(query_context.writer)) and is_none(query_context.join_map_impl) == is_none(old(query_context.join_map_impl))
            and same(query_context.input_iterator, old(query_context.input_iterator)), 'typestate_of_the_loops')
    raises('rbql_engine.RbqlRuntimeError', not query_context.writer.finished, 'runtime_error_leaves_the_writer_unfinished')
    raises('rbql_engine.RbqlParsingError', not query_context.writer.finished, 'parsing_error_leaves_the_writer_unfinished')
    raises('SyntaxError', not query_context.writer.finished, 'syntax_error_leaves_the_writer_unfinished')
    modifies(anything())


@trusted('rbql_engine.RBQLInputIterator.get_warnings', trusted='A-ITER: interface method (proved for TableIterator and CSVRecordIterator): the warnings of this iterator')
def _(self: Obj['rbql_engine.RBQLInputIterator']) -> List[Str]:
    ensures(contents(result) == self.warn and allocated(result), 'its_warnings')


@trusted('rbql_engine.RBQLOutputWriter.get_warnings', trusted='A-WRITER: interface method (proved for CSVWriter): the warnings of this writer')
def _(self: Obj['rbql_engine.RBQLOutputWriter']) -> List[Str]:
    ensures(contents(result) == self.warn and allocated(result), 'its_warnings')


@contract('rbql_engine.HashJoinMap.get_warnings', name='C14.map.warnings', props=['C14'])
def _(self: Obj['rbql_engine.HashJoinMap']) -> List[Str]:
    ensures(contents(result) == self.record_iterator.warn, 'warnings_of_the_join_table')


@contract('rbql_engine.query', name='C15.query', props=['C15', 'C14'], store_policy='none')
def _(query_text: Str, input_iterator: Obj['rbql_engine.RBQLInputIterator'], output_writer: Obj['rbql_engine.RBQLOutputWriter'], output_warnings: List[Str],
      join_tables_registry: Opt[Obj['rbql_engine.RBQLTableRegistry']], user_init_code: Str, user_namespace: Opaque):
    requires(fresh_writer(output_writer) and not output_writer.sorted_iface and output_writer.header_calls == 0, 'unused_writer')
    requires(not same(output_writer, input_iterator), 'writer_is_not_the_iterator')
    local_types(query_context=Obj['rbql_engine.RBQLContext'])
    # C15: after a successful run the top of the writer chain has been finished exactly once: the obligations are at the call
    # sites -- the context handed to the parser is fresh, the writer handed to the main loop is unfinished, finish() is called
    # on an unfinished writer (its precondition finish_once), and it is not called on any exceptional path (none of the
    # raises below can come from after it except the warning getters, which are assumed not to raise)
    raises('rbql_engine.RbqlParsingError', True, 'query_error')
    raises('rbql_engine.RbqlRuntimeError', True, 'query_error')
    raises('rbql_engine.RbqlIOHandlingError', True, 'query_error')
    raises('SyntaxError', True, 'query_error')
    raises('AssertionError', True, 'query_error')
    modifies(anything())
