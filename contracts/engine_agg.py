# Aggregates (C03): every aggregator keeps, per group key, a statistic that equals the mathematical aggregate of the
# values passed for that key so far (ghost history `hist`), numbers as reals (A-FLOAT).  DESIGN Appendix B.8.

classdef('rbql_engine.NumHandler', family='aggregator', fields=dict(is_int=Bool, string_detection_done=Bool, is_str=Bool))
classdef('rbql_engine.Aggregator', family='aggregator', ghost=dict(hist=Map[Key, Seq[Cell]], finalv=Map[Key, Cell]))


@pred
def parsable(v):
    # a value of a numeric column: a number, or a string that Python's float() accepts
    return is_num(v) or (is_str(v) and float_ok(sval(v)))


@contract('rbql_engine.NumHandler.__init__', name='C03.numhandler.init', props=['C03'])
def _(self: Obj['rbql_engine.NumHandler'], start_with_int: Bool):
    ensures(self.is_int == start_with_int and not self.string_detection_done and not self.is_str, 'fields')
    modifies(self)


@contract('rbql_engine.NumHandler.parse', name='C03.numhandler.parse', props=['C03', 'C14'])
def _(self: Obj['rbql_engine.NumHandler'], val: Cell) -> Cell:
    requires(is_num(val) or is_str(val), 'numeric_column_value')
    requires(implies(self.string_detection_done, is_str(val) == self.is_str), 'homogeneous_column')
    requires(implies(not self.string_detection_done, not self.is_str), 'fresh_handler')
    # numeric strings are converted to numbers with the same value; numbers pass through
    ensures(parsable(val) and is_num(result) and num(result) == numv(val), 'numeric_value')
    ensures(self.string_detection_done and self.is_str == is_str(val), 'string_detection')
    # the int -> float fallback is sticky: once a value needed float(), later values are floats too
    ensures(implies(not old(self.is_int), not self.is_int) and implies(is_str(val) and self.is_int, is_int(result)), 'float_fallback_is_sticky')
    raises('rbql_engine.RbqlRuntimeError', is_str(val) and not float_ok(sval(val))
           and exc_msg() == 'Unable to convert value "' + sval(val) + '" to int or float. MIN, MAX, SUM, AVG, MEDIAN and VARIANCE aggregate functions convert their string arguments to numeric values', 'non_numeric_value_named')
    modifies(self)


@pred
def nh_ok(h, val):
    # the handler has only seen values of val's kind (homogeneous column)
    return ((is_num(val) or is_str(val)) and implies(h.string_detection_done, is_str(val) == h.is_str)
            and implies(not h.string_detection_done, not h.is_str))


# ---------------------------------------------------------------- SUM
classdef('rbql_engine.SumAggregator', bases=['rbql_engine.Aggregator'], fields=dict(stats=DDict[Key, Cell], num_handler=Obj['rbql_engine.NumHandler']))


@pred
def sum_inv(self):
    return forall(Key, lambda k: is_num(self.stats[k] if has_key(self.stats, k) else 0)
                  and num(self.stats[k] if has_key(self.stats, k) else 0) == rsum(self.hist[k]))


@contract('rbql_engine.SumAggregator.__init__', name='C03.sum.init', props=['C03'])
def _(self: Obj['rbql_engine.SumAggregator']):
    ghost_update(self.hist, const_map(Key, empty(Cell)))
    ensures(sum_inv(self) and not self.num_handler.string_detection_done and not self.num_handler.is_str and is_fresh(self.stats) and is_fresh(self.num_handler), 'inv')
    modifies(self)


@contract('rbql_engine.SumAggregator.increment', name='C03.sum.increment', props=['C03', 'C14'])
def _(self: Obj['rbql_engine.SumAggregator'], key: Key, val: Cell):
    requires(sum_inv(self) and nh_ok(self.num_handler, val), 'inv')
    ghost_update(self.hist, map_set(old(self.hist), key, old(self.hist)[key] + [val]))
    ensures(sum_inv(self), 'running_sum_is_the_sum_of_the_group')
    ensures(self.num_handler.string_detection_done and self.num_handler.is_str == is_str(val), 'handler_kind')
    # C14: a value that is not a number is rejected here, while its record is being processed (so the error can name it)
    ensures(not (is_str(val) and not float_ok(sval(val))), 'non_numeric_value_is_rejected_at_increment')
    raises('rbql_engine.RbqlRuntimeError', is_str(val) and not float_ok(sval(val)), 'non_numeric_value')
    modifies(field(self, 'hist'), self.stats, self.num_handler)


@contract('rbql_engine.SumAggregator.get_final', name='C03.sum.final', props=['C03'])
def _(self: Obj['rbql_engine.SumAggregator'], key: Key) -> Cell:
    requires(sum_inv(self), 'inv')
    ensures(is_num(result) and num(result) == rsum(self.hist[key]), 'sum_of_group')
    ensures(sum_inv(self), 'inv')
    modifies(self.stats)


# ---------------------------------------------------------------- COUNT
classdef('rbql_engine.CountAggregator', bases=['rbql_engine.Aggregator'], fields=dict(stats=DDict[Key, Int]))


@pred
def count_inv(self):
    return forall(Key, lambda k: (self.stats[k] if has_key(self.stats, k) else 0) == len(self.hist[k]))


@contract('rbql_engine.CountAggregator.__init__', name='C03.count.init', props=['C03'])
def _(self: Obj['rbql_engine.CountAggregator']):
    ghost_update(self.hist, const_map(Key, empty(Cell)))
    ensures(count_inv(self) and is_fresh(self.stats), 'inv')
    modifies(self)


@contract('rbql_engine.CountAggregator.increment', name='C03.count.increment', props=['C03'])
def _(self: Obj['rbql_engine.CountAggregator'], key: Key, _val: Cell):
    requires(count_inv(self), 'inv')
    ghost_update(self.hist, map_set(old(self.hist), key, old(self.hist)[key] + [_val]))
    ensures(count_inv(self), 'count_is_group_size')
    modifies(field(self, 'hist'), self.stats)


@contract('rbql_engine.CountAggregator.get_final', name='C03.count.final', props=['C03'])
def _(self: Obj['rbql_engine.CountAggregator'], key: Key) -> Int:
    requires(count_inv(self), 'inv')
    ensures(result == len(self.hist[key]) and count_inv(self), 'count_of_group')
    modifies(self.stats)


# ---------------------------------------------------------------- MIN / MAX
classdef('rbql_engine.MinAggregator', bases=['rbql_engine.Aggregator'], fields=dict(stats=Dict[Key, Cell], num_handler=Obj['rbql_engine.NumHandler']))
classdef('rbql_engine.MaxAggregator', bases=['rbql_engine.Aggregator'], fields=dict(stats=Dict[Key, Cell], num_handler=Obj['rbql_engine.NumHandler']))


@pred
def min_inv(self):
    return forall(Key, lambda k: has_key(self.stats, k) == (len(self.hist[k]) >= 1)
                  and implies(has_key(self.stats, k), is_num(self.stats[k]) and num(self.stats[k]) == rmin(self.hist[k])))


@pred
def max_inv(self):
    return forall(Key, lambda k: has_key(self.stats, k) == (len(self.hist[k]) >= 1)
                  and implies(has_key(self.stats, k), is_num(self.stats[k]) and num(self.stats[k]) == rmax(self.hist[k])))


@contract('rbql_engine.MinAggregator.__init__', name='C03.min.init', props=['C03'])
def _(self: Obj['rbql_engine.MinAggregator']):
    ghost_update(self.hist, const_map(Key, empty(Cell)))
    ensures(min_inv(self) and not self.num_handler.string_detection_done and not self.num_handler.is_str, 'inv')
    modifies(self)


@contract('rbql_engine.MinAggregator.increment', name='C03.min.increment', props=['C03', 'C14'])
def _(self: Obj['rbql_engine.MinAggregator'], key: Key, val: Cell):
    requires(min_inv(self) and nh_ok(self.num_handler, val), 'inv')
    ghost_update(self.hist, map_set(old(self.hist), key, old(self.hist)[key] + [val]))
    ensures(min_inv(self), 'running_min_is_the_minimum_of_the_group')
    ensures(self.num_handler.string_detection_done and self.num_handler.is_str == is_str(val), 'handler_kind')
    # C14: a value that is not a number is rejected here, while its record is being processed (so the error can name it)
    ensures(not (is_str(val) and not float_ok(sval(val))), 'non_numeric_value_is_rejected_at_increment')
    raises('rbql_engine.RbqlRuntimeError', is_str(val) and not float_ok(sval(val)), 'non_numeric_value')
    modifies(field(self, 'hist'), self.stats, self.num_handler)


@contract('rbql_engine.MinAggregator.get_final', name='C03.min.final', props=['C03'])
def _(self: Obj['rbql_engine.MinAggregator'], key: Key) -> Cell:
    requires(min_inv(self) and len(self.hist[key]) >= 1, 'inv')
    ensures(is_num(result) and num(result) == rmin(self.hist[key]), 'min_of_group')


@contract('rbql_engine.MaxAggregator.__init__', name='C03.max.init', props=['C03'])
def _(self: Obj['rbql_engine.MaxAggregator']):
    ghost_update(self.hist, const_map(Key, empty(Cell)))
    ensures(max_inv(self) and not self.num_handler.string_detection_done and not self.num_handler.is_str, 'inv')
    modifies(self)


@contract('rbql_engine.MaxAggregator.increment', name='C03.max.increment', props=['C03', 'C14'])
def _(self: Obj['rbql_engine.MaxAggregator'], key: Key, val: Cell):
    requires(max_inv(self) and nh_ok(self.num_handler, val), 'inv')
    ghost_update(self.hist, map_set(old(self.hist), key, old(self.hist)[key] + [val]))
    ensures(max_inv(self), 'running_max_is_the_maximum_of_the_group')
    ensures(self.num_handler.string_detection_done and self.num_handler.is_str == is_str(val), 'handler_kind')
    # C14: a value that is not a number is rejected here, while its record is being processed (so the error can name it)
    ensures(not (is_str(val) and not float_ok(sval(val))), 'non_numeric_value_is_rejected_at_increment')
    raises('rbql_engine.RbqlRuntimeError', is_str(val) and not float_ok(sval(val)), 'non_numeric_value')
    modifies(field(self, 'hist'), self.stats, self.num_handler)


@contract('rbql_engine.MaxAggregator.get_final', name='C03.max.final', props=['C03'])
def _(self: Obj['rbql_engine.MaxAggregator'], key: Key) -> Cell:
    requires(max_inv(self) and len(self.hist[key]) >= 1, 'inv')
    ensures(is_num(result) and num(result) == rmax(self.hist[key]), 'max_of_group')


# ---------------------------------------------------------------- AVG / VARIANCE
classdef('rbql_engine.AvgAggregator', bases=['rbql_engine.Aggregator'], fields=dict(stats=Dict[Key, Tuple[Cell, Int]], num_handler=Obj['rbql_engine.NumHandler']))
classdef('rbql_engine.VarianceAggregator', bases=['rbql_engine.Aggregator'], fields=dict(stats=Dict[Key, Tuple[Cell, Cell, Int]], num_handler=Obj['rbql_engine.NumHandler']))


@pred
def avg_inv(self):
    return forall(Key, lambda k: has_key(self.stats, k) == (len(self.hist[k]) >= 1)
                  and implies(has_key(self.stats, k), is_num(self.stats[k][0]) and num(self.stats[k][0]) == rsum(self.hist[k]) and self.stats[k][1] == len(self.hist[k])))


@contract('rbql_engine.AvgAggregator.__init__', name='C03.avg.init', props=['C03'])
def _(self: Obj['rbql_engine.AvgAggregator']):
    ghost_update(self.hist, const_map(Key, empty(Cell)))
    ensures(avg_inv(self) and not self.num_handler.string_detection_done and not self.num_handler.is_str, 'inv')
    modifies(self)


@contract('rbql_engine.AvgAggregator.increment', name='C03.avg.increment', props=['C03', 'C14'])
def _(self: Obj['rbql_engine.AvgAggregator'], key: Key, val: Cell):
    requires(avg_inv(self) and nh_ok(self.num_handler, val), 'inv')
    ghost_update(self.hist, map_set(old(self.hist), key, old(self.hist)[key] + [val]))
    ensures(avg_inv(self), 'running_sum_and_count_of_the_group')
    ensures(self.num_handler.string_detection_done and self.num_handler.is_str == is_str(val), 'handler_kind')
    # C14: a value that is not a number is rejected here, while its record is being processed (so the error can name it)
    ensures(not (is_str(val) and not float_ok(sval(val))), 'non_numeric_value_is_rejected_at_increment')
    raises('rbql_engine.RbqlRuntimeError', is_str(val) and not float_ok(sval(val)), 'non_numeric_value')
    modifies(field(self, 'hist'), self.stats, self.num_handler)


@contract('rbql_engine.AvgAggregator.get_final', name='C03.avg.final', props=['C03'])
def _(self: Obj['rbql_engine.AvgAggregator'], key: Key) -> Cell:
    requires(avg_inv(self) and len(self.hist[key]) >= 1, 'inv')
    ensures(is_num(result) and num(result) == rsum(self.hist[key]) / real(len(self.hist[key])), 'mean_of_group')


@pred
def var_inv(self):
    return forall(Key, lambda k: has_key(self.stats, k) == (len(self.hist[k]) >= 1)
                  and implies(has_key(self.stats, k), is_num(self.stats[k][0]) and num(self.stats[k][0]) == rsum(self.hist[k])
                              and is_num(self.stats[k][1]) and num(self.stats[k][1]) == rsumsq(self.hist[k]) and self.stats[k][2] == len(self.hist[k])))


@contract('rbql_engine.VarianceAggregator.__init__', name='C03.var.init', props=['C03'])
def _(self: Obj['rbql_engine.VarianceAggregator']):
    ghost_update(self.hist, const_map(Key, empty(Cell)))
    ensures(var_inv(self) and not self.num_handler.string_detection_done and not self.num_handler.is_str, 'inv')
    modifies(self)


@contract('rbql_engine.VarianceAggregator.increment', name='C03.var.increment', props=['C03', 'C14'])
def _(self: Obj['rbql_engine.VarianceAggregator'], key: Key, val: Cell):
    requires(var_inv(self) and nh_ok(self.num_handler, val), 'inv')
    ghost_update(self.hist, map_set(old(self.hist), key, old(self.hist)[key] + [val]))
    ensures(var_inv(self), 'running_sum_squares_count_of_the_group')
    ensures(self.num_handler.string_detection_done and self.num_handler.is_str == is_str(val), 'handler_kind')
    # C14: a value that is not a number is rejected here, while its record is being processed (so the error can name it)
    ensures(not (is_str(val) and not float_ok(sval(val))), 'non_numeric_value_is_rejected_at_increment')
    raises('rbql_engine.RbqlRuntimeError', is_str(val) and not float_ok(sval(val)), 'non_numeric_value')
    modifies(field(self, 'hist'), self.stats, self.num_handler)


@contract('rbql_engine.VarianceAggregator.get_final', name='C03.var.final', props=['C03'])
def _(self: Obj['rbql_engine.VarianceAggregator'], key: Key) -> Cell:
    requires(var_inv(self) and len(self.hist[key]) >= 1, 'inv')
    # E[x^2] - E[x]^2, which is the population variance (mean squared deviation): lemma variance_identity
    ensures(is_num(result) and num(result) == rsumsq(self.hist[key]) / real(len(self.hist[key]))
            - (rsum(self.hist[key]) / real(len(self.hist[key]))) * (rsum(self.hist[key]) / real(len(self.hist[key]))), 'population_variance')


# ---------------------------------------------------------------- MEDIAN
classdef('rbql_engine.MedianAggregator', bases=['rbql_engine.Aggregator'], fields=dict(stats=DDict[Key, List[Cell]], num_handler=Obj['rbql_engine.NumHandler']))


@pred
def parsed_list_ok(L, H):
    # L holds the numeric values of the history H, in order
    return len(L) == len(H) and forall(Int, lambda i: implies(0 <= i and i < len(L), is_num(L[i]) and num(L[i]) == numv(H[i])))


@pred
def median_inv(self):
    # the stored list of a key holds the numeric values of the group's history, in order
    return (forall(Key, lambda k: implies(has_key(self.stats, k), all_numeric(contents(self.stats[k]))
                                          and nums_of_cells(contents(self.stats[k])) == nums_of_hist(self.hist[k])
                                          and len(contents(self.stats[k])) == len(self.hist[k])
                                          and allocated(self.stats[k]) and not is_offered(self.stats[k])))
            and forall(Key, lambda k: implies(not has_key(self.stats, k), len(self.hist[k]) == 0))
            and forall(Key, Key, lambda k1, k2: implies(has_key(self.stats, k1) and has_key(self.stats, k2) and k1 != k2, not same(self.stats[k1], self.stats[k2]))))


@contract('rbql_engine.MedianAggregator.__init__', name='C03.median.init', props=['C03'])
def _(self: Obj['rbql_engine.MedianAggregator']):
    ghost_update(self.hist, const_map(Key, empty(Cell)))
    ensures(median_inv(self) and not self.num_handler.string_detection_done and not self.num_handler.is_str, 'inv')
    modifies(self)


@contract('rbql_engine.MedianAggregator.increment', name='C03.median.increment', props=['C03', 'C14'], store_policy='none')
def _(self: Obj['rbql_engine.MedianAggregator'], key: Key, val: Cell):
    requires(median_inv(self) and nh_ok(self.num_handler, val), 'inv')
    ghost_update(self.hist, map_set(old(self.hist), key, old(self.hist)[key] + [val]))
    ensures(median_inv(self), 'values_of_the_group_in_order')
    ensures(self.num_handler.string_detection_done and self.num_handler.is_str == is_str(val), 'handler_kind')
    # C14: a value that is not a number is rejected here, while its record is being processed (so the error can name it)
    ensures(not (is_str(val) and not float_ok(sval(val))), 'non_numeric_value_is_rejected_at_increment')
    raises('rbql_engine.RbqlRuntimeError', is_str(val) and not float_ok(sval(val)), 'non_numeric_value')
    modifies(field(self, 'hist'), self.stats, self.num_handler, anylist())


@contract('rbql_engine.MedianAggregator.get_final', name='C03.median.final', props=['C03'], store_policy='none')
def _(self: Obj['rbql_engine.MedianAggregator'], key: Key) -> Cell:
    requires(median_inv(self) and len(self.hist[key]) >= 1, 'inv')
    local_types(sorted_vals=List[Cell])
    # middle value of the sorted group; mean of the two middle values for an even count
    ensures(is_num(result) and num(result) == median_sorted(ssort_cells(contents(self.stats[key]))), 'median_of_group')
    raises('AssertionError', False, 'group_is_never_empty')
    modifies(self.stats)


# ---------------------------------------------------------------- ANY_VALUE / ARRAY_AGG / constant columns
classdef('rbql_engine.AnyValueAggregator', bases=['rbql_engine.Aggregator'], fields=dict(stats=Dict[Key, Cell]))
classdef('rbql_engine.ConstGroupVerifier', bases=['rbql_engine.Aggregator'], fields=dict(const_values=Dict[Key, Cell], output_index=Int))


@pred
def any_inv(self):
    return forall(Key, lambda k: has_key(self.stats, k) == (len(self.hist[k]) >= 1) and implies(has_key(self.stats, k), self.stats[k] == self.hist[k][0]))


@contract('rbql_engine.AnyValueAggregator.__init__', name='C03.any.init', props=['C03'])
def _(self: Obj['rbql_engine.AnyValueAggregator']):
    ghost_update(self.hist, const_map(Key, empty(Cell)))
    ensures(any_inv(self), 'inv')
    modifies(self)


@contract('rbql_engine.AnyValueAggregator.increment', name='C03.any.increment', props=['C03'])
def _(self: Obj['rbql_engine.AnyValueAggregator'], key: Key, val: Cell):
    requires(any_inv(self), 'inv')
    ghost_update(self.hist, map_set(old(self.hist), key, old(self.hist)[key] + [val]))
    ensures(any_inv(self), 'first_value_of_the_group')
    modifies(field(self, 'hist'), self.stats)


@contract('rbql_engine.AnyValueAggregator.get_final', name='C03.any.final', props=['C03'])
def _(self: Obj['rbql_engine.AnyValueAggregator'], key: Key) -> Cell:
    requires(any_inv(self) and len(self.hist[key]) >= 1, 'inv')
    ensures(result == self.hist[key][0], 'a_value_of_the_group')


@pred
def const_inv(self):
    # every value seen for a key is (Python-)equal to the first one, which is what get_final returns
    return forall(Key, lambda k: has_key(self.const_values, k) == (len(self.hist[k]) >= 1)
                  and implies(has_key(self.const_values, k), self.const_values[k] == self.hist[k][0] and not is_none(self.const_values[k])))


@contract('rbql_engine.ConstGroupVerifier.__init__', name='C03.constgroup.init', props=['C03'])
def _(self: Obj['rbql_engine.ConstGroupVerifier'], output_index: Int):
    ghost_update(self.hist, const_map(Key, empty(Cell)))
    ensures(const_inv(self) and self.output_index == output_index, 'inv')
    modifies(self)


@contract('rbql_engine.ConstGroupVerifier.get_final', name='C03.constgroup.final', props=['C03'])
def _(self: Obj['rbql_engine.ConstGroupVerifier'], key: Key) -> Cell:
    requires(const_inv(self) and len(self.hist[key]) >= 1, 'inv')
    ensures(result == self.hist[key][0], 'the_constant_value_of_the_group')


@contract('rbql_engine.ConstGroupVerifier.increment', name='C03.constgroup.increment', props=['C03', 'C14'])
def _(self: Obj['rbql_engine.ConstGroupVerifier'], key: Key, value: Cell):
    requires(const_inv(self), 'inv')
    requires(not is_none(value), 'cells_of_a_numeric_or_string_column')     # N1: a None first value reads as "unset" (outside C03's quantifier)
    ghost_update(self.hist, map_set(old(self.hist), key, old(self.hist)[key] + [value]))
    ensures(const_inv(self), 'inv')
    # a non-aggregate column must be constant within each group, otherwise the query fails
    ensures(implies(old(has_key(self.const_values, key)), py_equal(old(self.const_values[key]), value)), 'accepted_only_if_equal_to_the_group_value')
    raises('rbql_engine.RbqlRuntimeError', old(has_key(self.const_values, key)) and not py_equal(old(self.const_values[key]), value), 'fails_on_a_different_value')
    modifies(field(self, 'hist'), self.const_values)



# ---------------------------------------------------------------- interface used through dynamic dispatch (select_aggregated, AggregateWriter)
@contract('rbql_engine.Aggregator.increment', name='IF.aggregator.increment', trusted='interface contract of aggregators: increment appends the value to the history of its key and touches no other aggregator (each class proves its own statistic against that history; class invariants are abstracted: A-AGG-VALID)')
def _(self: Obj['rbql_engine.Aggregator'], key: Key, val: Cell):
    ensures(self.hist == map_set(old(self.hist), key, old(self.hist)[key] + [val]), 'history_extended')
    raises('rbql_engine.RbqlRuntimeError', True, 'value_rejected')
    modifies(field(self, 'hist'), field(self, 'finalv'), family('aggregator'))


@contract('rbql_engine.Aggregator.get_final', name='IF.aggregator.get_final', trusted='interface contract: get_final(key) is the aggregate value of the history of key (finalv), proved per class as C03.*.final; A-AGG-VALID')
def _(self: Obj['rbql_engine.Aggregator'], key: Key) -> Cell:
    requires(len(self.hist[key]) >= 1, 'group_not_empty')
    ensures(result == self.finalv[key], 'final_value_of_group')


# ---------------------------------------------------------------- aggregate call wrappers (closures of compile_and_run)
@contract('rbql_engine.RBQLAggregationToken.__init__', name='C03.token.init', props=['C03'])
def _(self: Obj['rbql_engine.RBQLAggregationToken'], marker_id: Int, value: Cell):
    ensures(self.marker_id == marker_id and self.value == value, 'fields')
    modifies(self)


@contract('rbql_engine.compile_and_run.init_aggregator', name='C03.init_aggregator', inline=True)
def _():
    pass


@pred
def wrapper_post(query_context, result, val, cls):
    # before stage 2: a token carrying the argument and a fresh running id, and a new aggregator of the right class
    # appended to the list; from stage 2 on: the argument passes through untouched
    fa = contents(query_context.functional_aggregators)
    return (is_agg_token(result) and token_value(result) == val and token_marker(result) == len(old(contents(query_context.functional_aggregators)))
            and len(fa) == len(old(contents(query_context.functional_aggregators))) + 1
            and fa[:-1] == old(contents(query_context.functional_aggregators))
            and is_fresh(fa[-1]) and typeof_obj(fa[-1], cls) and query_context.aggregation_stage == 1)


@contract('rbql_engine.compile_and_run.MIN', name='C03.wrapper.MIN', props=['C03'], store_policy='none')
def _(val: Cell, *, query_context: Obj['rbql_engine.RBQLContext']) -> Cell:
    requires(not is_offered(query_context.functional_aggregators), 'list_private')
    ensures(implies(old(query_context.aggregation_stage) < 2, wrapper_post(query_context, result, val, 'rbql_engine.MinAggregator')), 'token_and_new_aggregator_before_stage_two')
    ensures(implies(old(query_context.aggregation_stage) >= 2, result == val and query_context.aggregation_stage == old(query_context.aggregation_stage)
                    and contents(query_context.functional_aggregators) == old(contents(query_context.functional_aggregators))), 'pass_through_from_stage_two')
    modifies(field(query_context, 'aggregation_stage'), contents(query_context.functional_aggregators))


@contract('rbql_engine.compile_and_run.MAX', name='C03.wrapper.MAX', props=['C03'], store_policy='none')
def _(val: Cell, *, query_context: Obj['rbql_engine.RBQLContext']) -> Cell:
    requires(not is_offered(query_context.functional_aggregators), 'list_private')
    ensures(implies(old(query_context.aggregation_stage) < 2, wrapper_post(query_context, result, val, 'rbql_engine.MaxAggregator')), 'token_and_new_aggregator_before_stage_two')
    ensures(implies(old(query_context.aggregation_stage) >= 2, result == val and query_context.aggregation_stage == old(query_context.aggregation_stage)
                    and contents(query_context.functional_aggregators) == old(contents(query_context.functional_aggregators))), 'pass_through_from_stage_two')
    modifies(field(query_context, 'aggregation_stage'), contents(query_context.functional_aggregators))


@contract('rbql_engine.compile_and_run.SUM', name='C03.wrapper.SUM', props=['C03'], store_policy='none')
def _(val: Cell, *, query_context: Obj['rbql_engine.RBQLContext']) -> Cell:
    requires(not is_offered(query_context.functional_aggregators), 'list_private')
    ensures(implies(old(query_context.aggregation_stage) < 2, wrapper_post(query_context, result, val, 'rbql_engine.SumAggregator')), 'token_and_new_aggregator_before_stage_two')
    ensures(implies(old(query_context.aggregation_stage) >= 2, result == val and query_context.aggregation_stage == old(query_context.aggregation_stage)
                    and contents(query_context.functional_aggregators) == old(contents(query_context.functional_aggregators))), 'pass_through_from_stage_two')
    modifies(field(query_context, 'aggregation_stage'), contents(query_context.functional_aggregators))


@contract('rbql_engine.compile_and_run.AVG', name='C03.wrapper.AVG', props=['C03'], store_policy='none')
def _(val: Cell, *, query_context: Obj['rbql_engine.RBQLContext']) -> Cell:
    requires(not is_offered(query_context.functional_aggregators), 'list_private')
    ensures(implies(old(query_context.aggregation_stage) < 2, wrapper_post(query_context, result, val, 'rbql_engine.AvgAggregator')), 'token_and_new_aggregator_before_stage_two')
    ensures(implies(old(query_context.aggregation_stage) >= 2, result == val and query_context.aggregation_stage == old(query_context.aggregation_stage)
                    and contents(query_context.functional_aggregators) == old(contents(query_context.functional_aggregators))), 'pass_through_from_stage_two')
    modifies(field(query_context, 'aggregation_stage'), contents(query_context.functional_aggregators))


@contract('rbql_engine.compile_and_run.VARIANCE', name='C03.wrapper.VARIANCE', props=['C03'], store_policy='none')
def _(val: Cell, *, query_context: Obj['rbql_engine.RBQLContext']) -> Cell:
    requires(not is_offered(query_context.functional_aggregators), 'list_private')
    ensures(implies(old(query_context.aggregation_stage) < 2, wrapper_post(query_context, result, val, 'rbql_engine.VarianceAggregator')), 'token_and_new_aggregator_before_stage_two')
    ensures(implies(old(query_context.aggregation_stage) >= 2, result == val and query_context.aggregation_stage == old(query_context.aggregation_stage)
                    and contents(query_context.functional_aggregators) == old(contents(query_context.functional_aggregators))), 'pass_through_from_stage_two')
    modifies(field(query_context, 'aggregation_stage'), contents(query_context.functional_aggregators))


@contract('rbql_engine.compile_and_run.MEDIAN', name='C03.wrapper.MEDIAN', props=['C03'], store_policy='none')
def _(val: Cell, *, query_context: Obj['rbql_engine.RBQLContext']) -> Cell:
    requires(not is_offered(query_context.functional_aggregators), 'list_private')
    ensures(implies(old(query_context.aggregation_stage) < 2, wrapper_post(query_context, result, val, 'rbql_engine.MedianAggregator')), 'token_and_new_aggregator_before_stage_two')
    ensures(implies(old(query_context.aggregation_stage) >= 2, result == val and query_context.aggregation_stage == old(query_context.aggregation_stage)
                    and contents(query_context.functional_aggregators) == old(contents(query_context.functional_aggregators))), 'pass_through_from_stage_two')
    modifies(field(query_context, 'aggregation_stage'), contents(query_context.functional_aggregators))


@contract('rbql_engine.compile_and_run.ANY_VALUE', name='C03.wrapper.ANY_VALUE', props=['C03'], store_policy='none')
def _(val: Cell, *, query_context: Obj['rbql_engine.RBQLContext']) -> Cell:
    requires(not is_offered(query_context.functional_aggregators), 'list_private')
    ensures(implies(old(query_context.aggregation_stage) < 2, wrapper_post(query_context, result, val, 'rbql_engine.AnyValueAggregator')), 'token_and_new_aggregator_before_stage_two')
    ensures(implies(old(query_context.aggregation_stage) >= 2, result == val and query_context.aggregation_stage == old(query_context.aggregation_stage)
                    and contents(query_context.functional_aggregators) == old(contents(query_context.functional_aggregators))), 'pass_through_from_stage_two')
    modifies(field(query_context, 'aggregation_stage'), contents(query_context.functional_aggregators))


@contract('rbql_engine.compile_and_run.COUNT', name='C03.wrapper.COUNT', props=['C03'], store_policy='none')
def _(_val: Cell, *, query_context: Obj['rbql_engine.RBQLContext']) -> Cell:
    requires(not is_offered(query_context.functional_aggregators), 'list_private')
    ensures(implies(old(query_context.aggregation_stage) < 2, wrapper_post(query_context, result, 1, 'rbql_engine.CountAggregator')), 'token_and_new_aggregator_before_stage_two')
    ensures(implies(old(query_context.aggregation_stage) >= 2, result == 1 and query_context.aggregation_stage == old(query_context.aggregation_stage)
                    and contents(query_context.functional_aggregators) == old(contents(query_context.functional_aggregators))), 'pass_through_from_stage_two')
    modifies(field(query_context, 'aggregation_stage'), contents(query_context.functional_aggregators))


# ---------------------------------------------------------------- ARRAY_AGG (without a post-processing function)
classdef('rbql_engine.ArrayAggAggregator', bases=['rbql_engine.Aggregator'], fields=dict(stats=DDict[Key, List[Cell]], post_proc=Opt[Opaque]))


@pred
def arrayagg_inv(self):
    # the stored list of a key is the group's history, in order; lists of different keys are different objects
    return (forall(Key, lambda k: implies(has_key(self.stats, k), contents(self.stats[k]) == self.hist[k] and allocated(self.stats[k]) and not is_offered(self.stats[k])), trigger=[self.stats[k]])
            and forall(Key, lambda k: implies(not has_key(self.stats, k), len(self.hist[k]) == 0))
            and forall(Key, Key, lambda k1, k2: implies(has_key(self.stats, k1) and has_key(self.stats, k2) and k1 != k2, not same(self.stats[k1], self.stats[k2]))))


@contract('rbql_engine.ArrayAggAggregator.increment', name='C03.arrayagg.increment', props=['C03'], store_policy='none')
def _(self: Obj['rbql_engine.ArrayAggAggregator'], key: Key, val: Cell):
    requires(arrayagg_inv(self), 'inv')
    requires(not is_list_cell(val), 'flat_value')
    ghost_update(self.hist, map_set(old(self.hist), key, old(self.hist)[key] + [val]))
    ensures(arrayagg_inv(self), 'values_of_the_group_in_order')
    modifies(field(self, 'hist'), self.stats, anylist())


@contract('rbql_engine.ArrayAggAggregator.get_final', name='C03.arrayagg.final', props=['C03'], store_policy='none')
def _(self: Obj['rbql_engine.ArrayAggAggregator'], key: Key) -> List[Cell]:
    options(prune=True)      # the post-processing call is unreachable when post_proc is None
    requires(arrayagg_inv(self) and is_none(self.post_proc) and len(self.hist[key]) >= 1, 'inv_no_post_processing')
    ensures(contents(result) == self.hist[key], 'the_values_of_the_group_in_input_order')
    modifies(self.stats)
