# CSV reading (C12, C15, C09): line extraction over rest = buffer ++ stream.unread, so that the result of a
# read is a function of the remaining *content* alone, whatever the read sizes.  DESIGN Appendix B.10.

classdef('io.TextStream', ghost=dict(unread=Str))
classdef('rbql_csv.CSVRecordIterator', bases=['rbql_engine.RBQLInputIterator'],
         fields=dict(stream=Obj['io.TextStream'], buffer=Str, exhausted=Bool, chunk_size=Int, NL=Int, NR=Int, encoding=Opt[Str],
                     utf8_bom_removed=Bool, detected_line_separator=Str, comment_prefix=Opt[Str], policy=Str, delim=Str,
                     polymorphic_get_row=MethodTag, fields_info=Dict[Int, Int], first_defective_line=Opt[Int], has_header=Bool,
                     first_record_should_be_emitted=Bool, first_record=Opt[List[Str]], table_name=Str, variable_prefix=Str))


@trusted('io.TextStream.read', trusted='A-IO: a text stream delivers its content in order; read(n) returns a non-empty prefix of what is left, of ANY length between 1 and n (short reads allowed), or "" exactly at the end; undecodable bytes raise UnicodeDecodeError')
def _(self: Obj['io.TextStream'], n: Int) -> Str:
    requires(n >= 1, 'positive_size')
    ensures(result == old(self.unread)[:len(result)] and self.unread == old(self.unread)[len(result):], 'delivers_a_prefix')
    ensures(len(result) <= n and len(result) <= len(old(self.unread)), 'at_most_n')
    ensures((len(result) == 0) == (len(old(self.unread)) == 0), 'empty_only_at_end')
    raises('UnicodeDecodeError', True, 'undecodable_bytes')
    modifies(self)


@trusted('csv_utils.newline_rgx.search', pattern='(?:\r\n)|\r|\n',
         trusted='A-RE-newline: newline_rgx.search finds the first CR or LF and takes CRLF as one match (validated exhaustively to length 6)')
def _(data: Str) -> Opt[Tuple[Int, Int]]:
    ensures(is_none(result) == (first_nl(data, 0) == -1), 'none_iff_no_break')
    ensures(implies(not is_none(result), opt_val(result)[0] == first_nl(data, 0) and 0 <= opt_val(result)[0] and opt_val(result)[0] < len(data)
                    and is_nl_char(data[opt_val(result)[0]])
                    and opt_val(result)[1] == opt_val(result)[0] + nl_len(data, opt_val(result)[0])), 'first_break_crlf_as_one')


@contract('csv_utils.extract_line_from_data', name='C12.extract_line', props=['C12', 'C10'])
def _(data: Str) -> Tuple[Opt[Str], Opt[Str], Str]:
    ensures(implies(first_nl(data, 0) == -1, is_none(result[0]) and is_none(result[1]) and result[2] == data), 'no_break')
    ensures(implies(first_nl(data, 0) != -1, not is_none(result[0]) and opt_val(result[0]) == data[:first_nl(data, 0)]
                    and not is_none(result[1]) and opt_val(result[1]) == data[first_nl(data, 0):first_nl(data, 0) + nl_len(data, first_nl(data, 0))]
                    and result[2] == data[first_nl(data, 0) + nl_len(data, first_nl(data, 0)):]), 'split_at_first_break')


@contract('rbql_csv.remove_utf8_bom', name='C12.bom', props=['C12', 'C14', 'C10'])
def _(line: Str, assumed_source_encoding: Opt[Str]) -> Str:
    ensures(implies(not is_none(assumed_source_encoding) and opt_val(assumed_source_encoding) == 'utf-8' and len(line) >= 1 and line[0] == '﻿', result == line[1:]), 'utf8_bom_dropped')
    ensures(implies(not is_none(assumed_source_encoding) and opt_val(assumed_source_encoding) == 'latin-1' and len(line) >= 3 and line[:3] == '\xef\xbb\xbf', result == line[3:]), 'latin1_bom_dropped')
    ensures(implies(is_none(assumed_source_encoding)
                    or (opt_val(assumed_source_encoding) == 'utf-8' and not (len(line) >= 1 and line[0] == '﻿'))
                    or (opt_val(assumed_source_encoding) == 'latin-1' and not (len(line) >= 3 and line[:3] == '\xef\xbb\xbf'))
                    or (opt_val(assumed_source_encoding) != 'utf-8' and opt_val(assumed_source_encoding) != 'latin-1'), result == line), 'otherwise_unchanged')


@pred
def rest(self):
    return self.buffer + self.stream.unread


@contract('rbql_csv.CSVRecordIterator._get_row_from_buffer', name='C12.row_from_buffer', props=['C12', 'C10'])
def _(self: Obj['rbql_csv.CSVRecordIterator']) -> Opt[Str]:
    uses(first_nl_prefix(self.buffer, self.stream.unread, 0, len(self.buffer)))
    uses(first_nl_props(self.buffer, 0, len(self.buffer)))
    # nothing buffered decides a line: nothing changes
    ensures(implies(first_nl(old(self.buffer), 0) == -1, is_none(result) and self.buffer == old(self.buffer) and self.stream.unread == old(self.stream.unread)), 'no_break_buffered')
    # otherwise the line and what remains are those of the whole remaining content (a CR at the end of the buffer looks one character ahead)
    ensures(implies(first_nl(old(self.buffer), 0) != -1, not is_none(result) and opt_val(result) == first_line(old(rest(self))) and rest(self) == after_first_line(old(rest(self)))), 'line_of_remaining_content')
    ensures(self.exhausted == old(self.exhausted) and self.NL == old(self.NL) and same(self.stream, old(self.stream)), 'counters_untouched')
    ensures(len(self.stream.unread) <= len(old(self.stream.unread)), 'reading_only_consumes')
    raises('UnicodeDecodeError', True, 'decode_error_from_stream')
    modifies(field(self, 'buffer'), field(self, 'detected_line_separator'), self.stream)


@contract('rbql_csv.CSVRecordIterator._read_until_found', name='C12.read_until_found', props=['C12', 'C10'])
def _(self: Obj['rbql_csv.CSVRecordIterator']):
    requires(self.chunk_size >= 1, 'positive_chunk_size')
    requires(implies(self.exhausted, len(self.stream.unread) == 0), 'exhausted_means_nothing_left')
    local_types(chunks=List[Str])
    loop_types(0, chunk=Str)
    invariant(0, is_fresh(chunks) and same(self.stream, old(self.stream)) and self.buffer == old(self.buffer) and self.chunk_size == old(self.chunk_size)
              and not old(self.exhausted), 'config')
    invariant(0, str_join('', contents(chunks)) + self.stream.unread == old(self.stream.unread), 'chunks_are_what_was_consumed')
    invariant(0, not self.exhausted, 'not_exhausted_inside')
    loop_hint(0, str_join('', contents(chunks)) == str_join('', at_iter_start(contents(chunks))) + chunk)
    # whatever the read sizes: no content is lost or reordered, and the reader only gives up at the real end of the stream
    ensures(rest(self) == old(rest(self)), 'content_preserved')
    ensures(implies(self.exhausted, len(self.stream.unread) == 0), 'exhausted_only_at_end_of_stream')
    ensures(implies(not self.exhausted, first_nl(self.buffer, 0) != -1), 'stops_reading_only_on_a_line_break')
    ensures(self.NL == old(self.NL) and same(self.stream, old(self.stream)), 'counters_untouched')
    raises('UnicodeDecodeError', True, 'decode_error_from_stream')
    uses(first_nl_suffix)
    modifies(field(self, 'buffer'), field(self, 'exhausted'), self.stream)


@pred
def reader_inv(self):
    return self.chunk_size >= 1 and implies(self.exhausted, len(self.stream.unread) == 0)


@contract('rbql_csv.CSVRecordIterator.get_row_simple', name='C12.row', props=['C12', 'C15', 'C14', 'C10'])
def _(self: Obj['rbql_csv.CSVRecordIterator']) -> Opt[Str]:
    requires(reader_inv(self), 'inv')
    # a function of the remaining content alone: the first line (LF | CR | CRLF, or an unterminated last line)
    ensures(is_none(result) == (len(old(rest(self))) == 0), 'none_exactly_at_end_of_content')
    ensures(implies(not is_none(result), opt_val(result) == (strip_bom(first_line(old(rest(self))), self.encoding) if old(self.NL) == 0 else first_line(old(rest(self))))), 'first_line_of_remaining_content')
    ensures(implies(not is_none(result), rest(self) == after_first_line(old(rest(self))) and self.NL == old(self.NL) + 1), 'remaining_content_after_the_line')
    ensures(implies(is_none(result), len(rest(self)) == 0 and self.NL == old(self.NL)), 'end_is_stable')
    # a BOM is dropped only from the very first line, and then reported
    ensures(self.utf8_bom_removed == (old(self.utf8_bom_removed) or (not is_none(result) and old(self.NL) == 0 and strip_bom(first_line(old(rest(self))), self.encoding) != first_line(old(rest(self))))), 'bom_flag_iff_first_line_had_bom')
    ensures(reader_inv(self) and same(self.stream, old(self.stream)) and self.encoding == old(self.encoding), 'inv')
    # bad bytes surface as an IO-handling error, never as a raw decoding exception
    raises('rbql_engine.RbqlIOHandlingError', True, 'decode_error_is_io_handling_error')
    raises('AssertionError', False, 'reader_gives_up_only_when_exhausted')
    modifies(field(self, 'buffer'), field(self, 'detected_line_separator'), field(self, 'exhausted'), field(self, 'NL'), field(self, 'utf8_bom_removed'), self.stream)


@contract('rbql_csv.CSVRecordIterator.get_row_rfc', name='C12.row_rfc', props=['C12', 'C10'])
def _(self: Obj['rbql_csv.CSVRecordIterator']) -> Opt[Str]:
    requires(reader_inv(self), 'inv')
    requires(self.NL >= 0, 'line_counter_sane')
    local_types(rows_buffer=List[Str])
    loop_types(0, row=Opt[Str])
    invariant(0, reader_inv(self) and same(self.stream, old(self.stream)) and self.encoding == old(self.encoding) and self.comment_prefix == old(self.comment_prefix)
              and self.NL >= 1 and self.NL >= old(self.NL) and is_fresh(rows_buffer) and len(rows_buffer) >= 1, 'config')
    invariant(0, str_join('\n', contents(rows_buffer)) + rfc_tail(rest(self)) == line1(old(rest(self)), old(self.NL) == 0, self.encoding) + rfc_tail(after_first_line(old(rest(self)))), 'record_text_so_far')
    invariant(0, rfc_after(rest(self)) == rfc_after(after_first_line(old(rest(self)))), 'remaining_content')
    loop_hint(0, implies(not is_none(row), str_join('\n', contents(rows_buffer)) == str_join('\n', at_iter_start(contents(rows_buffer))) + '\n' + opt_val(row)))
    loop_hint(0, implies(not is_none(row) and not odd_quotes(opt_val(row)), at_iter_start(rfc_tail(rest(self))) == '\n' + opt_val(row) + rfc_tail(rest(self))))
    loop_hint(0, implies(not is_none(row) and not odd_quotes(opt_val(row)), at_iter_start(rfc_after(rest(self))) == rfc_after(rest(self))))
    exit_hint(implies(not is_none(row) and odd_quotes(opt_val(row)), at_iter_start(rfc_tail(rest(self))) == '\n' + opt_val(row) and at_iter_start(rfc_after(rest(self))) == rest(self)), 'closing_line')
    exit_hint(implies(is_none(row), at_iter_start(len(rest(self))) == 0 and at_iter_start(rfc_tail(rest(self))) == '' and at_iter_start(rfc_after(rest(self))) == '' and len(rest(self)) == 0 and rfc_after(rest(self)) == ''), 'end_of_content')
    exit_hint(implies(not is_none(row), str_join('\n', contents(rows_buffer)) == str_join('\n', at_iter_start(contents(rows_buffer))) + '\n' + opt_val(row)), 'joined')
    ensures(is_none(result) == (len(old(rest(self))) == 0), 'none_exactly_at_end_of_content')
    # a comment line or a line with balanced quotes is a record of its own
    ensures(implies(not is_none(result) and ((not is_none(self.comment_prefix) and line1(old(rest(self)), old(self.NL) == 0, self.encoding).startswith(opt_val(self.comment_prefix))) or not odd_quotes(line1(old(rest(self)), old(self.NL) == 0, self.encoding))),
                    opt_val(result) == line1(old(rest(self)), old(self.NL) == 0, self.encoding) and rest(self) == after_first_line(old(rest(self)))), 'balanced_line_is_a_record')
    # otherwise the record continues over physical lines (joined by LF) until its quotes balance, or to the end
    ensures(implies(not is_none(result) and not (not is_none(self.comment_prefix) and line1(old(rest(self)), old(self.NL) == 0, self.encoding).startswith(opt_val(self.comment_prefix))) and odd_quotes(line1(old(rest(self)), old(self.NL) == 0, self.encoding)),
                    opt_val(result) == line1(old(rest(self)), old(self.NL) == 0, self.encoding) + rfc_tail(after_first_line(old(rest(self))))
                    and rest(self) == rfc_after(after_first_line(old(rest(self))))), 'multiline_record')
    ensures(self.NL >= old(self.NL) and implies(not is_none(result), self.NL >= 1) and implies(is_none(result), self.NL == old(self.NL) and len(rest(self)) == 0), 'line_counter')
    ensures(reader_inv(self), 'inv')
    raises('rbql_engine.RbqlIOHandlingError', True, 'decode_error_is_io_handling_error')
    modifies(field(self, 'buffer'), field(self, 'detected_line_separator'), field(self, 'exhausted'), field(self, 'NL'), field(self, 'utf8_bom_removed'), self.stream)


@pred
def rec_iter_inv(self):
    # configuration consistency of a CSV record iterator
    return (reader_inv(self) and self.NL >= 0 and self.NR >= 0
            and self.polymorphic_get_row == (mtag('get_row_rfc') if self.policy == 'quoted_rfc' else mtag('get_row_simple'))
            and implies(self.policy != 'simple' and self.policy != 'whitespace' and self.policy != 'monocolumn', len(self.delim) == 1 and self.delim != '"')
            and implies(self.policy == 'simple', len(self.delim) >= 1))


@contract('rbql_csv.CSVRecordIterator.get_record', name='C12.record', props=['C12', 'C09', 'C14', 'C10'], store_policy='none')
def _(self: Obj['rbql_csv.CSVRecordIterator']) -> Opt[List[Str]]:
    requires(rec_iter_inv(self), 'inv')
    loop_types(0, line=Opt[Str])
    invariant(0, rec_iter_inv(self) and same(self.stream, old(self.stream)) and self.encoding == old(self.encoding) and self.comment_prefix == old(self.comment_prefix)
              and self.policy == old(self.policy) and self.delim == old(self.delim) and self.NR == old(self.NR) and not self.first_record_should_be_emitted
              and not old(self.first_record_should_be_emitted) and same(self.fields_info, old(self.fields_info)) and self.first_defective_line == old(self.first_defective_line)
              and (self.NL >= 1 or self.NL == old(self.NL)), 'config')
    invariant(0, has_data_row(rest(self), self.policy == 'quoted_rfc', self.NL == 0, self.encoding, self.comment_prefix)
              == has_data_row(old(rest(self)), old(self.policy) == 'quoted_rfc', old(self.NL) == 0, self.encoding, self.comment_prefix), 'same_next_record')
    invariant(0, data_row(rest(self), self.policy == 'quoted_rfc', self.NL == 0, self.encoding, self.comment_prefix)
              == data_row(old(rest(self)), old(self.policy) == 'quoted_rfc', old(self.NL) == 0, self.encoding, self.comment_prefix), 'same_next_record_text')
    invariant(0, data_rest(rest(self), self.policy == 'quoted_rfc', self.NL == 0, self.encoding, self.comment_prefix)
              == data_rest(old(rest(self)), old(self.policy) == 'quoted_rfc', old(self.NL) == 0, self.encoding, self.comment_prefix), 'same_remaining_content')
    exit_hint(implies(not is_none(line) and not is_comment(opt_val(line), self.comment_prefix),
                      at_iter_start(data_row(rest(self), self.policy == 'quoted_rfc', self.NL == 0, self.encoding, self.comment_prefix)) == opt_val(line)
                      and at_iter_start(data_rest(rest(self), self.policy == 'quoted_rfc', self.NL == 0, self.encoding, self.comment_prefix)) == rest(self)), 'the_row_read_is_the_next_record', hide=['record_fields', 'record_warn'])
    # a first record held back at construction (no header) is returned exactly once, first, and nothing is read
    ensures(implies(old(self.first_record_should_be_emitted), same(result, old(self.first_record)) and not self.first_record_should_be_emitted
                    and rest(self) == old(rest(self)) and self.NR == old(self.NR)), 'first_record_emitted_once')
    # otherwise: the next record of the remaining content (comment lines skipped), split by the policy
    ensures(implies(not old(self.first_record_should_be_emitted),
                    is_none(result) == (not has_data_row(old(rest(self)), self.policy == 'quoted_rfc', old(self.NL) == 0, self.encoding, self.comment_prefix))), 'none_iff_no_more_records')
    ensures(implies(not old(self.first_record_should_be_emitted) and not is_none(result),
                    contents(result) == record_fields(data_row(old(rest(self)), self.policy == 'quoted_rfc', old(self.NL) == 0, self.encoding, self.comment_prefix), self.delim, self.policy)), 'next_record_of_remaining_content', hide=['record_fields', 'record_warn', 'data_row', 'data_rest', 'has_data_row'])
    ensures(implies(not old(self.first_record_should_be_emitted) and not is_none(result),
                    rest(self) == data_rest(old(rest(self)), self.policy == 'quoted_rfc', old(self.NL) == 0, self.encoding, self.comment_prefix)), 'remaining_content_after_the_record')
    ensures(implies(not old(self.first_record_should_be_emitted) and not is_none(result), self.NR == old(self.NR) + 1 and is_fresh(result)), 'record_counter')
    # C14: the first record of each field count is remembered
    ensures(implies(not old(self.first_record_should_be_emitted) and not is_none(result),
                    forall(Int, lambda n: implies(old(has_key(self.fields_info, n)), has_key(self.fields_info, n) and self.fields_info[n] == old(self.fields_info[n])))), 'earlier_first_records_kept')
    ensures(implies(not old(self.first_record_should_be_emitted) and not is_none(result),
                    forall(Int, lambda n: implies(n == len(result) and not old(has_key(self.fields_info, n)), has_key(self.fields_info, n) and self.fields_info[n] == self.NR))), 'first_record_of_each_field_count')
    ensures(implies(not old(self.first_record_should_be_emitted) and not is_none(result),
                    forall(Int, lambda n: implies(n != len(result), has_key(self.fields_info, n) == old(has_key(self.fields_info, n))))), 'no_other_field_count_recorded')
    ensures(implies(not old(self.first_record_should_be_emitted) and not is_none(result) and is_none(old(self.first_defective_line))
                    and record_warn(data_row(old(rest(self)), self.policy == 'quoted_rfc', old(self.NL) == 0, self.encoding, self.comment_prefix), self.delim, self.policy),
                    not is_none(self.first_defective_line) and opt_val(self.first_defective_line) == self.NL), 'first_defective_line_recorded')
    ensures(rec_iter_inv(self), 'inv')
    raises('rbql_engine.RbqlIOHandlingError', True, 'io_handling_error')
    modifies(field(self, 'buffer'), field(self, 'detected_line_separator'), field(self, 'exhausted'), field(self, 'NL'), field(self, 'utf8_bom_removed'),
             field(self, 'NR'), field(self, 'first_defective_line'), field(self, 'first_record_should_be_emitted'), self.stream, self.fields_info)


# ---------------------------------------------------------------- header handling (C09)
@trusted('rbql_csv.encode_input_stream', trusted='A-IO: wrapping a byte stream into a decoding text stream (io.TextIOWrapper / codecs reader); its unread content is the decoded content of the file')
def _(stream: Obj['io.TextStream'], encoding: Opt[Str]) -> Obj['io.TextStream']:
    ensures(allocated(result) and (same(result, stream) or is_fresh(result)), 'the_stream_itself_or_a_new_wrapper')


@contract('rbql_csv.CSVRecordIterator.__init__', name='C09.csv.init', props=['C09', 'C12', 'C10'], store_policy='none')
def _(self: Obj['rbql_csv.CSVRecordIterator'], stream: Obj['io.TextStream'], encoding: Opt[Str], delim: Str, policy: Str, has_header: Bool, comment_prefix: Opt[Str],
      table_name: Str, variable_prefix: Str, chunk_size: Int, line_mode: Bool):
    requires(chunk_size >= 1, 'positive_chunk_size')
    requires(is_none(encoding) or opt_val(encoding) == 'utf-8' or opt_val(encoding) == 'latin-1', 'known_encoding')
    requires(implies(policy != 'simple' and policy != 'whitespace' and policy != 'monocolumn', len(delim) == 1 and delim != '"'), 'single_char_delimiter_for_quoted_policies')
    requires(implies(policy == 'simple', len(delim) >= 1), 'non_empty_delimiter')
    ensures(rec_iter_inv(self) and self.has_header == has_header and self.policy == policy and self.delim == delim and self.encoding == encoding and self.variable_prefix == variable_prefix, 'configured')
    ensures(self.comment_prefix == (comment_prefix if (not is_none(comment_prefix) and len(opt_val(comment_prefix)) > 0) else None), 'empty_comment_prefix_means_none')
    # the first record is read ahead at construction: it is the header when has_header, otherwise it is handed out first, once
    ensures(implies(not line_mode, self.first_record_should_be_emitted == (not has_header)), 'header_is_held_back_data_is_not')
    ensures(implies(not line_mode and not is_none(self.first_record), self.NR == 1), 'first_record_counted')
    raises('rbql_engine.RbqlIOHandlingError', True, 'io_handling_error')
    raises('AssertionError', False, 'known_encoding')
    modifies(self, stream, self.fields_info)


@contract('rbql_csv.CSVRecordIterator.handle_query_modifier', name='C09.csv.modifier', props=['C09'])
def _(self: Obj['rbql_csv.CSVRecordIterator'], modifier: Str):
    # WITH (header) / WITH (noheader) overrides the caller's flag: the first record becomes the header, or data again
    ensures(implies(modifier == 'header' or modifier == 'headers', self.has_header and not self.first_record_should_be_emitted), 'with_header')
    ensures(implies(modifier == 'noheader' or modifier == 'noheaders', not self.has_header and self.first_record_should_be_emitted), 'with_noheader')
    ensures(implies(modifier != 'header' and modifier != 'headers' and modifier != 'noheader' and modifier != 'noheaders',
                    self.has_header == old(self.has_header) and self.first_record_should_be_emitted == old(self.first_record_should_be_emitted)), 'other_modifiers_ignored')
    modifies(field(self, 'has_header'), field(self, 'first_record_should_be_emitted'))


@contract('rbql_csv.CSVRecordIterator.get_header', name='C09.csv.get_header', props=['C09', 'C07'])
def _(self: Obj['rbql_csv.CSVRecordIterator']) -> Opt[List[Str]]:
    ensures(implies(self.has_header, same(result, self.first_record)) and implies(not self.has_header, is_none(result)), 'first_record_iff_has_header')


@contract('rbql_csv.CSVRecordIterator.get_warnings', name='C14.csv.warnings', props=['C14'])
def _(self: Obj['rbql_csv.CSVRecordIterator']) -> List[Str]:
    local_types(result=List[Str])
    # exact: each warning is reported iff its flag was raised while reading (BOM stripped; a defectively quoted line; two field counts)
    ensures(('UTF-8 Byte Order Mark (BOM) was found and skipped in ' + self.table_name + ' table' in contents(result)) == self.utf8_bom_removed, 'bom_warning_iff_bom_was_removed')
    ensures(('Inconsistent double quote escaping in ' + self.table_name + ' table. E.g. at line ' + str_of_int(opt_val(self.first_defective_line)) in contents(result))
            == (not is_none(self.first_defective_line)), 'quoting_warning_iff_a_defective_line_was_seen')
    ensures(len(result) == (1 if self.utf8_bom_removed else 0) + (0 if is_none(self.first_defective_line) else 1) + (1 if len(keys(self.fields_info)) > 1 else 0), 'nothing_else')


# ---------------------------------------------------------------- join files of the CSV front end (C15: every opened file is closed)
classdef('io.TextStream', ghost=dict(closed=Bool))
classdef('rbql_csv.FileSystemCSVRegistry', bases=['rbql_engine.RBQLTableRegistry'],
         fields=dict(input_file_dir=Opt[Str], delim=Str, policy=Str, encoding=Opt[Str], record_iterator=Opt[Obj['rbql_csv.CSVRecordIterator']],
                     input_stream=Opt[Obj['io.TextStream']], has_header=Bool, comment_prefix=Opt[Str], table_path=Opt[Str]))


@trusted('builtins.open', trusted='A-IO: open() returns a new, open file object or raises OSError')
def _(path: Str, mode: Str) -> Obj['io.TextStream']:
    ensures(is_fresh(result) and allocated(result) and not result.closed, 'a_new_open_file')
    raises('OSError', True, 'cannot_open')


@trusted('io.TextStream.close', trusted='A-IO: close() closes the file object')
def _(self: Obj['io.TextStream']):
    ensures(self.closed, 'closed')
    modifies(field(self, 'closed'))


@trusted('rbql_csv.find_table_path', trusted='A-IO: file system lookup of a table id (os.path); bounded stand-in bounded/jobs_c13.py')
def _(main_table_dir: Opt[Str], table_id: Str) -> Opt[Str]:
    pass


@contract('rbql_csv.FileSystemCSVRegistry.get_iterator_by_table_id', name='C15.registry.open', props=['C15', 'C13', 'C04'], store_policy='none')
def _(self: Obj['rbql_csv.FileSystemCSVRegistry'], table_id: Str, single_char_alias: Str) -> Opt[Obj['rbql_csv.CSVRecordIterator']]:
    requires(is_none(self.input_stream), 'no_join_file_open_yet')
    requires(is_none(self.encoding) or opt_val(self.encoding) == 'utf-8' or opt_val(self.encoding) == 'latin-1', 'known_encoding')
    requires(implies(self.policy != 'simple' and self.policy != 'whitespace' and self.policy != 'monocolumn', len(self.delim) == 1 and self.delim != '"'), 'single_char_delimiter_for_quoted_policies')
    requires(implies(self.policy == 'simple', len(self.delim) >= 1), 'non_empty_delimiter')
    # C15: the file that is opened is remembered in input_stream BEFORE anything can fail, so finish() can close it on every path
    ensures(not is_none(result) and not is_none(self.input_stream) and is_fresh(opt_val(self.input_stream)), 'opened_file_is_remembered')
    # C04 / C13: the join table is read in the dialect the registry was created with -- the B records are the records of the file as the
    # input table's reader would see them (same delimiter, policy, encoding, header flag and comment prefix)
    ensures(opt_val(result).has_header == self.has_header and opt_val(result).policy == self.policy and opt_val(result).delim == self.delim and opt_val(result).encoding == self.encoding
            and opt_val(result).comment_prefix == (self.comment_prefix if (not is_none(self.comment_prefix) and len(opt_val(self.comment_prefix)) > 0) else None), 'join_table_is_read_in_the_dialect_of_the_registry')
    raises('rbql_engine.RbqlIOHandlingError', is_none(self.input_stream) or is_fresh(opt_val(self.input_stream)), 'nothing_opened_or_remembered')
    raises('OSError', is_none(self.input_stream), 'nothing_opened')
    modifies(self, anything())


@contract('rbql_csv.FileSystemCSVRegistry.finish', name='C15.registry.finish', props=['C15'])
def _(self: Obj['rbql_csv.FileSystemCSVRegistry']):
    # C15: whatever join file was opened is closed
    ensures(implies(not is_none(self.input_stream), opt_val(self.input_stream).closed), 'join_file_closed')
    modifies(field(opt_val(self.input_stream), 'closed'))


# ---------------------------------------------------------------- query_csv: the CSV entry point (C15: files closed on every path; C13: what the engine is handed)
@trusted('os.path.basename', trusted='A-IO: pure path arithmetic')
def _(a: Str) -> Str:
    pass


@trusted('rbql_engine.set_debug_mode', trusted='sets the module-level debug flag (the one global rbql_engine rebinds, C16); no effect on any table, stream or writer')
def _(new_value: Bool):
    pass


@contract('rbql_csv.FileSystemCSVRegistry.__init__', name='C13.csv.registry.init', props=['C13', 'C15', 'C16'], store_policy='none')
def _(self: Obj['rbql_csv.FileSystemCSVRegistry'], input_file_dir: Opt[Str], delim: Str, policy: Str, encoding: Opt[Str], has_header: Bool, comment_prefix: Opt[Str]):
    # a new registry has opened nothing and reads join tables in the dialect of the input table
    ensures(is_none(self.input_stream) and is_none(self.record_iterator) and is_none(self.table_path), 'nothing_opened_yet')
    ensures(self.delim == delim and self.policy == policy and self.encoding == encoding and self.has_header == has_header and self.comment_prefix == comment_prefix
            and self.input_file_dir == input_file_dir, 'dialect_of_the_input_table')
    modifies(self)


@contract('rbql_csv.FileSystemCSVRegistry.get_warnings', name='C14.csv.registry.get_warnings', props=['C14', 'C09'])
def _(self: Obj['rbql_csv.FileSystemCSVRegistry']) -> List[Str]:
    local_types(result=List[Str])
    # the "first record of the JOIN file was treated as header" warning appears iff a join table was opened and headers are on
    ensures(is_fresh(result) and (len(result) == 1) == (not is_none(self.record_iterator) and self.has_header) and (len(result) == 0 or len(result) == 1), 'join_header_warning_iff_a_join_table_with_header')
    raises('TypeError', not is_none(self.record_iterator) and is_none(self.table_path), 'only_in_a_state_the_registry_never_produces')


@contract('rbql_csv.query_csv', name='C15.query_csv', props=['C15', 'C13'], store_policy='none')
def _(query_text: Str, input_path: Opt[Str], input_delim: Str, input_policy: Str, output_path: Opt[Str], output_delim: Str, output_policy: Str, csv_encoding: Opt[Str],
      output_warnings: List[Str], with_headers: Bool, comment_prefix: Opt[Str], user_init_code: Str, colorize_output: Bool):
    requires(is_none(csv_encoding) or opt_val(csv_encoding) == 'utf-8' or opt_val(csv_encoding) == 'latin-1', 'known_encoding')
    requires(not colorize_output, 'colours_off')
    requires(implies(input_policy != 'simple' and input_policy != 'whitespace' and input_policy != 'monocolumn', len(input_delim) == 1), 'single_char_delimiter_for_quoted_policies')
    requires(implies(input_policy != 'simple' and input_policy != 'whitespace' and input_policy != 'monocolumn' and input_policy != 'quoted', input_delim != '"'), 'rfc_delimiter_is_not_the_quote')
    requires(implies(input_policy == 'simple', len(input_delim) >= 1), 'non_empty_delimiter')
    local_types(output_stream=Opt[Obj['io.OutStream']], input_stream=Opt[Obj['io.TextStream']], join_tables_registry=Opt[Obj['rbql_csv.FileSystemCSVRegistry']],
                input_iterator=Obj['rbql_csv.CSVRecordIterator'], output_writer=Obj['rbql_csv.CSVWriter'], input_file_dir=Opt[Str])
    # C15: on EVERY path out of query_csv -- normal return, a query error of any kind, a dialect rejected up front, a file that cannot be opened --
    # the input file and the output file it opened (exactly when a path was given) are closed, and so is the join file the registry opened
    ensures(files_closed(close_input_on_finish, input_stream, close_output_on_finish, output_stream, join_tables_registry)
            and close_input_on_finish == (not is_none(input_path)) and close_output_on_finish == (not is_none(output_path)), 'files_closed')
    raises('rbql_engine.RbqlParsingError', files_closed(close_input_on_finish, input_stream, close_output_on_finish, output_stream, join_tables_registry), 'files_closed_on_query_error')
    raises('rbql_engine.RbqlRuntimeError', files_closed(close_input_on_finish, input_stream, close_output_on_finish, output_stream, join_tables_registry), 'files_closed_on_query_error')
    raises('rbql_engine.RbqlIOHandlingError', files_closed(close_input_on_finish, input_stream, close_output_on_finish, output_stream, join_tables_registry), 'files_closed_on_query_error')
    raises('SyntaxError', files_closed(close_input_on_finish, input_stream, close_output_on_finish, output_stream, join_tables_registry), 'files_closed_on_query_error')
    raises('AssertionError', files_closed(close_input_on_finish, input_stream, close_output_on_finish, output_stream, join_tables_registry), 'files_closed_on_query_error')
    raises('RuntimeError', files_closed(close_input_on_finish, input_stream, close_output_on_finish, output_stream, join_tables_registry), 'files_closed_on_unknown_policy')
    raises('OSError', files_closed(close_input_on_finish, input_stream, close_output_on_finish, output_stream, join_tables_registry), 'files_closed_when_one_cannot_be_opened')
    raises('TypeError', files_closed(close_input_on_finish, input_stream, close_output_on_finish, output_stream, join_tables_registry), 'files_closed_also_then')
    raises('UnicodeDecodeError', files_closed(close_input_on_finish, input_stream, close_output_on_finish, output_stream, join_tables_registry), 'files_closed_on_bad_bytes')
    # C13: the engine gets a new reader over the input stream in the caller's dialect, a new unused writer in the output dialect, and a registry that reads join tables in the input dialect
    cut('rbql_engine.query(', input_iterator.delim == input_delim and input_iterator.policy == input_policy and input_iterator.encoding == csv_encoding and input_iterator.has_header == with_headers
        and input_iterator.variable_prefix == 'a', 'engine_reads_the_input_in_the_callers_dialect')
    cut('rbql_engine.query(', output_writer.delim == output_delim and output_writer.close_stream_on_finish == close_output_on_finish and fresh_writer(output_writer) and not output_writer.sorted_iface
        and output_writer.header_calls == 0 and not same(output_writer, input_iterator), 'engine_writes_through_a_new_unused_csv_writer')
    cut('rbql_engine.query(', not is_none(join_tables_registry) and opt_val(join_tables_registry).delim == input_delim and opt_val(join_tables_registry).policy == input_policy
        and opt_val(join_tables_registry).encoding == csv_encoding and opt_val(join_tables_registry).has_header == with_headers and opt_val(join_tables_registry).comment_prefix == comment_prefix
        and is_none(opt_val(join_tables_registry).input_stream), 'join_tables_are_read_in_the_input_dialect')
    cut('rbql_engine.query(', close_input_on_finish == (not is_none(input_path)) and close_output_on_finish == (not is_none(output_path))
        and implies(close_input_on_finish, not is_none(input_stream) and allocated(opt_val(input_stream))) and implies(close_output_on_finish, not is_none(output_stream) and allocated(opt_val(output_stream))), 'opened_files_are_remembered')
    modifies(anything())


@pred
def files_closed(cin, ins, cout, outs, reg):
    return (implies(cin, not is_none(ins) and opt_val(ins).closed) and implies(cout, not is_none(outs) and opt_val(outs).closed)
            and implies(not is_none(reg) and not is_none(opt_val(reg).input_stream), opt_val(opt_val(reg).input_stream).closed))
