# CSV reading (C12, C15, C09): line extraction over rest = buffer ++ stream.unread, so that the result of a
# read is a function of the remaining *content* alone, whatever the read sizes.  DESIGN Appendix B.10.

classdef('io.TextStream', ghost=dict(unread=Str))
classdef('rbql_csv.CSVRecordIterator', bases=['rbql_engine.RBQLInputIterator'],
         fields=dict(stream=Obj['io.TextStream'], buffer=Str, exhausted=Bool, chunk_size=Int, NL=Int, NR=Int, encoding=Opt[Str],
                     utf8_bom_removed=Bool, detected_line_separator=Str, comment_prefix=Opt[Str], policy=Str, delim=Str,
                     polymorphic_get_row=MethodTag, fields_info=Dict[Int, Int], first_defective_line=Opt[Int], has_header=Bool,
                     first_record_should_be_emitted=Bool, first_record=Opt[List[Str]], table_name=Str, variable_prefix=Str))


@trusted('io.TextStream.read', trusted='A-IO: a text stream delivers its content in order; read(n) returns a non-empty prefix of what is left, of ANY length between 1 and n (short reads allowed), or "" exactly at the end; undecodable bytes raise UnicodeDecodeError')
def _(self: Obj['io.TextStream'], n: Int) -> Str:
    requires(n >= 1, 'positive_size')
    ensures(result == old(self.unread)[:len(result)] and self.unread == old(self.unread)[len(result):], 'delivers_a_prefix')
    ensures(len(result) <= n and len(result) <= len(old(self.unread)), 'at_most_n')
    ensures((len(result) == 0) == (len(old(self.unread)) == 0), 'empty_only_at_end')
    raises('UnicodeDecodeError', True, 'undecodable_bytes')
    modifies(self)


@trusted('csv_utils.newline_rgx.search', pattern='(?:\r\n)|\r|\n',
         trusted='A-RE-newline: newline_rgx.search finds the first CR or LF and takes CRLF as one match (validated exhaustively to length 6)')
def _(data: Str) -> Opt[Tuple[Int, Int]]:
    ensures(is_none(result) == (first_nl(data, 0) == -1), 'none_iff_no_break')
    ensures(implies(not is_none(result), opt_val(result)[0] == first_nl(data, 0) and 0 <= opt_val(result)[0] and opt_val(result)[0] < len(data)
                    and is_nl_char(data[opt_val(result)[0]])
                    and opt_val(result)[1] == opt_val(result)[0] + nl_len(data, opt_val(result)[0])), 'first_break_crlf_as_one')


@contract('csv_utils.extract_line_from_data', name='C12.extract_line', props=['C12'])
def _(data: Str) -> Tuple[Opt[Str], Opt[Str], Str]:
    ensures(implies(first_nl(data, 0) == -1, is_none(result[0]) and is_none(result[1]) and result[2] == data), 'no_break')
    ensures(implies(first_nl(data, 0) != -1, not is_none(result[0]) and opt_val(result[0]) == data[:first_nl(data, 0)]
                    and not is_none(result[1]) and opt_val(result[1]) == data[first_nl(data, 0):first_nl(data, 0) + nl_len(data, first_nl(data, 0))]
                    and result[2] == data[first_nl(data, 0) + nl_len(data, first_nl(data, 0)):]), 'split_at_first_break')


@contract('rbql_csv.remove_utf8_bom', name='C12.bom', props=['C12', 'C14'])
def _(line: Str, assumed_source_encoding: Opt[Str]) -> Str:
    ensures(implies(not is_none(assumed_source_encoding) and opt_val(assumed_source_encoding) == 'utf-8' and len(line) >= 1 and line[0] == '﻿', result == line[1:]), 'utf8_bom_dropped')
    ensures(implies(not is_none(assumed_source_encoding) and opt_val(assumed_source_encoding) == 'latin-1' and len(line) >= 3 and line[:3] == '\xef\xbb\xbf', result == line[3:]), 'latin1_bom_dropped')
    ensures(implies(is_none(assumed_source_encoding)
                    or (opt_val(assumed_source_encoding) == 'utf-8' and not (len(line) >= 1 and line[0] == '﻿'))
                    or (opt_val(assumed_source_encoding) == 'latin-1' and not (len(line) >= 3 and line[:3] == '\xef\xbb\xbf'))
                    or (opt_val(assumed_source_encoding) != 'utf-8' and opt_val(assumed_source_encoding) != 'latin-1'), result == line), 'otherwise_unchanged')


@pred
def rest(self):
    return self.buffer + self.stream.unread


@contract('rbql_csv.CSVRecordIterator._get_row_from_buffer', name='C12.row_from_buffer', props=['C12'])
def _(self: Obj['rbql_csv.CSVRecordIterator']) -> Opt[Str]:
    uses(first_nl_prefix(self.buffer, self.stream.unread, 0, len(self.buffer)))
    uses(first_nl_props(self.buffer, 0, len(self.buffer)))
    # nothing buffered decides a line: nothing changes
    ensures(implies(first_nl(old(self.buffer), 0) == -1, is_none(result) and self.buffer == old(self.buffer) and self.stream.unread == old(self.stream.unread)), 'no_break_buffered')
    # otherwise the line and what remains are those of the whole remaining content (a CR at the end of the buffer looks one character ahead)
    ensures(implies(first_nl(old(self.buffer), 0) != -1, not is_none(result) and opt_val(result) == first_line(old(rest(self))) and rest(self) == after_first_line(old(rest(self)))), 'line_of_remaining_content')
    ensures(self.exhausted == old(self.exhausted) and self.NL == old(self.NL) and same(self.stream, old(self.stream)), 'counters_untouched')
    ensures(len(self.stream.unread) <= len(old(self.stream.unread)), 'reading_only_consumes')
    raises('UnicodeDecodeError', True, 'decode_error_from_stream')
    modifies(field(self, 'buffer'), field(self, 'detected_line_separator'), self.stream)


@contract('rbql_csv.CSVRecordIterator._read_until_found', name='C12.read_until_found', props=['C12'])
def _(self: Obj['rbql_csv.CSVRecordIterator']):
    requires(self.chunk_size >= 1, 'positive_chunk_size')
    requires(implies(self.exhausted, len(self.stream.unread) == 0), 'exhausted_means_nothing_left')
    local_types(chunks=List[Str])
    loop_types(0, chunk=Str)
    invariant(0, is_fresh(chunks) and same(self.stream, old(self.stream)) and self.buffer == old(self.buffer) and self.chunk_size == old(self.chunk_size)
              and not old(self.exhausted), 'config')
    invariant(0, str_join('', contents(chunks)) + self.stream.unread == old(self.stream.unread), 'chunks_are_what_was_consumed')
    invariant(0, not self.exhausted, 'not_exhausted_inside')
    loop_hint(0, str_join('', contents(chunks)) == str_join('', at_iter_start(contents(chunks))) + chunk)
    # whatever the read sizes: no content is lost or reordered, and the reader only gives up at the real end of the stream
    ensures(rest(self) == old(rest(self)), 'content_preserved')
    ensures(implies(self.exhausted, len(self.stream.unread) == 0), 'exhausted_only_at_end_of_stream')
    ensures(implies(not self.exhausted, first_nl(self.buffer, 0) != -1), 'stops_reading_only_on_a_line_break')
    ensures(self.NL == old(self.NL) and same(self.stream, old(self.stream)), 'counters_untouched')
    raises('UnicodeDecodeError', True, 'decode_error_from_stream')
    uses(first_nl_suffix)
    modifies(field(self, 'buffer'), field(self, 'exhausted'), self.stream)


@pred
def reader_inv(self):
    return self.chunk_size >= 1 and implies(self.exhausted, len(self.stream.unread) == 0)


@contract('rbql_csv.CSVRecordIterator.get_row_simple', name='C12.row', props=['C12', 'C15', 'C14'])
def _(self: Obj['rbql_csv.CSVRecordIterator']) -> Opt[Str]:
    requires(reader_inv(self), 'inv')
    # a function of the remaining content alone: the first line (LF | CR | CRLF, or an unterminated last line)
    ensures(is_none(result) == (len(old(rest(self))) == 0), 'none_exactly_at_end_of_content')
    ensures(implies(not is_none(result), opt_val(result) == (strip_bom(first_line(old(rest(self))), self.encoding) if old(self.NL) == 0 else first_line(old(rest(self))))), 'first_line_of_remaining_content')
    ensures(implies(not is_none(result), rest(self) == after_first_line(old(rest(self))) and self.NL == old(self.NL) + 1), 'remaining_content_after_the_line')
    ensures(implies(is_none(result), len(rest(self)) == 0 and self.NL == old(self.NL)), 'end_is_stable')
    # a BOM is dropped only from the very first line, and then reported
    ensures(self.utf8_bom_removed == (old(self.utf8_bom_removed) or (not is_none(result) and old(self.NL) == 0 and strip_bom(first_line(old(rest(self))), self.encoding) != first_line(old(rest(self))))), 'bom_flag_iff_first_line_had_bom')
    ensures(reader_inv(self) and same(self.stream, old(self.stream)) and self.encoding == old(self.encoding), 'inv')
    # bad bytes surface as an IO-handling error, never as a raw decoding exception
    raises('rbql_engine.RbqlIOHandlingError', True, 'decode_error_is_io_handling_error')
    raises('AssertionError', False, 'reader_gives_up_only_when_exhausted')
    modifies(field(self, 'buffer'), field(self, 'detected_line_separator'), field(self, 'exhausted'), field(self, 'NL'), field(self, 'utf8_bom_removed'), self.stream)


@contract('rbql_csv.CSVRecordIterator.get_row_rfc', name='C12.row_rfc', props=['C12', 'C10'])
def _(self: Obj['rbql_csv.CSVRecordIterator']) -> Opt[Str]:
    requires(reader_inv(self), 'inv')
    requires(self.NL >= 0, 'line_counter_sane')
    local_types(rows_buffer=List[Str])
    loop_types(0, row=Opt[Str])
    invariant(0, reader_inv(self) and same(self.stream, old(self.stream)) and self.encoding == old(self.encoding) and self.comment_prefix == old(self.comment_prefix)
              and self.NL >= 1 and is_fresh(rows_buffer) and len(rows_buffer) >= 1, 'config')
    invariant(0, str_join('\n', contents(rows_buffer)) + rfc_tail(rest(self)) == line1(old(rest(self)), old(self.NL) == 0, self.encoding) + rfc_tail(after_first_line(old(rest(self)))), 'record_text_so_far')
    invariant(0, rfc_after(rest(self)) == rfc_after(after_first_line(old(rest(self)))), 'remaining_content')
    loop_hint(0, implies(not is_none(row), str_join('\n', contents(rows_buffer)) == str_join('\n', at_iter_start(contents(rows_buffer))) + '\n' + opt_val(row)))
    loop_hint(0, implies(not is_none(row) and not odd_quotes(opt_val(row)), at_iter_start(rfc_tail(rest(self))) == '\n' + opt_val(row) + rfc_tail(rest(self))))
    loop_hint(0, implies(not is_none(row) and not odd_quotes(opt_val(row)), at_iter_start(rfc_after(rest(self))) == rfc_after(rest(self))))
    exit_hint(implies(not is_none(row) and odd_quotes(opt_val(row)), at_iter_start(rfc_tail(rest(self))) == '\n' + opt_val(row) and at_iter_start(rfc_after(rest(self))) == rest(self)), 'closing_line')
    exit_hint(implies(is_none(row), at_iter_start(len(rest(self))) == 0 and at_iter_start(rfc_tail(rest(self))) == '' and at_iter_start(rfc_after(rest(self))) == '' and len(rest(self)) == 0 and rfc_after(rest(self)) == ''), 'end_of_content')
    exit_hint(implies(not is_none(row), str_join('\n', contents(rows_buffer)) == str_join('\n', at_iter_start(contents(rows_buffer))) + '\n' + opt_val(row)), 'joined')
    ensures(is_none(result) == (len(old(rest(self))) == 0), 'none_exactly_at_end_of_content')
    # a comment line or a line with balanced quotes is a record of its own
    ensures(implies(not is_none(result) and ((not is_none(self.comment_prefix) and line1(old(rest(self)), old(self.NL) == 0, self.encoding).startswith(opt_val(self.comment_prefix))) or not odd_quotes(line1(old(rest(self)), old(self.NL) == 0, self.encoding))),
                    opt_val(result) == line1(old(rest(self)), old(self.NL) == 0, self.encoding) and rest(self) == after_first_line(old(rest(self)))), 'balanced_line_is_a_record')
    # otherwise the record continues over physical lines (joined by LF) until its quotes balance, or to the end
    ensures(implies(not is_none(result) and not (not is_none(self.comment_prefix) and line1(old(rest(self)), old(self.NL) == 0, self.encoding).startswith(opt_val(self.comment_prefix))) and odd_quotes(line1(old(rest(self)), old(self.NL) == 0, self.encoding)),
                    opt_val(result) == line1(old(rest(self)), old(self.NL) == 0, self.encoding) + rfc_tail(after_first_line(old(rest(self))))
                    and rest(self) == rfc_after(after_first_line(old(rest(self))))), 'multiline_record')
    ensures(reader_inv(self), 'inv')
    raises('rbql_engine.RbqlIOHandlingError', True, 'decode_error_is_io_handling_error')
    modifies(field(self, 'buffer'), field(self, 'detected_line_separator'), field(self, 'exhausted'), field(self, 'NL'), field(self, 'utf8_bom_removed'), self.stream)
