# JavaScript stream reader (C20): the chunk -> lines layer of CSVRecordIterator (rbql-js/rbql_csv.js), translated mechanically by
# pyvc/jsfront.py (module js_rbql_csv).  Ghost state: decoder.delivered is the text the streaming decoder has returned so far (the
# concatenation of its results); lines_out are the lines handed to process_line so far.  Invariant: the lines of the delivered text, as
# text.split(/\r\n|\r|\n/) gives them for the WHOLE text (specs/jslines.py: jl), are lines_out followed by the open line
# partially_decoded_line - whatever the chunk boundaries were.  Parsed, never executed.

classdef('js.TextDecoder', ghost=dict(delivered=Str, pending=Bool, failed=Bool))
classdef('js.Buffer', ghost=dict(nbytes=Int))
classdef('js_rbql_csv.RbqlIOHandlingError', bases=['Exception'])
classdef('js_rbql_csv.CSVRecordIterator',
         fields=dict(decoder=Opt[Obj['js.TextDecoder']], encoding=Str, partially_decoded_line=Str, partially_decoded_line_ends_with_cr=Bool,
                     NL=Int, utf8_bom_removed=Bool, input_exhausted=Bool, process_line_polymorphic=MethodTag, line_aggregator=Obj['js_csv_utils.MultilineRecordAggregator']),
         ghost=dict(lines_out=Seq[Str], lines_in=Seq[Str]))


@trusted('js.TextDecoder.decode', trusted='A-JS-DECODER: TextDecoder.decode(chunk, {stream: true}) returns the next piece of the decoded text (the pieces concatenate to the decoding of the '
                                          'concatenated chunks) or throws; an incomplete sequence at the end of a chunk is carried over (`pending`): a non-empty chunk that yields no text leaves the '
                                          'decoder pending, and the text that completes a pending sequence starts with a non-ASCII character; validated by the bounded C20 job on every partition of UTF-8 samples')
def _(self: Obj['js.TextDecoder'], chunk: Obj['js.Buffer'], options: Str) -> Str:
    ghost_update(self.delivered, old(self.delivered) + result)
    ensures(implies(chunk.nbytes >= 1 and len(result) == 0, self.pending), 'a_chunk_without_text_is_carried_over')
    ensures(implies(old(self.pending) and len(result) >= 1, result[0] != '\n'), 'a_completed_sequence_is_not_a_line_feed')
    ensures(self.failed == old(self.failed), 'no_failure')
    raises('TypeError', self.delivered == old(self.delivered) and self.pending == old(self.pending) and self.failed, 'invalid_utf8_nothing_delivered')
    modifies(self)


@trusted('js.Buffer.toString', trusted='Buffer.toString(encoding): the binary (latin-1) path, not covered by the contract below (it requires a decoder)')
def _(self: Obj['js.Buffer'], encoding: Str) -> Str:
    pass


@trusted('js_csv_utils.split_lines', trusted='A-JS-RegExp: text.split(/\\r\\n|\\r|\\n/) is the line list jl(text) (LF, CR and CRLF each end a line; the part after the last break is the open line); '
                                             'validated against node by the bounded C20 job')
def _(text: Str) -> List[Str]:
    ensures(is_fresh(result) and contents(result) == jl(text, len(text)) and not is_offered(result), 'lines_of_the_text')


@trusted('js_rbql_csv.CSVRecordIterator.store_or_propagate_exception', trusted='error plumbing (Promises): keeps the first error for the consumer; does not touch the line state')
def _(self: Obj['js_rbql_csv.CSVRecordIterator'], exception: Opaque):
    ensures(self.partially_decoded_line == old(self.partially_decoded_line) and self.partially_decoded_line_ends_with_cr == old(self.partially_decoded_line_ends_with_cr)
            and self.lines_out == old(self.lines_out) and same(self.decoder, old(self.decoder)) and self.input_exhausted == old(self.input_exhausted), 'line_state_untouched')
    modifies(self)


@pred
def ends_cr(t):
    return len(t) >= 1 and t[len(t) - 1] == '\r'


@pred
def stream_inv(self):
    d = opt_val(self.decoder)
    # the CR flag is set only after a CR, and a CR at the end of the delivered text is remembered - by the flag, or by the decoder being in the
    # middle of a character (then the next text cannot start with a line feed)
    return (not is_none(self.decoder)
            and jl(d.delivered, len(d.delivered)) == self.lines_out + [self.partially_decoded_line]
            and implies(self.partially_decoded_line_ends_with_cr, ends_cr(d.delivered))
            and implies(ends_cr(d.delivered), self.partially_decoded_line_ends_with_cr or d.pending))


@contract('js_rbql_csv.CSVRecordIterator.process_line', name='IF.js.stream.process_line',
          trusted='the line consumer (BOM removal on the first line, comment lines, record splitting, the queue of produced records): here only its effect on the line layer matters: '
                  'it records the line and leaves the chunk state alone; its own behaviour is compared with the Python reader by the bounded C18/C20 jobs')
def _(self: Obj['js_rbql_csv.CSVRecordIterator'], line: Str):
    ghost_update(self.lines_out, old(self.lines_out) + [line])
    ensures(self.partially_decoded_line == old(self.partially_decoded_line) and self.partially_decoded_line_ends_with_cr == old(self.partially_decoded_line_ends_with_cr)
            and same(self.decoder, old(self.decoder)) and self.input_exhausted == old(self.input_exhausted), 'chunk_state_untouched')
    modifies(self)


@contract('js_rbql_csv.CSVRecordIterator.process_data_stream_chunk', name='C20.js.stream.chunk', props=['C20'], store_policy='none')
def _(self: Obj['js_rbql_csv.CSVRecordIterator'], data_chunk: Obj['js.Buffer']):
    requires(stream_inv(self), 'inv')
    requires(not same(self, opt_val(self.decoder)), 'decoder_is_another_object')
    requires(data_chunk.nbytes >= 1, 'streams_deliver_non_empty_chunks')
    local_types(decoded_string=Opt[Str], lines=List[Str], i=Int, first_line_index=Int, line_starts_with_lf=Bool)
    uses(jl_nonempty)
    uses(jl_last_after_cr(old(opt_val(self.decoder).delivered)))
    uses_at_exit(jl_head(opt_val(decoded_string), len(opt_val(decoded_string))))
    uses_at_exit(jl_concat_plain(old(opt_val(self.decoder).delivered), opt_val(decoded_string), len(opt_val(decoded_string))))
    uses_at_exit(jl_concat_crlf(old(opt_val(self.decoder).delivered), opt_val(decoded_string), len(opt_val(decoded_string))))
    # sequence algebra for `lines[0] = open + lines[0]; open = lines.pop(); hand on lines[first:]`
    uses(seq_init_append(old(self.lines_out), old(self.partially_decoded_line)))
    uses_at_exit(seq_init_last(jl(opt_val(decoded_string), len(opt_val(decoded_string)))))
    uses_at_exit(seq_init_last(jl(opt_val(decoded_string), len(opt_val(decoded_string)))[1:]))
    uses_at_exit(seq_tail_append([old(self.partially_decoded_line) + jl(opt_val(decoded_string), len(opt_val(decoded_string)))[0]], jl(opt_val(decoded_string), len(opt_val(decoded_string)))[1:]))
    uses_at_exit(seq_init_last([old(self.partially_decoded_line) + jl(opt_val(decoded_string), len(opt_val(decoded_string)))[0]] + jl(opt_val(decoded_string), len(opt_val(decoded_string)))[1:]))
    uses_at_exit(seq_init_of_append([old(self.partially_decoded_line) + jl(opt_val(decoded_string), len(opt_val(decoded_string)))[0]], jl(opt_val(decoded_string), len(opt_val(decoded_string)))[1:]))
    invariant(0, first_line_index <= i and i <= len(lines) and 0 <= first_line_index and first_line_index <= 1
              and contents(lines) == at_loop_entry(contents(lines)) and is_fresh(lines) and not is_offered(lines), 'index')
    invariant(0, self.lines_out == old(self.lines_out) + contents(lines)[first_line_index:i], 'lines_handed_on_in_order')
    invariant(0, self.partially_decoded_line == at_loop_entry(self.partially_decoded_line)
              and self.partially_decoded_line_ends_with_cr == at_loop_entry(self.partially_decoded_line_ends_with_cr)
              and same(self.decoder, old(self.decoder)) and not is_none(self.decoder)
              and opt_val(self.decoder).delivered == at_loop_entry(opt_val(self.decoder).delivered)
              and opt_val(self.decoder).pending == at_loop_entry(opt_val(self.decoder).pending), 'chunk_state_fixed_while_lines_are_handed_on')
    exit_hint(contents(lines) == ([old(self.partially_decoded_line) + jl(opt_val(decoded_string), len(opt_val(decoded_string)))[0]] + jl(opt_val(decoded_string), len(opt_val(decoded_string)))[1:])[:-1]
              and self.partially_decoded_line == ([old(self.partially_decoded_line) + jl(opt_val(decoded_string), len(opt_val(decoded_string)))[0]] + jl(opt_val(decoded_string), len(opt_val(decoded_string)))[1:])[-1],
              'the_array_after_the_update_and_the_pop', hide=['jl'])
    exit_hint(self.lines_out == old(self.lines_out) + contents(lines)[first_line_index:], 'every_remaining_line_was_handed_on', hide=['jl'])
    exit_hint(jl(old(opt_val(self.decoder).delivered), len(old(opt_val(self.decoder).delivered)))[:-1] == old(self.lines_out)
              and jl(old(opt_val(self.decoder).delivered), len(old(opt_val(self.decoder).delivered)))[-1] == old(self.partially_decoded_line), 'the_open_line_before', hide=['jl'])
    exit_hint(implies(first_line_index == 0, not (ends_cr(old(opt_val(self.decoder).delivered)) and len(opt_val(decoded_string)) >= 1 and opt_val(decoded_string)[0] == '\n')),
              'no_line_feed_right_after_a_carriage_return_goes_unnoticed', hide=['jl'])
    exit_hint(implies(first_line_index == 0, self.lines_out + [self.partially_decoded_line]
                      == old(self.lines_out) + [old(self.partially_decoded_line) + jl(opt_val(decoded_string), len(opt_val(decoded_string)))[0]] + jl(opt_val(decoded_string), len(opt_val(decoded_string)))[1:]),
              'plain_case_lines', hide=['jl'])
    exit_hint(implies(first_line_index == 1, self.lines_out + [self.partially_decoded_line] == old(self.lines_out) + jl(opt_val(decoded_string), len(opt_val(decoded_string)))[1:]),
              'crlf_case_lines', hide=['jl'])
    # the lines handed on so far, plus the open line, are the lines of everything delivered so far - for every way of cutting the input into chunks
    ensures(stream_inv(self), 'lines_of_the_whole_text_whatever_the_chunks', hide=['jl'])
    ensures(same(self.decoder, old(self.decoder)), 'same_decoder', hide=['jl'])
    raises('AssertionError', False, 'the_skipped_line_is_empty', hide=['jl'])
    modifies(self, opt_val(self.decoder), fresh_only())


@trusted('js.TextDecoder.decode__0', trusted='A-JS-DECODER: decode() without arguments flushes the decoder: it throws when the input ended inside a multi-byte character and delivers nothing otherwise')
def _(self: Obj['js.TextDecoder']) -> Str:
    ensures(len(result) == 0 and self.delivered == old(self.delivered) and self.failed == old(self.failed), 'nothing_more_is_delivered')
    raises('TypeError', self.delivered == old(self.delivered) and self.failed, 'truncated_sequence')
    modifies(self)


classdef('js_csv_utils.MultilineRecordAggregator')


@trusted('js_csv_utils.MultilineRecordAggregator.is_inside_multiline_record', trusted='multi-line (quoted_rfc) record assembly: compared with the Python reader by the bounded jobs')
def _(self: Obj['js_csv_utils.MultilineRecordAggregator']) -> Bool:
    pass


@trusted('js_csv_utils.MultilineRecordAggregator.get_full_line', trusted='multi-line (quoted_rfc) record assembly: compared with the Python reader by the bounded jobs')
def _(self: Obj['js_csv_utils.MultilineRecordAggregator'], line_separator: Str) -> Str:
    pass


@trusted('js_rbql_csv.CSVRecordIterator.process_record_line', trusted='record splitting and the record queue: leaves the line layer alone')
def _(self: Obj['js_rbql_csv.CSVRecordIterator'], line: Str):
    ensures(self.partially_decoded_line == old(self.partially_decoded_line) and self.lines_out == old(self.lines_out) and same(self.decoder, old(self.decoder))
            and self.input_exhausted == old(self.input_exhausted), 'line_state_untouched')
    modifies(self)


@trusted('js_rbql_csv.CSVRecordIterator.try_resolve_next_record', trusted='Promise plumbing: leaves the line layer alone')
def _(self: Obj['js_rbql_csv.CSVRecordIterator']):
    ensures(self.partially_decoded_line == old(self.partially_decoded_line) and self.lines_out == old(self.lines_out) and same(self.decoder, old(self.decoder))
            and self.input_exhausted == old(self.input_exhausted), 'line_state_untouched')
    modifies(self)


@contract('js_rbql_csv.CSVRecordIterator.process_data_stream_end', name='C20.js.stream.end', props=['C20'], store_policy='none')
def _(self: Obj['js_rbql_csv.CSVRecordIterator']):
    requires(stream_inv(self), 'inv')
    requires(not same(self, opt_val(self.decoder)), 'decoder_is_another_object')
    uses(jl_nonempty)
    uses(seq_init_append(old(self.lines_out), old(self.partially_decoded_line)))
    # at the end of the stream every line of the whole text has been handed on, except an empty last line (a final line break ends the last line,
    # it does not start another): exactly what bulk reading does with split_lines(text) - whatever the chunks were
    requires(not opt_val(self.decoder).failed, 'no_decoding_error_so_far')
    ensures(implies(not opt_val(self.decoder).failed,
                    self.lines_out == (jl(opt_val(self.decoder).delivered, len(opt_val(self.decoder).delivered))[:-1]
                                       if len(jl(opt_val(self.decoder).delivered, len(opt_val(self.decoder).delivered))[-1]) == 0
                                       else jl(opt_val(self.decoder).delivered, len(opt_val(self.decoder).delivered)))), 'all_lines_of_the_text_but_an_empty_last_one', hide=['jl'])
    ensures(opt_val(self.decoder).delivered == old(opt_val(self.decoder).delivered) and same(self.decoder, old(self.decoder)), 'nothing_more_is_decoded')
    ensures(self.input_exhausted, 'exhausted')
    modifies(self, opt_val(self.decoder))
