# sqlite front end (C06): the only SQL text RBQL ever sends is `SELECT * FROM <identifier>;` with an identifier made of
# letters, digits and underscore.  sqlite3 itself is a dependency (A-DEP): its cursor gets an assumed contract.

classdef('sqlite3.Connection')
classdef('sqlite3.Cursor', ghost=dict(sent=Seq[Str]))
classdef('sqlite3.OperationalError', bases=['Exception'])
classdef('rbql_sqlite.SqliteRecordIterator', bases=['rbql_engine.RBQLInputIterator'],
         fields=dict(db_connection=Obj['sqlite3.Connection'], table_name=Str, variable_prefix=Str, cursor=Obj['sqlite3.Cursor']))


@spec
def ident_upto(s: Str, n: Int) -> Bool:
    # the first n characters of s are letters, digits or underscore
    if n <= 0:
        return True
    return ident_upto(s, n - 1) and str_contains('abcdefghijklmnopqrstuvwxyzABCDEFGHIJKLMNOPQRSTUVWXYZ0123456789_', s[n - 1])


@trusted('re[^[a-zA-Z0-9_]*$].match', pattern='^[a-zA-Z0-9_]*$',
         trusted='A-RE-ident: ^[a-zA-Z0-9_]*$ matches exactly the texts made of letters, digits and underscore, optionally followed by one final line break (Python $ semantics); validated boundedly by bounded/jobs_misc.py sqlite_identifiers')
def _(src: Str) -> Opt[Tuple[Int, Int, Str]]:
    ensures((not is_none(result)) == (ident_upto(src, len(src)) or (len(src) >= 1 and src[len(src) - 1] == '\n' and ident_upto(src, len(src) - 1))), 'identifier_text')


@trusted('sqlite3.Connection.cursor', trusted='A-DEP: sqlite3 connection hands out a cursor; nothing is sent to the database by that')
def _(self: Obj['sqlite3.Connection']) -> Obj['sqlite3.Cursor']:
    ensures(is_fresh(result) and len(result.sent) == 0, 'fresh_cursor')


@trusted('sqlite3.Cursor.execute', trusted='A-DEP: cursor.execute(sql) sends exactly that statement text to sqlite (ghost `sent`), and may fail with OperationalError')
def _(self: Obj['sqlite3.Cursor'], sql: Str):
    ensures(self.sent == old(self.sent) + [sql], 'statement_sent')
    raises('sqlite3.OperationalError', self.sent == old(self.sent) + [sql], 'statement_sent_and_rejected')
    modifies(self)


@contract('rbql_sqlite.SqliteRecordIterator.__init__', name='C06.sqlite.init', props=['C06'], store_policy='none')
def _(self: Obj['rbql_sqlite.SqliteRecordIterator'], db_connection: Obj['sqlite3.Connection'], table_name: Str, variable_prefix: Str):
    requires(not ('\n' in table_name), 'identifier_from_query_text_has_no_line_break')
    # C06: whatever the identifier is, the only thing that can reach sqlite is SELECT * FROM <letters/digits/underscore>;
    ensures(ident_upto(table_name, len(table_name)) and self.cursor.sent == ['SELECT * FROM ' + table_name + ';'], 'only_a_select_from_a_plain_identifier_is_sent')
    raises('rbql_engine.RbqlIOHandlingError', len(self.cursor.sent) == 0 or (ident_upto(table_name, len(table_name)) and self.cursor.sent == ['SELECT * FROM ' + table_name + ';']), 'hostile_identifier_rejected_before_anything_is_sent')
    raises('sqlite3.OperationalError', ident_upto(table_name, len(table_name)) and self.cursor.sent == ['SELECT * FROM ' + table_name + ';'], 'only_a_select_from_a_plain_identifier_is_sent')
    modifies(self, anything())
