# sqlite front end (C06): the only SQL text RBQL ever sends is `SELECT * FROM <identifier>;` with an identifier made of
# letters, digits and underscore.  sqlite3 itself is a dependency (A-DEP): its cursor gets an assumed contract.

classdef('sqlite3.Connection')
classdef('sqlite3.Cursor', ghost=dict(sent=Seq[Str]))
classdef('sqlite3.OperationalError', bases=['Exception'])
classdef('rbql_sqlite.SqliteRecordIterator', bases=['rbql_engine.RBQLInputIterator'],
         fields=dict(db_connection=Obj['sqlite3.Connection'], table_name=Str, variable_prefix=Str, cursor=Obj['sqlite3.Cursor']))


@spec
def ident_upto(s: Str, n: Int) -> Bool:
    # the first n characters of s are letters, digits or underscore
    if n <= 0:
        return True
    return ident_upto(s, n - 1) and str_contains('abcdefghijklmnopqrstuvwxyzABCDEFGHIJKLMNOPQRSTUVWXYZ0123456789_', s[n - 1])


@trusted('re[^[a-zA-Z0-9_]*$].match', pattern='^[a-zA-Z0-9_]*$',
         trusted='A-RE-ident: ^[a-zA-Z0-9_]*$ matches exactly the texts made of letters, digits and underscore, optionally followed by one final line break (Python $ semantics); validated boundedly by bounded/jobs_misc.py sqlite_identifiers')
def _(src: Str) -> Opt[Tuple[Int, Int, Str]]:
    ensures((not is_none(result)) == (ident_upto(src, len(src)) or (len(src) >= 1 and src[len(src) - 1] == '\n' and ident_upto(src, len(src) - 1))), 'identifier_text')


@trusted('sqlite3.Connection.cursor', trusted='A-DEP: sqlite3 connection hands out a cursor; nothing is sent to the database by that')
def _(self: Obj['sqlite3.Connection']) -> Obj['sqlite3.Cursor']:
    ensures(is_fresh(result) and len(result.sent) == 0, 'fresh_cursor')


@trusted('sqlite3.Cursor.execute', trusted='A-DEP: cursor.execute(sql) sends exactly that statement text to sqlite (ghost `sent`), and may fail with OperationalError')
def _(self: Obj['sqlite3.Cursor'], sql: Str):
    ensures(self.sent == old(self.sent) + [sql], 'statement_sent')
    raises('sqlite3.OperationalError', self.sent == old(self.sent) + [sql], 'statement_sent_and_rejected')
    modifies(self)


@contract('rbql_sqlite.SqliteRecordIterator.__init__', name='C06.sqlite.init', props=['C06'], store_policy='none')
def _(self: Obj['rbql_sqlite.SqliteRecordIterator'], db_connection: Obj['sqlite3.Connection'], table_name: Str, variable_prefix: Str):
    requires(not ('\n' in table_name), 'identifier_from_query_text_has_no_line_break')
    # C06: whatever the identifier is, the only thing that can reach sqlite is SELECT * FROM <letters/digits/underscore>;
    ensures(ident_upto(table_name, len(table_name)) and self.cursor.sent == ['SELECT * FROM ' + table_name + ';'], 'only_a_select_from_a_plain_identifier_is_sent')
    ensures(same(self.db_connection, db_connection) and self.table_name == table_name and self.variable_prefix == variable_prefix and is_fresh(self.cursor), 'configured_as_given')
    raises('rbql_engine.RbqlIOHandlingError', len(self.cursor.sent) == 0 or (ident_upto(table_name, len(table_name)) and self.cursor.sent == ['SELECT * FROM ' + table_name + ';']), 'hostile_identifier_rejected_before_anything_is_sent')
    raises('sqlite3.OperationalError', ident_upto(table_name, len(table_name)) and self.cursor.sent == ['SELECT * FROM ' + table_name + ';'], 'only_a_select_from_a_plain_identifier_is_sent')
    modifies(self, fresh_only())


# ---------------------------------------------------------------- the rest of the sqlite front end (C13 entry point, C15 file closing)
classdef('sqlite3.Cursor', ghost=dict(names=Seq[Str]))
classdef('rbql_sqlite.SqliteDbRegistry', bases=['rbql_engine.RBQLTableRegistry'], fields=dict(db_connection=Obj['sqlite3.Connection'], record_iterator=Obj['rbql_sqlite.SqliteRecordIterator']))


@trusted('builtins.open#w', trusted='A-IO: open(path, "w..") returns a new, open file object for writing or raises OSError')
def _(path: Str, mode: Str) -> Obj['io.OutStream']:
    ensures(is_fresh(result) and allocated(result) and not result.closed and result.written == '', 'a_new_open_file')
    raises('OSError', True, 'cannot_open')


@trusted('rbql_csv.is_ascii', trusted='pure text predicate (all characters below 128): generator expression, outside the subset')
def _(s: Str) -> Bool:
    pass


@trusted('os.path.join', trusted='A-IO: pure path arithmetic')
def _(a: Str, b: Str) -> Str:
    pass


@trusted('os.path.expanduser', trusted='A-IO: pure path arithmetic over the environment')
def _(a: Str) -> Str:
    pass


@trusted('os.path.exists', trusted='A-IO: file system lookup; changes nothing')
def _(a: Str) -> Bool:
    pass


@trusted('os.path.dirname', trusted='A-IO: pure path arithmetic')
def _(a: Str) -> Str:
    pass


@trusted('rbql_csv.read_user_init_code', trusted='A-IO: reads the text of ~/.rbql_init_source.py (opens and closes that file itself)')
def _(rbql_init_source_path: Str) -> Str:
    raises('OSError', True, 'cannot_read')


@contract('rbql_sqlite.SqliteRecordIterator.get_warnings', name='C14.sqlite.iterator.get_warnings', props=['C14', 'C13'])
def _(self: Obj['rbql_sqlite.SqliteRecordIterator']) -> List[Str]:
    ensures(len(result) == 0 and is_fresh(result), 'no_warnings')


@contract('rbql_sqlite.SqliteDbRegistry.__init__', name='C13.sqlite.registry.init', props=['C13', 'C16'], store_policy='none')
def _(self: Obj['rbql_sqlite.SqliteDbRegistry'], db_connection: Obj['sqlite3.Connection']):
    ensures(same(self.db_connection, db_connection), 'registered_as_given')
    modifies(self)


@contract('rbql_sqlite.SqliteDbRegistry.get_iterator_by_table_id', name='C13.sqlite.registry.lookup', props=['C13', 'C06', 'C16'], store_policy='none')
def _(self: Obj['rbql_sqlite.SqliteDbRegistry'], table_id: Str, single_char_alias: Str) -> Opt[Obj['rbql_sqlite.SqliteRecordIterator']]:
    requires(not ('\n' in table_id), 'identifier_from_query_text_has_no_line_break')
    # every lookup creates a NEW iterator over the registry's connection, under the alias asked for; only a SELECT over a plain identifier is sent
    ensures(not is_none(result) and is_fresh(opt_val(result)) and same(opt_val(result).db_connection, self.db_connection) and opt_val(result).table_name == table_id
            and opt_val(result).variable_prefix == single_char_alias, 'a_new_iterator_over_the_same_connection')
    ensures(ident_upto(table_id, len(table_id)) and opt_val(result).cursor.sent == ['SELECT * FROM ' + table_id + ';'], 'only_a_select_from_a_plain_identifier_is_sent')
    raises('rbql_engine.RbqlIOHandlingError', True, 'no_such_table_or_hostile_identifier')
    raises('sqlite3.OperationalError', True, 'sqlite_error')
    modifies(self, fresh_only())


classdef('sqlite3.Cursor', fields=dict(description=List[Tuple[Str, Str]]), ghost=dict(result_rows=Seq[RecV], fetched=Int))
classdef('rbql_sqlite.SqliteRecordIterator', ghost=dict(names=Seq[Str]))


@pred
def names_are_description(self):
    # ghost definition + A-DEP: the column names of the table are the first components of the entries of cursor.description (sqlite3 keeps
    # them for the statement executed on that cursor; the other six components of an entry are None and are not modelled)
    return len(self.names) == len(self.cursor.description) and forall(Int, lambda i: implies(0 <= i and i < len(self.names), contents(self.cursor.description)[i][0] == self.names[i]))


@contract('rbql_sqlite.SqliteRecordIterator.get_header', name='C09.sqlite.get_header', props=['C09', 'C07', 'C06'])
def _(self: Obj['rbql_sqlite.SqliteRecordIterator']) -> List[Str]:
    assumes(names_are_description(self), 'ghost-def / A-DEP: names are the first components of cursor.description')
    # the header is read off the cursor the records come from (so names and fields are positions of the same SELECT *), as a new list; nothing is sent to sqlite
    uses_at_exit(seq_ext_str(contents(result), self.names, len(self.names)))
    ensures(is_fresh(result) and contents(result) == self.names, 'the_column_names_of_the_records_cursor')
    ensures(self.cursor.sent == old(self.cursor.sent), 'nothing_is_sent_to_sqlite')


@trusted('sqlite3.Cursor.fetchone', trusted='A-DEP: fetchone() hands out the rows of the result set in order, then None for ever; it sends nothing')
def _(self: Obj['sqlite3.Cursor']) -> Opt[Seq[Cell]]:
    ensures(implies(old(self.fetched) < len(self.result_rows), not is_none(result) and opt_val(result) == self.result_rows[old(self.fetched)] and self.fetched == old(self.fetched) + 1), 'next_row')
    ensures(implies(old(self.fetched) >= len(self.result_rows), is_none(result) and self.fetched == old(self.fetched)), 'exhausted')
    ensures(self.result_rows == old(self.result_rows) and self.sent == old(self.sent), 'result_set_fixed')
    modifies(field(self, 'fetched'))


@contract('rbql_sqlite.SqliteRecordIterator.get_record', name='C13.sqlite.iterator.get_record', props=['C13', 'C06'], store_policy='none')
def _(self: Obj['rbql_sqlite.SqliteRecordIterator']) -> Opt[List[Cell]]:
    # refinement of IF.iterator.get_record over the rows of the cursor: the k-th pull hands out the k-th row as a NEW list (so expressions may
    # concatenate it), then None for ever; nothing is sent to sqlite
    ensures(implies(old(self.cursor.fetched) < len(self.cursor.result_rows),
                    not is_none(result) and is_fresh(opt_val(result)) and contents(opt_val(result)) == self.cursor.result_rows[old(self.cursor.fetched)] and self.cursor.fetched == old(self.cursor.fetched) + 1), 'next')
    ensures(implies(old(self.cursor.fetched) >= len(self.cursor.result_rows), is_none(result) and self.cursor.fetched == old(self.cursor.fetched)), 'exhausted')
    ensures(self.cursor.result_rows == old(self.cursor.result_rows) and self.cursor.sent == old(self.cursor.sent), 'result_set_fixed_nothing_sent')
    modifies(field(self.cursor, 'fetched'), fresh_only())


@contract('rbql_sqlite.query_sqlite_to_csv', name='C15.query_sqlite_to_csv', props=['C15', 'C13', 'C06'], store_policy='none')
def _(query_text: Str, db_connection: Obj['sqlite3.Connection'], input_table_name: Str, output_path: Opt[Str], output_delim: Str, output_policy: Str, output_csv_encoding: Opt[Str],
      output_warnings: List[Str], user_init_code: Str, colorize_output: Bool):
    requires(not ('\n' in input_table_name), 'table_name_has_no_line_break')
    requires(is_none(output_csv_encoding) or opt_val(output_csv_encoding) == 'utf-8' or opt_val(output_csv_encoding) == 'latin-1', 'known_encoding')
    requires(not colorize_output, 'colours_off')
    local_types(output_stream=Opt[Obj['io.OutStream']], join_tables_registry=Opt[Obj['rbql_sqlite.SqliteDbRegistry']], input_iterator=Obj['rbql_sqlite.SqliteRecordIterator'],
                output_writer=Obj['rbql_csv.CSVWriter'])
    # C15: the output file this function opened (exactly when a path was given) is closed on EVERY path out of it -- normal return, a query error
    # of any kind, a failure to open -- and nothing it did not open is closed by it
    ensures(close_output_on_finish == (not is_none(output_path)) and implies(close_output_on_finish, not is_none(output_stream) and opt_val(output_stream).closed), 'output_file_closed')
    raises('rbql_engine.RbqlParsingError', implies(close_output_on_finish, not is_none(output_stream) and opt_val(output_stream).closed), 'output_file_closed_on_query_error')
    raises('rbql_engine.RbqlRuntimeError', implies(close_output_on_finish, not is_none(output_stream) and opt_val(output_stream).closed), 'output_file_closed_on_query_error')
    raises('rbql_engine.RbqlIOHandlingError', implies(close_output_on_finish, not is_none(output_stream) and opt_val(output_stream).closed), 'output_file_closed_on_query_error')
    raises('SyntaxError', implies(close_output_on_finish, not is_none(output_stream) and opt_val(output_stream).closed), 'output_file_closed_on_query_error')
    raises('AssertionError', implies(close_output_on_finish, not is_none(output_stream) and opt_val(output_stream).closed), 'output_file_closed_on_query_error')
    raises('sqlite3.OperationalError', implies(close_output_on_finish, not is_none(output_stream) and opt_val(output_stream).closed), 'output_file_closed_on_query_error')
    raises('RuntimeError', implies(close_output_on_finish, not is_none(output_stream) and opt_val(output_stream).closed), 'output_file_closed_on_unknown_policy')
    raises('OSError', not close_output_on_finish or (not is_none(output_stream) and opt_val(output_stream).closed), 'nothing_left_open')
    # C13: the engine gets a new iterator over the caller's connection and table, a new unused CSV writer over the output stream, and a registry over the same connection
    cut('rbql_engine.query(', same(input_iterator.db_connection, db_connection) and input_iterator.table_name == input_table_name and input_iterator.variable_prefix == 'a', 'engine_reads_the_callers_table')
    cut('rbql_engine.query(', not is_none(join_tables_registry) and same(opt_val(join_tables_registry).db_connection, db_connection), 'join_tables_come_from_the_same_connection')
    cut('rbql_engine.query(', not is_none(output_stream) and output_writer.close_stream_on_finish == close_output_on_finish
        and fresh_writer(output_writer) and not output_writer.sorted_iface and output_writer.header_calls == 0 and not same(output_writer, input_iterator)
        and close_output_on_finish == (not is_none(output_path)) and implies(close_output_on_finish, allocated(opt_val(output_stream))), 'engine_writes_through_a_new_unused_csv_writer')
    modifies(anything())
