# JavaScript port of csv_utils (C18): the functions of rbql-js/csv_utils.js, translated mechanically on every run by
# pyvc/jsfront.py (module js_csv_utils), are verified against THE SAME dialect spec functions as the Python ones
# (contracts/csv_utils.py): field_text / field_stop / field_warn / split_spec / quote_spec / ws_spans.  Agreement of the two
# implementations on every line, delimiter and policy is then a corollary: both equal the spec.
# The JavaScript regexes are anchored with ^ and applied to src.substring(cidx); the lemmas skip_sp_suffix / qclose_suffix
# (specs/csv.py) carry the scanner facts from the suffix back to the whole line.


@trusted('js_csv_utils.field_rgx.match', pattern='^"((?:[^"]*"")*[^"]*)"',
         trusted='A-RE-field / A-JS-RegExp (RegExp.exec of the ^-anchored pattern on a string == re.match at position 0; validated against node by bounded/jobs_c18.py): the anchored regex "((?:[^"]*"")*[^"]*)" ends at the scanner end qclose whenever the quoted string is closed; otherwise a match, if any, is followed by a quote (validated exhaustively to length 9)')
def _(src: Str, pos: Int) -> Opt[Tuple[Int, Int, Str]]:
    requires(0 <= pos and pos <= len(src), 'pos_in_range')
    ensures(implies(pos >= len(src) or src[pos] != '"', is_none(result)), 'needs_opening_quote')
    ensures(implies(pos < len(src) and src[pos] == '"' and qclose(src, pos + 1) != -1,
                    not is_none(result) and opt_val(result)[0] == pos and opt_val(result)[1] == qclose(src, pos + 1)
                    and opt_val(result)[2] == src[pos + 1:qclose(src, pos + 1) - 1]), 'closed_string_matches_to_its_end')
    ensures(implies(not is_none(result) and qclose(src, pos + 1) == -1,
                    opt_val(result)[1] < len(src) and src[opt_val(result)[1]] == '"'), 'unclosed_match_is_followed_by_quote')
    ensures(implies(not is_none(result), opt_val(result)[0] == pos and pos < opt_val(result)[1] and opt_val(result)[1] <= len(src)), 'span')


@trusted('js_csv_utils.field_rgx_external_whitespaces.match', pattern='^ *"((?:[^"]*"")*[^"]*)" *',
         trusted='A-RE-field / A-JS-RegExp: same with optional surrounding spaces (validated exhaustively to length 9)')
def _(src: Str, pos: Int) -> Opt[Tuple[Int, Int, Str]]:
    requires(0 <= pos and pos <= len(src), 'pos_in_range')
    ensures(implies(skip_sp(src, pos) >= len(src) or src[skip_sp(src, pos)] != '"', is_none(result)), 'needs_opening_quote')
    ensures(implies(skip_sp(src, pos) < len(src) and src[skip_sp(src, pos)] == '"' and qclose(src, skip_sp(src, pos) + 1) != -1,
                    not is_none(result) and opt_val(result)[0] == pos and opt_val(result)[1] == skip_sp(src, qclose(src, skip_sp(src, pos) + 1))
                    and opt_val(result)[2] == src[skip_sp(src, pos) + 1:qclose(src, skip_sp(src, pos) + 1) - 1]), 'closed_string_matches_to_its_end')
    ensures(implies(not is_none(result) and qclose(src, skip_sp(src, pos) + 1) == -1,
                    opt_val(result)[1] < len(src) and src[opt_val(result)[1]] == '"'), 'unclosed_match_is_followed_by_quote')
    ensures(implies(not is_none(result), opt_val(result)[0] == pos and pos < opt_val(result)[1] and opt_val(result)[1] <= len(src)), 'span')


@contract('js_csv_utils.extract_next_field', name='C18.js.extract', props=['C18'], store_policy='none')
def _(src: Str, dlm: Str, preserve_quotes_and_whitespaces: Bool, allow_external_whitespaces: Bool, cidx: Int, result: List[Str]) -> Tuple[Int, Bool]:
    requires(0 <= cidx and cidx < len(src), 'cidx_in_range')
    requires(len(dlm) == 1 and dlm != '"', 'single_char_delimiter')
    requires(implies(allow_external_whitespaces, dlm != ' '), 'spaces_allowed_only_for_non_space_delimiter')
    uses(skip_sp_props(src, cidx, len(src) - cidx))
    # the JavaScript code matches the anchored regexes against src.substring(cidx): carry the scanner facts back to src
    uses_at_exit(skip_sp_suffix(src, cidx, 0, len(src) - cidx))
    uses_at_exit(qclose_suffix(src, cidx, 1, len(src) - cidx - 1))
    uses_at_exit(qclose_suffix(src, cidx, skip_sp(src[cidx:], 0) + 1, len(src) - cidx - skip_sp(src[cidx:], 0) - 1))
    uses_at_exit(skip_sp_suffix(src, cidx, qclose(src[cidx:], skip_sp(src[cidx:], 0) + 1), len(src) - cidx - qclose(src[cidx:], skip_sp(src[cidx:], 0) + 1)))
    uses_at_exit(qclose_range(src, skip_sp(src, cidx) + 1, len(src) - skip_sp(src, cidx) - 1))
    uses_at_exit(qclose_range(src, cidx + 1, len(src) - cidx - 1))
    uses_at_exit(substr_suffix(src, cidx, 1, qclose(src, cidx + 1) - cidx - 1))
    uses_at_exit(substr_suffix(src, cidx, skip_sp(src, cidx) - cidx + 1, qclose(src, skip_sp(src, cidx) + 1) - cidx - 1))
    exit_hint(implies(allow_external_whitespaces, forall(Int, lambda k: implies(cidx <= k and k < skip_sp(src, cidx), src[k] == ' '))), 'leading_spaces')
    exit_hint(implies(allow_external_whitespaces and cidx <= next_dlm(src, dlm, cidx) and next_dlm(src, dlm, cidx) < skip_sp(src, cidx),
                      src[next_dlm(src, dlm, cidx)] == ' '), 'a_delimiter_among_the_leading_spaces_would_be_a_space')
    exit_hint(implies(q_open(src, cidx, allow_external_whitespaces) < len(src) and src[q_open(src, cidx, allow_external_whitespaces)] == '"',
                      q_open(src, cidx, allow_external_whitespaces) < next_dlm(src, dlm, cidx)), 'opening_quote_before_next_delimiter')
    uses_at_exit(contains_char(src, cidx, next_dlm(src, dlm, cidx), q_open(src, cidx, allow_external_whitespaces)))
    # character and slice facts about the suffix, as instances of proved lemmas (no per-path obligation)
    uses_at_exit(char_suffix(src, cidx, 0))
    uses_at_exit(char_suffix(src, cidx, skip_sp(src, cidx) - cidx))
    uses_at_exit(char_suffix(src, cidx, match_end))
    uses_at_exit(substr_suffix(src, cidx, 0, match_end))
    # exactly one field is appended: the spec field starting at cidx; the returned index is just past its delimiter
    ensures(contents(result) == old(contents(result)) + [field_text(src, dlm, cidx, allow_external_whitespaces, preserve_quotes_and_whitespaces)], 'appends_the_field', hide=['skip_sp', 'qclose', 'str_replace'])
    ensures(result_value()[0] == field_stop(src, dlm, cidx, allow_external_whitespaces) + 1, 'next_index', hide=['skip_sp', 'qclose', 'str_replace'])
    ensures(result_value()[1] == field_warn(src, dlm, cidx, allow_external_whitespaces), 'warning_iff_unquoted_field_has_quote', hide=['skip_sp', 'qclose', 'str_replace'])
    modifies(contents(result))


@contract('js_csv_utils.split_quoted_str', name='C18.js.split', props=['C18'], store_policy='none')
def _(src: Str, dlm: Str, preserve_quotes_and_whitespaces: Bool) -> Tuple[List[Str], Bool]:
    requires(len(dlm) == 1 and dlm != '"', 'single_char_delimiter')
    local_types(result=List[Str])
    loop_types(0, extraction_report=Tuple[Int, Bool])
    invariant(0, 0 <= cidx and is_fresh(result) and allow_external_whitespaces == (dlm != ' ') and len(src) > 0, 'bounds')
    invariant(0, contents(result) + split_from(src, dlm, dlm != ' ', preserve_quotes_and_whitespaces, cidx)
              == split_from(src, dlm, dlm != ' ', preserve_quotes_and_whitespaces, 0), 'fields_so_far', hide=['field_text', 'field_stop', 'field_warn', 'split_from'])
    loop_hint(0, split_from(src, dlm, dlm != ' ', preserve_quotes_and_whitespaces, at_iter_start(cidx))
              == [field_text(src, dlm, at_iter_start(cidx), dlm != ' ', preserve_quotes_and_whitespaces)] + split_from(src, dlm, dlm != ' ', preserve_quotes_and_whitespaces, cidx),
              hide=['field_text', 'field_stop', 'field_warn'])
    loop_hint(0, contents(result) == at_iter_start(contents(result)) + [field_text(src, dlm, at_iter_start(cidx), dlm != ' ', preserve_quotes_and_whitespaces)])
    invariant(0, (warning or warn_from(src, dlm, dlm != ' ', cidx)) == warn_from(src, dlm, dlm != ' ', 0), 'warning_so_far', hide=['field_text', 'field_stop', 'field_warn'])
    # C11: with a quote in the line, the fields are exactly the dialect's fields and the warning is exact
    ensures(implies('"' in src, contents(result_value()[0]) == split_spec(src, dlm, preserve_quotes_and_whitespaces)), 'fields_follow_the_dialect')
    ensures(implies('"' in src, result_value()[1] == warn_from(src, dlm, dlm != ' ', 0)), 'warning_iff_unquoted_field_has_quote')
    # fast path (no quote in the line): plain split, no warning; its agreement with the dialect is the lemma
    # split_noquote (bounded validation only, see evidence)
    ensures(implies(not ('"' in src), contents(result_value()[0]) == str_split(src, dlm) and not result_value()[1]), 'fastpath_is_plain_split')
    ensures(is_fresh(result_value()[0]), 'fresh_list')
    raises('AssertionError', False, 'delimiter_is_not_a_quote')


@contract('js_csv_utils.split_whitespace_separated_str', name='C18.js.ws_split', props=['C18'], store_policy='none')
def _(src: Str, preserve_whitespaces: Bool) -> List[Str]:
    local_types(result=List[Str])
    loop_types(0, m=Opaque)
    invariant(0, 0 <= __i and is_fresh(result), 'idx')
    invariant(0, implies(not preserve_whitespaces, contents(result) == ws_texts(src, ws_spans(src), __i)), 'runs_so_far')
    invariant(1, is_fresh(result) and 0 <= i and len(result) == at_loop_entry(len(result)), 'fresh')
    loop_types(1, i=Int)
    # whitespace policy: the fields are the maximal runs of non-space characters
    ensures(implies(not preserve_whitespaces, contents(result) == ws_texts(src, ws_spans(src), len(ws_spans(src)))), 'split_on_runs_of_spaces')
    ensures(is_fresh(result), 'fresh_list')


@contract('js_csv_utils.smart_split', name='C18.js.smart_split', props=['C18'], store_policy='none')
def _(src: Str, dlm: Str, policy: Str, preserve_quotes_and_whitespaces: Bool) -> Tuple[List[Str], Bool]:
    requires(implies(policy != 'simple' and policy != 'whitespace' and policy != 'monocolumn', len(dlm) == 1 and dlm != '"'), 'single_char_delimiter_for_quoted_policies')
    requires(implies(policy == 'simple', len(dlm) >= 1), 'non_empty_delimiter')
    ensures(implies(not preserve_quotes_and_whitespaces, contents(result[0]) == record_fields(src, dlm, policy)), 'fields_by_policy')
    ensures(implies(not preserve_quotes_and_whitespaces, result[1] == record_warn(src, dlm, policy)), 'warning_by_policy')
    ensures(is_fresh(result[0]), 'fresh_list')


@contract('js_csv_utils.quote_field', name='C18.js.quote_field', props=['C18'])
def _(src: Str, delim: Str) -> Str:
    ensures(result == quote_spec(src, delim, False), 'quoted_iff_needed')


@contract('js_csv_utils.rfc_quote_field', name='C18.js.rfc_quote_field', props=['C18'])
def _(src: Str, delim: Str) -> Str:
    ensures(result == quote_spec(src, delim, True), 'quoted_iff_needed_rfc')


# ---------------------------------------------------------------- output header rule (rbql-js/rbql.js select_output_header)
# The JavaScript function is a port of the Python one and is verified against the same naming-rule spec (header_upto, any_star,
# any_alias: specs/header.py), so both derive the same header from the same column infos; how the column infos are obtained from the
# select list (text spans in JavaScript, ast in Python) is compared by the bounded stand-in only.
classdef('js_rbql.RbqlParsingError', bases=['Exception'])

@contract('js_rbql.select_output_header', name='C18.js.header', props=['C18'], store_policy='none')
def _(input_header: Opt[List[Str]], join_header: Opt[List[Str]], query_column_infos: List[Opt[NT['rbql_engine.QueryColumnInfo']]]) -> Opt[List[Str]]:
    requires(implies(is_none(input_header), is_none(join_header)), 'join_header_needs_input_header')
    requires(forall(Int, lambda i: implies(0 <= i and i < len(query_column_infos) and not is_none(contents(query_column_infos)[i])
                                           and not is_none(opt_val(contents(query_column_infos)[i]).column_index), opt_val(opt_val(contents(query_column_infos)[i]).column_index) >= 0)), 'column_indices_are_zero_based')
    local_types(input_header=Opt[List[Str]], join_header=Opt[List[Str]], output_header=List[Str])
    loop_types(0, qci=Opt[NT['rbql_engine.QueryColumnInfo']])
    loop_types(1, qci=Opt[NT['rbql_engine.QueryColumnInfo']])
    invariant(0, 0 <= __i and __i <= len(query_column_infos), 'idx')
    invariant(0, query_has_star == any_star(contents(query_column_infos), __i) and query_has_column_alias == any_alias(contents(query_column_infos), __i), 'flags')
    invariant(1, 0 <= __i and __i <= len(query_column_infos) and is_fresh(output_header) and not is_none(input_header) and not is_none(join_header)
              and not same(output_header, input_header) and not same(output_header, join_header) and not same(output_header, query_column_infos), 'idx')
    invariant(1, contents(input_header) == at_loop_entry(contents(input_header)) and contents(join_header) == at_loop_entry(contents(join_header))
              and contents(query_column_infos) == old(contents(query_column_infos)), 'inputs_stable')
    invariant(1, contents(output_header) == header_upto(contents(query_column_infos), contents(input_header), contents(join_header), __i), 'names_so_far')
    # a table without a header yields an output header only when aliases are used
    ensures(is_none(result) == (is_none(input_header) and not any_alias(contents(query_column_infos), len(query_column_infos))), 'no_header_without_header_or_alias')
    # every name follows the naming rule; a star contributes exactly the source header(s) in place
    ensures(implies(not is_none(result), contents(result) == header_upto(contents(query_column_infos),
                                                                         contents(input_header) if not is_none(input_header) else empty(Str),
                                                                         contents(join_header) if not is_none(join_header) else empty(Str), len(query_column_infos))), 'names_follow_the_rule')
    ensures(contents(query_column_infos) == old(contents(query_column_infos)), 'infos_untouched')
    raises('js_rbql.RbqlParsingError', is_none(input_header) and any_star(contents(query_column_infos), len(query_column_infos)) and any_alias(contents(query_column_infos), len(query_column_infos)), 'star_and_alias_without_header')
    raises('AssertionError', False, 'join_header_needs_input_header')
