# Query text handling that contracts can reach (C08): string literals are extracted verbatim before the regex-driven
# shallow parser runs and re-inserted afterwards; comment lines, blank lines and a trailing semicolon are dropped.
# DESIGN section 5/C08.  Everything regex-driven about spelling is bounded only.

@trusted('re[(\\"\\"\\"|\\\'\\\'\\\'|\\"|\\\')((?<!\\\\)(\\\\\\\\)*\\\\\\1|.)*?\\1].finditer',
         trusted='A-RE-literal: finditer of the string-literal regex yields the literal spans left to right, non-empty, non-overlapping, inside the text (which spans are literals is Python re semantics: bounded validation in bounded/jobs_c08.py)')
def _(src: Str) -> Seq[Tuple[Int, Int]]:
    ensures(result == lit_spans(src), 'literal_spans')
    ensures(forall(Int, lambda i: implies(0 <= i and i < len(result), 0 <= result[i][0] and result[i][0] < result[i][1] and result[i][1] <= len(src))), 'spans_in_range')
    ensures(forall(Int, lambda i: implies(0 <= i and i + 1 < len(result), result[i][1] <= result[i + 1][0])), 'ordered_non_overlapping')


@contract('rbql_engine.separate_string_literals', name='C08.literals.separate', props=['C08'], store_policy='none')
def _(rbql_expression: Str) -> Tuple[Str, List[Str]]:
    local_types(string_literals=List[Str], format_parts=List[Str])
    loop_types(0, m=Opaque)
    invariant(0, 0 <= __i and is_fresh(string_literals) and is_fresh(format_parts) and not same(string_literals, format_parts), 'idx')
    invariant(0, len(string_literals) == __i and __i <= len(lit_spans(rbql_expression)), 'one_literal_per_match')
    invariant(0, contents(string_literals) == lit_texts(rbql_expression, lit_spans(rbql_expression), __i), 'literals_verbatim_so_far')
    invariant(0, contents(format_parts) == lit_parts(rbql_expression, lit_spans(rbql_expression), __i), 'gaps_and_placeholders_so_far')
    invariant(0, idx_before == span_end(lit_spans(rbql_expression), __i - 1), 'cursor_after_last_literal')
    # every literal is stored unchanged, in order; the text that is parsed afterwards has a numbered placeholder for each
    ensures(contents(result[1]) == lit_texts(rbql_expression, lit_spans(rbql_expression), len(lit_spans(rbql_expression))), 'literals_stored_verbatim')
    ensures(result[0] == str_replace(str_join('', lit_parts(rbql_expression, lit_spans(rbql_expression), len(lit_spans(rbql_expression)))
                                              + [rbql_expression[span_end(lit_spans(rbql_expression), len(lit_spans(rbql_expression)) - 1):]]), '\t', ' '), 'text_between_literals_kept_tabs_as_spaces')
    ensures(is_fresh(result[1]) and allocated(result[1]), 'fresh_list')


@contract('rbql_engine.combine_string_literals', name='C08.literals.combine', props=['C08'])
def _(backend_expression: Str, string_literals: List[Str]) -> Str:
    invariant(0, 0 <= __i and __i <= len(string_literals), 'idx')
    invariant(0, backend_expression == combine_upto(old(backend_expression), contents(string_literals), __i), 'replaced_so_far')
    ensures(result == combine_upto(backend_expression, contents(string_literals), len(string_literals)), 'placeholders_replaced_in_order')
    ensures(contents(string_literals) == old(contents(string_literals)), 'literals_untouched')


@contract('rbql_engine.strip_comments', name='C08.cleanup.strip_comments', props=['C08'])
def _(cline: Str) -> Str:
    # a line whose first non-blank character is # is dropped entirely; any other line only loses surrounding blanks
    ensures(result == ('' if ws_strip(cline).startswith('#') else ws_strip(cline)), 'comment_lines_vanish')
