# resolve_join_variables (C04): which field of A is compared with which field of B for every key pair of a JOIN clause.
# PROVED (was A-PARSE): for every list of key pairs and every pair of variable maps, pair i of the JOIN clause yields key component i;
# the side that names an A variable or NR / a.NR / aNR is the A side whichever way round it was written, the other side must be a B
# variable or bNR / b.NR; the B side becomes the index of that variable (-1 for the record number), the A side the text that reads
# that field of record_a (NR for the record number); a name known to both tables, or to neither side it has to be on, is a parsing
# error raised at the first such pair.  The texts are placeholders-restored first (a["x y"] written with a string literal).

namedtuple_types('rbql_engine.VariableInfo', initialize=Bool, index=Int)
VMap = Dict[Str, NT['rbql_engine.VariableInfo']]


@pred
def a_nr(v):
    return v == 'NR' or v == 'a.NR' or v == 'aNR'


@pred
def b_nr(v):
    return v == 'bNR' or v == 'b.NR'


@pred
def jv_swapped(A, c2):
    return has_key(A, c2) or a_nr(c2)


@pred
def jv_lhs(A, c1, c2):
    return c2 if jv_swapped(A, c2) else c1


@pred
def jv_rhs(A, c1, c2):
    return c1 if jv_swapped(A, c2) else c2


@pred
def jv_pair_ok(A, B, c1, c2):
    return (not (has_key(A, c1) and has_key(B, c1)) and not (has_key(A, c2) and has_key(B, c2))
            and (a_nr(jv_lhs(A, c1, c2)) or has_key(A, jv_lhs(A, c1, c2)))
            and (b_nr(jv_rhs(A, c1, c2)) or has_key(B, jv_rhs(A, c1, c2))))


@pred
def jv_lhs_index(A, c1, c2):
    return -1 if a_nr(jv_lhs(A, c1, c2)) else A[jv_lhs(A, c1, c2)].index


@pred
def jv_rhs_index(A, B, c1, c2):
    return -1 if b_nr(jv_rhs(A, c1, c2)) else B[jv_rhs(A, c1, c2)].index


@pred
def jv_lhs_text(A, c1, c2):
    return 'NR' if jv_lhs_index(A, c1, c2) == -1 else 'safe_join_get(record_a, ' + str_of_int(jv_lhs_index(A, c1, c2)) + ')'


@pred
def jv_c(s, lits):
    return combine_upto(s, lits, len(lits))


@pred
def vmap_ok(m):
    return forall(Str, lambda k: implies(has_key(m, k), m[k].index >= 0))


@contract('rbql_engine.resolve_join_variables', name='C04.join_vars', props=['C04', 'C09', 'C08'])
def _(input_variables_map: VMap, join_variables_map: VMap, variable_pairs: List[Tuple[Str, Str]], string_literals: List[Str]) -> Tuple[List[Str], List[Int]]:
    requires(vmap_ok(input_variables_map) and vmap_ok(join_variables_map), 'zero_based_column_indices')
    local_types(lhs_variables=List[Str], rhs_indices=List[Int])
    loop_types(0, join_var_1=Str, join_var_2=Str, lhs_key_index=Int, rhs_key_index=Int, lhs_join_var_expression=Str)
    invariant(0, 0 <= __i and __i <= len(variable_pairs) and is_fresh(lhs_variables) and is_fresh(rhs_indices) and not same(lhs_variables, rhs_indices), 'idx')
    invariant(0, len(lhs_variables) == __i and len(rhs_indices) == __i, 'one_component_per_pair')
    invariant(0, forall(Int, lambda j: implies(0 <= j and j < __i,
                                                 jv_pair_ok(input_variables_map, join_variables_map, jv_c(contents(variable_pairs)[j][0], contents(string_literals)), jv_c(contents(variable_pairs)[j][1], contents(string_literals))))), 'pairs_so_far_resolve')
    invariant(0, forall(Int, lambda j: implies(0 <= j and j < __i,
                                                 contents(rhs_indices)[j] == jv_rhs_index(input_variables_map, join_variables_map, jv_c(contents(variable_pairs)[j][0], contents(string_literals)), jv_c(contents(variable_pairs)[j][1], contents(string_literals)))
                                                 and contents(lhs_variables)[j] == jv_lhs_text(input_variables_map, jv_c(contents(variable_pairs)[j][0], contents(string_literals)), jv_c(contents(variable_pairs)[j][1], contents(string_literals))))), 'components_so_far')
    ensures(len(result[0]) == len(variable_pairs) and len(result[1]) == len(variable_pairs) and is_fresh(result[0]) and is_fresh(result[1]), 'one_key_expression_per_index')
    ensures(forall(Int, lambda i: implies(0 <= i and i < len(variable_pairs),
                                           jv_pair_ok(input_variables_map, join_variables_map, jv_c(contents(variable_pairs)[i][0], contents(string_literals)), jv_c(contents(variable_pairs)[i][1], contents(string_literals))))), 'every_pair_names_one_field_of_each_table')
    ensures(forall(Int, lambda i: implies(0 <= i and i < len(variable_pairs),
                                           contents(result[1])[i] == jv_rhs_index(input_variables_map, join_variables_map, jv_c(contents(variable_pairs)[i][0], contents(string_literals)), jv_c(contents(variable_pairs)[i][1], contents(string_literals))))), 'b_side_index_of_pair_i')
    ensures(forall(Int, lambda i: implies(0 <= i and i < len(variable_pairs),
                                           contents(result[0])[i] == jv_lhs_text(input_variables_map, jv_c(contents(variable_pairs)[i][0], contents(string_literals)), jv_c(contents(variable_pairs)[i][1], contents(string_literals))))), 'a_side_expression_of_pair_i')
    ensures(forall(Int, lambda i: implies(0 <= i and i < len(result[1]), contents(result[1])[i] >= -1)), 'indices_are_fields_or_the_record_number')
    ensures(contents(variable_pairs) == old(contents(variable_pairs)) and contents(string_literals) == old(contents(string_literals)), 'arguments_untouched')
    raises('rbql_engine.RbqlParsingError', exists(Int, lambda i: 0 <= i and i < len(variable_pairs)
                                                  and not jv_pair_ok(input_variables_map, join_variables_map, jv_c(contents(variable_pairs)[i][0], contents(string_literals)), jv_c(contents(variable_pairs)[i][1], contents(string_literals)))), 'unknown_or_ambiguous_key')
