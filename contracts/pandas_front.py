# The pandas front end (rbql_pandas.py): C13 refinement of the writer interface by DataframeWriter, and what query_dataframe hands to the
# engine.  pandas itself is a dependency (A-DEP): building the result frame, the column labels and the row iterator of a frame are assumed
# contracts (what they return is opaque here; bounded stand-in bounded/jobs_adapters.py compares the adapter with the list front end).

classdef('pandas.DataFrame', ghost=dict(from_rows=List[List[Cell]], from_names=Opt[List[Str]]))
classdef('pandas.TupleIterator', ghost=dict(tuples=Seq[RecV], taken=Int))
classdef('rbql_pandas.DataframeIterator', fields=dict(table=Obj['pandas.DataFrame'], table_itertuples=Obj['pandas.TupleIterator']))
classdef('rbql_pandas.DataframeWriter', bases=['rbql_engine.RBQLOutputWriter'], fields=dict(header=Opt[List[Str]], output_rows=List[List[Cell]], result=Opt[Obj['pandas.DataFrame']]))
classdef('rbql_pandas.SingleDataframeRegistry', bases=['rbql_engine.RBQLTableRegistry'], fields=dict(table=Obj['pandas.DataFrame'], normalize_column_names=Bool, table_name=Str))


@trusted('pandas.DataFrame.__init__', trusted='A-DEP: pandas.DataFrame(rows, columns=names) builds a new frame; it does not modify the rows or the names')
def _(self: Obj['pandas.DataFrame'], rows: List[List[Cell]], columns: Opt[List[Str]]):
    # ghost: which row list and which name list the frame was built from
    ensures(same(self.from_rows, rows) and is_none(self.from_names) == is_none(columns) and implies(not is_none(columns), same(opt_val(self.from_names), opt_val(columns))), 'built_from_these_rows_and_names')
    ensures(contents(rows) == old(contents(rows)), 'rows_untouched')
    modifies(self)


@trusted('rbql_pandas.get_dataframe_column_names_for_rbql', trusted='A-DEP: str() of the column labels of a frame, None for a RangeIndex / no columns; bounded stand-in bounded/jobs_adapters.py')
def _(dataframe: Obj['pandas.DataFrame']) -> Opt[List[Str]]:
    ensures(implies(not is_none(result), is_fresh(opt_val(result))), 'a_new_list')


@trusted('rbql_pandas.DataframeIterator.__init__', trusted='A-DEP: keeps the frame and its itertuples(index=False) iterator; the frame is only read; bounded stand-in bounded/jobs_adapters.py')
def _(self: Obj['rbql_pandas.DataframeIterator'], table: Obj['pandas.DataFrame'], normalize_column_names: Bool, variable_prefix: Str):
    ensures(same(self.table, table) and self.normalize_column_names == normalize_column_names and self.variable_prefix == variable_prefix and self.NR == 0 and self.pos == 0, 'unread_iterator_over_the_frame')
    modifies(self)


@contract('rbql_pandas.DataframeIterator.get_header', name='C13.pandas.iterator.get_header', props=['C13', 'C07'])
def _(self: Obj['rbql_pandas.DataframeIterator']) -> Opt[List[Str]]:
    ensures(is_none(result) == is_none(self.column_names) and implies(not is_none(result), same(opt_val(result), opt_val(self.column_names))), 'the_column_names')


@contract('rbql_pandas.DataframeIterator.get_warnings', name='C14.pandas.iterator.get_warnings', props=['C14', 'C13'])
def _(self: Obj['rbql_pandas.DataframeIterator']) -> List[Str]:
    ensures(len(result) == 0 and is_fresh(result), 'no_warnings')


@contract('rbql_pandas.DataframeWriter.__init__', name='C13.pandas.writer.init', props=['C13'], store_policy='none')
def _(self: Obj['rbql_pandas.DataframeWriter']):
    ghost_update(self.offered, empty(RecV))
    ghost_update(self.refused, False)
    ghost_update(self.finished, False)
    ghost_update(self.sorted_iface, False)
    ghost_update(self.header_calls, 0)
    ensures(is_none(self.header) and len(self.output_rows) == 0 and is_fresh(self.output_rows) and is_none(self.result), 'fresh_writer_with_no_rows')
    modifies(self)


@contract('rbql_pandas.DataframeWriter.write', name='C13.pandas.writer.write', props=['C13', 'C15', 'C06'], store_policy='writer')
def _(self: Obj['rbql_pandas.DataframeWriter'], fields: List[Cell]) -> Bool:
    requires(not is_src(fields), 'record_is_not_a_source_row')
    requires(not is_src(self.output_rows), 'row_list_is_not_an_input_row')
    # refinement of IF.writer.write: the record itself is appended to the rows of the result and never refused
    ghost_update(self.offered, old(self.offered) + [old(contents(fields))])
    ghost_update(self.refused, not result)
    ghost_update(is_owned_below(fields), True)
    ensures(result, 'never_refuses')
    ensures(len(self.output_rows) == len(old(contents(self.output_rows))) + 1 and same(contents(self.output_rows)[len(self.output_rows) - 1], fields)
            and contents(self.output_rows)[:len(self.output_rows) - 1] == old(contents(self.output_rows)), 'record_appended_to_the_result_rows')
    ensures(contents(fields) == old(contents(fields)), 'record_unchanged')
    ensures(self.offered == old(self.offered) + [old(contents(fields))] and self.refused == (not result) and self.finished == old(self.finished) and is_owned_below(fields), 'interface_typestate')
    modifies(field(self, 'offered'), field(self, 'refused'), contents(self.output_rows))


@contract('rbql_pandas.DataframeWriter.set_header', name='C07.pandas.writer.set_header', props=['C07', 'C13'])
def _(self: Obj['rbql_pandas.DataframeWriter'], header: Opt[List[Str]]):
    ensures(is_none(self.header) == is_none(header) and implies(not is_none(header), same(opt_val(self.header), opt_val(header))), 'header_kept_for_the_result')
    ensures(contents(self.output_rows) == old(contents(self.output_rows)), 'rows_untouched')
    modifies(field(self, 'header'))


@contract('rbql_pandas.DataframeWriter.finish', name='C13.pandas.writer.finish', props=['C13', 'C07', 'C15'], store_policy='none')
def _(self: Obj['rbql_pandas.DataframeWriter']):
    # the result frame is built from ALL the rows written, under the header the engine announced (also when there is no row)
    ensures(not is_none(self.result) and is_fresh(opt_val(self.result)), 'a_result_frame_is_built')
    ensures(same(opt_val(self.result).from_rows, self.output_rows) and is_none(opt_val(self.result).from_names) == is_none(self.header)
            and implies(not is_none(self.header), same(opt_val(opt_val(self.result).from_names), opt_val(self.header))), 'from_all_rows_written_under_the_announced_header')
    ensures(contents(self.output_rows) == old(contents(self.output_rows)) and is_none(self.header) == old(is_none(self.header)), 'rows_and_header_untouched')
    modifies(field(self, 'result'), fresh_only())


@contract('rbql_pandas.SingleDataframeRegistry.__init__', name='C13.pandas.registry.init', props=['C13', 'C16'], store_policy='none')
def _(self: Obj['rbql_pandas.SingleDataframeRegistry'], table: Obj['pandas.DataFrame'], table_name: Str, normalize_column_names: Bool):
    ensures(same(self.table, table) and self.table_name == table_name and self.normalize_column_names == normalize_column_names, 'registered_as_given')
    modifies(self)


@contract('rbql_pandas.query_dataframe', name='C13.query_dataframe', props=['C13', 'C15', 'C09'], store_policy='none')
def _(query_text: Str, input_dataframe: Obj['pandas.DataFrame'], output_warnings: Opt[List[Str]], join_dataframe: Opt[Obj['pandas.DataFrame']], normalize_column_names: Bool, user_init_code: Str) -> Opt[Obj['pandas.DataFrame']]:
    local_types(input_iterator=Obj['rbql_pandas.DataframeIterator'], output_writer=Obj['rbql_pandas.DataframeWriter'], join_tables_registry=Opt[Obj['rbql_pandas.SingleDataframeRegistry']],
                input_columns=Opt[List[Str]], join_columns=Opt[List[Str]], output_warnings=Opt[List[Str]])
    # as C13.query_table: what is proved are the obligations at the call of the engine -- a new unread iterator over the caller's frame under the
    # caller's normalisation flag, a new unused DataframeWriter (preconditions of C15.query), the join frame registered as b; the direct-mode
    # ambiguity check runs first; warnings go to the caller's list when one is given
    cut('rbql_engine.query(', same(input_iterator.table, input_dataframe) and input_iterator.pos == 0 and input_iterator.NR == 0 and input_iterator.normalize_column_names == normalize_column_names
        and input_iterator.variable_prefix == 'a', 'engine_reads_the_callers_frame')
    cut('rbql_engine.query(', is_none(output_writer.header) and len(output_writer.output_rows) == 0 and fresh_writer(output_writer) and not output_writer.sorted_iface
        and output_writer.header_calls == 0 and not same(output_writer, input_iterator), 'engine_writes_through_a_new_unused_writer')
    cut('rbql_engine.query(', is_none(join_tables_registry) == is_none(join_dataframe)
        and implies(not is_none(join_dataframe), same(opt_val(join_tables_registry).table, opt_val(join_dataframe)) and opt_val(join_tables_registry).table_name == 'b'
                    and opt_val(join_tables_registry).normalize_column_names == normalize_column_names), 'join_frame_is_registered_as_b')
    cut('rbql_engine.query(', implies(not is_none(old(output_warnings)), not is_none(output_warnings) and same(opt_val(output_warnings), opt_val(old(output_warnings)))), 'warnings_go_to_the_callers_list')
    raises('rbql_engine.RbqlParsingError', True, 'query_error')
    raises('rbql_engine.RbqlRuntimeError', True, 'query_error')
    raises('rbql_engine.RbqlIOHandlingError', True, 'query_error')
    raises('SyntaxError', True, 'query_error')
    raises('AssertionError', True, 'query_error')
    modifies(anything())


@trusted('builtins.next', trusted='A-DEP: next() on the itertuples(index=False) iterator of a frame hands out its rows in order (as tuples), then raises StopIteration for ever')
def _(it: Obj['pandas.TupleIterator']) -> Seq[Cell]:
    ensures(old(it.taken) < len(it.tuples) and result == it.tuples[old(it.taken)] and it.taken == old(it.taken) + 1 and it.tuples == old(it.tuples), 'next_row')
    raises('StopIteration', old(it.taken) >= len(it.tuples) and it.taken == old(it.taken) and it.tuples == old(it.tuples), 'exhausted')
    modifies(field(it, 'taken'))


@contract('rbql_pandas.DataframeIterator.get_record', name='C13.pandas.iterator.get_record', props=['C13', 'C06'], store_policy='none')
def _(self: Obj['rbql_pandas.DataframeIterator']) -> Opt[List[Cell]]:
    # refinement of IF.iterator.get_record over the rows of the frame: the k-th pull hands out the k-th row as a NEW list and counts it, then None for ever
    ensures(implies(old(self.table_itertuples.taken) < len(self.table_itertuples.tuples),
                    not is_none(result) and is_fresh(opt_val(result)) and contents(opt_val(result)) == self.table_itertuples.tuples[old(self.table_itertuples.taken)]
                    and self.table_itertuples.taken == old(self.table_itertuples.taken) + 1 and self.NR == old(self.NR) + 1), 'next')
    ensures(implies(old(self.table_itertuples.taken) >= len(self.table_itertuples.tuples), is_none(result) and self.table_itertuples.taken == old(self.table_itertuples.taken) and self.NR == old(self.NR)), 'exhausted')
    ensures(self.table_itertuples.tuples == old(self.table_itertuples.tuples) and same(self.table, old(self.table)), 'frame_only_read')
    modifies(field(self, 'NR'), field(self.table_itertuples, 'taken'), fresh_only())
