# The generated main loop (C01, C04, C05, C06, C14, C15): the text verified here is produced on every run by
# the real generate_main_loop_code from the real templates, with user expressions replaced by oracles.
# DESIGN Appendix B.2, B.4, B.5.

classdef('rbql_engine.RBQLInputIterator', ghost=dict(rows=Seq[RecV], pos=Int))
classdef('rbql_engine.RBQLRecord', fields=dict(storage=Dict[Cell, Cell], NR=Opt[Int]))
classdef('rbql_engine.RBQLContext',
         fields=dict(input_iterator=Obj['rbql_engine.RBQLInputIterator'], writer=Obj['rbql_engine.RBQLOutputWriter'],
                     unnest_list=Opt[List[Cell]], sort_key_expression=Opt[Str], aggregation_stage=Int, top_count=Opt[Int],
                     join_map=Opt[Obj['rbql_engine.Joiner']], user_init_code=Str,
                     like_regex_cache=Dict[Str, Obj['re.Pattern']], functional_aggregators=List[Obj['rbql_engine.Aggregator']]))
classdef('rbql_engine.Joiner')
classdef('rbql_engine.InternalBadFieldError', fields=dict(bad_idx=Int))
classdef('rbql_engine.InternalBadKeyError', fields=dict(bad_key=Str))


@contract('rbql_engine.RBQLInputIterator.get_record', name='IF.iterator.get_record', trusted='interface contract of input iterators over an abstract content `rows` (A-ITER): proved for TableIterator, assumed of user iterators')
def _(self: Obj['rbql_engine.RBQLInputIterator']) -> Opt[List[Cell]]:
    ensures(self.rows == old(self.rows), 'content_fixed')
    ensures(implies(old(self.pos) < len(self.rows),
                    not is_none(result) and contents(result) == self.rows[old(self.pos)] and is_src(result) and self.pos == old(self.pos) + 1), 'next')
    ensures(implies(old(self.pos) >= len(self.rows), is_none(result) and self.pos == old(self.pos)), 'exhausted')
    modifies(self)


@contract('rbql_engine.RBQLRecord.__init__', name='C09.record.init', props=['C09'])
def _(self: Obj['rbql_engine.RBQLRecord']):
    ensures(len(keys(self.storage)) == 0, 'empty')
    ensures(is_fresh(self.storage), 'fresh_storage')
    modifies(self)


@pred
def ctx_inv(ctx):
    return ((not is_none(ctx.sort_key_expression)) == ctx.writer.sorted_iface
            and not same(ctx.writer, ctx.input_iterator))


@contract('rbql_engine.select_simple', name='C01.select_simple', props=['C01', 'C02', 'C15', 'C06'])
def _(query_context: Obj['rbql_engine.RBQLContext'], sort_key: Opt[Key], out_fields: List[Cell]) -> Bool:
    requires(ctx_inv(query_context), 'ctx')
    requires(implies(query_context.writer.sorted_iface, not is_none(sort_key)), 'sort_key_present')
    requires(not query_context.writer.finished and not query_context.writer.refused, 'writer_open')
    requires(not is_src(out_fields), 'record_is_not_a_source_row')
    requires(not is_offered(out_fields), 'engine_record_not_offered_twice')
    ensures(query_context.writer.offered == old(query_context.writer.offered) + [old(contents(out_fields))], 'exactly_one_offer')
    ensures(result == (not query_context.writer.refused), 'result')
    ensures(not query_context.writer.finished, 'typestate')
    ensures(is_offered(out_fields), 'ownership')
    modifies(region(query_context.writer), contents(out_fields))


@contract('gen:select_simple', name='C01.loop.select_simple', props=['C01', 'C14', 'C15', 'C06'], subst={'HAS_WHERE': True, 'HAS_SORT': True, 'VARIANT': 0})
def _(query_context: Obj['rbql_engine.RBQLContext'], user_namespace: Opaque, LIKE: Opaque, UNNEST: Cls['rbql_engine.compile_and_run.UNNEST'],
      ANY_VALUE: Opaque, MIN: Opaque, MAX: Opaque, COUNT: Opaque, SUM: Opaque, AVG: Opaque, VARIANCE: Opaque, MEDIAN: Opaque,
      ARRAY_AGG: Opaque, mad_max: Opaque, mad_min: Opaque, mad_sum: Opaque, select_unnested: Fn['rbql_engine.compile_and_run.select_unnested']):
    requires(ctx_inv(query_context), 'ctx')
    requires(query_context.writer.sorted_iface == HAS_SORT, 'variant_order_by')
    requires(query_context.aggregation_stage == 0, 'not_aggregate')
    requires(query_context.input_iterator.pos == 0, 'iterator_fresh')
    requires(not query_context.writer.finished and not query_context.writer.refused, 'writer_open')
    invariant(0, same(query_context.input_iterator, old(query_context.input_iterator)) and same(query_context.writer, old(query_context.writer))
              and ctx_inv(query_context) and query_context.aggregation_stage == 0
              and query_context.input_iterator.rows == old(query_context.input_iterator.rows), 'config')
    invariant(0, NR == query_context.input_iterator.pos and 0 <= NR and NR <= len(query_context.input_iterator.rows), 'NR_is_position')
    invariant(0, query_context.writer.offered == old(query_context.writer.offered) + sel_out(query_context.input_iterator.rows, NR, HAS_WHERE, VARIANT), 'offered')
    invariant(0, stop_flag == query_context.writer.refused and not query_context.writer.finished, 'stop_flag')
    invariant(0, forall(Int, lambda k: implies(1 <= k and k <= NR, not rec_fail(query_context.input_iterator.rows[k - 1], k, HAS_WHERE, HAS_SORT, VARIANT))), 'no_failure_so_far')
    # C01: exactly one projected record per record passing WHERE, in input order, for the records consumed
    ensures(query_context.writer.offered == old(query_context.writer.offered) + sel_out(query_context.input_iterator.rows, query_context.input_iterator.pos, HAS_WHERE, VARIANT), 'output_is_projection_of_matching_records')
    ensures(query_context.writer.refused or query_context.input_iterator.pos == len(query_context.input_iterator.rows), 'all_input_consumed_unless_refused')
    ensures(not query_context.writer.finished, 'typestate')
    # C14: a failing expression is reported for the first offending record, nothing is offered for it
    raises('rbql_engine.RbqlRuntimeError',
           rec_fail(query_context.input_iterator.rows[query_context.input_iterator.pos - 1], query_context.input_iterator.pos, HAS_WHERE, HAS_SORT, VARIANT)
           and forall(Int, lambda k: implies(1 <= k and k < query_context.input_iterator.pos, not rec_fail(query_context.input_iterator.rows[k - 1], k, HAS_WHERE, HAS_SORT, VARIANT)))
           and query_context.writer.offered == old(query_context.writer.offered) + sel_out(query_context.input_iterator.rows, query_context.input_iterator.pos - 1, HAS_WHERE, VARIANT)
           and str_contains(exc_msg(), 'record ' + str_of_int(query_context.input_iterator.pos)), 'names_first_offending_record')
    raises('rbql_engine.RbqlParsingError',
           rec_fail(query_context.input_iterator.rows[query_context.input_iterator.pos - 1], query_context.input_iterator.pos, HAS_WHERE, HAS_SORT, VARIANT)
           and query_context.writer.offered == old(query_context.writer.offered) + sel_out(query_context.input_iterator.rows, query_context.input_iterator.pos - 1, HAS_WHERE, VARIANT), 'parsing_error_passes_through')
    loop_types(0, record_a=Opt[List[Cell]], NF=Int, out_fields=List[Cell], sort_key=Opt[Key], a1=Cell, a3=Cell, aNR=Int, a=Obj['rbql_engine.RBQLRecord'], key=Opaque, star_fields=List[Cell])
    modifies(query_context, query_context.input_iterator, region(query_context.writer))


@contract('gen:select_simple_nowhere', name='C01.loop.select_simple_nowhere', props=['C01', 'C14', 'C15', 'C06'], like='gen:select_simple', subst={'HAS_WHERE': False, 'HAS_SORT': False, 'VARIANT': 0})
def _():
    pass


@contract('gen:select_star', name='C01.loop.select_star', props=['C01', 'C14', 'C15', 'C06'], like='gen:select_simple', subst={'HAS_WHERE': True, 'HAS_SORT': False, 'VARIANT': 1})
def _():
    pass


@contract('gen:select_except', name='C01.loop.select_except', props=['C01', 'C14', 'C15', 'C06'], like='gen:select_simple', subst={'HAS_WHERE': True, 'HAS_SORT': False, 'VARIANT': 2})
def _():
    local_types(__lit=List[Int])


@pred
def is_agg_token(c):
    return typeof(c, 'rbql_engine.RBQLAggregationToken')


@pred
def agg_value(c):
    # the value a select-list cell contributes to its column: the token's payload, or the cell itself
    return token_value(c) if is_agg_token(c) else c


@contract('rbql_engine.select_aggregated', name='C03.select_aggregated', props=['C03', 'C14', 'C15'], store_policy='none')
def _(query_context: Obj['rbql_engine.RBQLContext'], key: Key, transparent_values: List[Cell]):
    requires(query_context.aggregation_stage == 1 or query_context.aggregation_stage == 2, 'aggregate_query')
    requires(not is_offered(query_context.functional_aggregators) and not same(query_context.functional_aggregators, transparent_values), 'lists_private')
    requires(forall(Int, lambda i: implies(0 <= i and i < len(query_context.functional_aggregators), allocated(contents(query_context.functional_aggregators)[i]))), 'aggregators_exist')
    # first matching record: every aggregate call produced a token with its own marker id
    requires(implies(query_context.aggregation_stage == 1,
                     forall(Int, lambda i: implies(0 <= i and i < len(transparent_values) and is_agg_token(contents(transparent_values)[i]),
                                                   0 <= token_marker(contents(transparent_values)[i]) and token_marker(contents(transparent_values)[i]) < len(query_context.functional_aggregators)))
                     and forall(Int, Int, lambda i, j: implies(0 <= i and i < j and j < len(transparent_values) and is_agg_token(contents(transparent_values)[i]) and is_agg_token(contents(transparent_values)[j]),
                                                               token_marker(contents(transparent_values)[i]) != token_marker(contents(transparent_values)[j])))
                     and forall(Int, Int, lambda i, j: implies(0 <= i and i < j and j < len(query_context.functional_aggregators),
                                                               not same(contents(query_context.functional_aggregators)[i], contents(query_context.functional_aggregators)[j])))), 'tokens_well_formed')
    requires(implies(query_context.aggregation_stage == 2,
                     typeof(query_context.writer, 'rbql_engine.AggregateWriter') and len(agg_writer(query_context.writer).aggregators) == len(transparent_values)
                     and not is_offered(agg_writer(query_context.writer).aggregators)
                     and forall(Int, Int, lambda i, j: implies(0 <= i and i < j and j < len(transparent_values),
                                                               not same(contents(agg_writer(query_context.writer).aggregators)[i], contents(agg_writer(query_context.writer).aggregators)[j])))), 'columns_bound')
    loop_types(0, i=Int, trans_value=Cell)
    loop_types(1, i=Int, trans_value=Cell)
    # ---- stage 1: bind column i to its aggregator (or a constant-column verifier) and feed it the first value
    invariant(0, 0 <= __i and __i <= len(transparent_values) and contents(transparent_values) == old(contents(transparent_values))
              and typeof(query_context.writer, 'rbql_engine.AggregateWriter') and is_fresh(query_context.writer) and is_fresh(agg_writer(query_context.writer).aggregators)
              and same(agg_writer(query_context.writer).subwriter, old(query_context.writer))
              and same(query_context.functional_aggregators, old(query_context.functional_aggregators))
              and contents(query_context.functional_aggregators) == old(contents(query_context.functional_aggregators))
              and query_context.aggregation_stage == 1 and len(agg_writer(query_context.writer).aggregators) == __i
              and set_size(agg_writer(query_context.writer).aggregation_keys) == 0 and forall(Key, lambda k: not in_set(agg_writer(query_context.writer).aggregation_keys, k)), 'writer_wrapped')
    invariant(0, num_aggregators_found == count_tokens(contents(transparent_values), __i), 'tokens_counted')
    invariant(0, forall(Int, lambda j: implies(0 <= j and j < __i and is_agg_token(contents(transparent_values)[j]),
                                               same(contents(agg_writer(query_context.writer).aggregators)[j], contents(query_context.functional_aggregators)[token_marker(contents(transparent_values)[j])]))), 'aggregate_columns_bound_by_marker')
    invariant(0, forall(Int, lambda j: implies(0 <= j and j < __i and not is_agg_token(contents(transparent_values)[j]),
                                               typeof(contents(agg_writer(query_context.writer).aggregators)[j], 'rbql_engine.ConstGroupVerifier') and is_fresh(contents(agg_writer(query_context.writer).aggregators)[j])
                                               and allocated(contents(agg_writer(query_context.writer).aggregators)[j]))), 'plain_columns_get_a_verifier')
    invariant(0, forall(Int, lambda j: implies(0 <= j and j < __i and is_agg_token(contents(transparent_values)[j]),
                                               contents(agg_writer(query_context.writer).aggregators)[j].hist
                                               == map_set(old_field_hist(contents(agg_writer(query_context.writer).aggregators)[j]), key, old_field_hist(contents(agg_writer(query_context.writer).aggregators)[j])[key] + [token_value(contents(transparent_values)[j])]))), 'first_value_fed_to_aggregates')
    invariant(0, forall(Int, lambda j: implies(0 <= j and j < __i and not is_agg_token(contents(transparent_values)[j]),
                                               contents(agg_writer(query_context.writer).aggregators)[j].hist
                                               == map_set(const_map(Key, empty(Cell)), key, [contents(transparent_values)[j]]))), 'first_value_fed_to_verifiers')
    invariant(0, forall(Int, lambda m: implies(0 <= m and m < len(query_context.functional_aggregators),
                                               contents(query_context.functional_aggregators)[m].hist == old_field_hist(contents(query_context.functional_aggregators)[m])
                                               or exists(Int, lambda j: 0 <= j and j < __i and is_agg_token(contents(transparent_values)[j]) and token_marker(contents(transparent_values)[j]) == m))), 'unbound_aggregators_untouched')
    # ---- stage 2: feed column i of every later record to the aggregator bound to column i
    invariant(1, 0 <= __i and __i <= len(transparent_values) and contents(transparent_values) == old(contents(transparent_values))
              and same(query_context.writer, old(query_context.writer)) and query_context.aggregation_stage == 2
              and contents(agg_writer(query_context.writer).aggregators) == old(contents(agg_writer(query_context.writer).aggregators))
              and same(agg_writer(query_context.writer).aggregators, old(agg_writer(query_context.writer).aggregators))
              and same(agg_writer(query_context.writer).aggregation_keys, old(agg_writer(query_context.writer).aggregation_keys)), 'config')
    invariant(1, forall(Int, lambda j: implies(0 <= j and j < len(transparent_values),
                                               contents(agg_writer(query_context.writer).aggregators)[j].hist
                                               == (map_set(old_field_hist(contents(agg_writer(query_context.writer).aggregators)[j]), key, old_field_hist(contents(agg_writer(query_context.writer).aggregators)[j])[key] + [contents(transparent_values)[j]])
                                                   if j < __i else old_field_hist(contents(agg_writer(query_context.writer).aggregators)[j])))), 'column_values_fed_in_order')
    # post: the group key is registered for every record that reaches here, and every column received exactly its value
    ensures(query_context.aggregation_stage == 2 and typeof(query_context.writer, 'rbql_engine.AggregateWriter'), 'stage_two')
    ensures(in_set(agg_writer(query_context.writer).aggregation_keys, key), 'group_key_registered')
    ensures(len(agg_writer(query_context.writer).aggregators) == len(transparent_values), 'one_aggregator_per_column')
    ensures(implies(old(query_context.aggregation_stage) == 2,
                    forall(Int, lambda j: implies(0 <= j and j < len(transparent_values),
                                                  contents(agg_writer(query_context.writer).aggregators)[j].hist
                                                  == map_set(old_field_hist(contents(agg_writer(query_context.writer).aggregators)[j]), key, old_field_hist(contents(agg_writer(query_context.writer).aggregators)[j])[key] + [contents(transparent_values)[j]])))), 'every_column_fed_its_value')
    ensures(implies(old(query_context.aggregation_stage) == 1, count_tokens(old(contents(transparent_values)), len(transparent_values)) == len(query_context.functional_aggregators)), 'every_aggregate_call_is_a_column')
    raises('rbql_engine.RbqlParsingError', True, 'keyword_or_usage_error')
    raises('rbql_engine.RbqlRuntimeError', True, 'value_rejected_by_an_aggregator')
    modifies(query_context, anything())


# ---------------------------------------------------------------- UNNEST (C01)
classdef('rbql_engine.compile_and_run.UNNEST')


@contract('rbql_engine.compile_and_run.UNNEST.__init__', name='C01.unnest.ctor', props=['C01'])
def _(self: Obj['rbql_engine.compile_and_run.UNNEST'], vals: List[Cell], *, query_context: Obj['rbql_engine.RBQLContext']):
    ensures(is_none(old(query_context.unnest_list)) and same(query_context.unnest_list, vals), 'captures_list_once')
    raises('rbql_engine.RbqlParsingError', not is_none(old(query_context.unnest_list)) and same(query_context.unnest_list, old(query_context.unnest_list)), 'second_unnest_rejected')
    modifies(field(query_context, 'unnest_list'))


@contract('rbql_engine.compile_and_run.select_unnested', name='C01.select_unnested', props=['C01', 'C02', 'C15', 'C06'])
def _(sort_key: Opt[Key], folded_fields: List[Cell], *, query_context: Obj['rbql_engine.RBQLContext'], UNNEST: Cls['rbql_engine.compile_and_run.UNNEST']) -> Bool:
    requires(ctx_inv(query_context), 'ctx')
    requires(implies(query_context.writer.sorted_iface, not is_none(sort_key)), 'sort_key_present')
    requires(not query_context.writer.finished and not query_context.writer.refused, 'writer_open')
    requires(not is_none(query_context.unnest_list), 'unnest_list_captured')
    requires(first_marker(contents(folded_fields), 0) >= 0, 'marker_present')
    requires(not is_offered(query_context.unnest_list) and not is_offered(folded_fields) and not same(query_context.unnest_list, folded_fields), 'lists_not_owned_by_writer')
    local_types(unnest_pos=Opt[Int])
    loop_types(0, i=Int, trans_value=Cell, unnest_pos=Opt[Int])
    invariant(0, 0 <= __i and __i <= len(folded_fields) and is_none(unnest_pos), 'idx')
    invariant(0, first_marker(contents(folded_fields), 0) == first_marker(contents(folded_fields), __i), 'no_marker_before')
    loop_types(1, v=Cell, out_fields=List[Cell])
    invariant(1, 0 <= __i and __i <= len(query_context.unnest_list), 'idx')
    invariant(1, same(query_context.writer, old(query_context.writer)) and same(query_context.unnest_list, old(query_context.unnest_list))
              and ctx_inv(query_context) and not is_none(query_context.unnest_list)
              and contents(query_context.unnest_list) == old(contents(query_context.unnest_list))
              and contents(folded_fields) == old(contents(folded_fields))
              and not is_offered(query_context.unnest_list) and not is_offered(folded_fields), 'config')
    invariant(1, not is_none(unnest_pos) and opt_val(unnest_pos) == first_marker(contents(folded_fields), 0)
              and 0 <= opt_val(unnest_pos) and opt_val(unnest_pos) < len(folded_fields), 'pos')
    invariant(1, query_context.writer.offered == old(query_context.writer.offered)
              + unnest_rows(contents(folded_fields)[:opt_val(unnest_pos)], contents(folded_fields)[opt_val(unnest_pos) + 1:], contents(query_context.unnest_list), __i), 'one_record_per_element')
    invariant(1, not query_context.writer.refused and not query_context.writer.finished, 'writer_open')
    invariant(1, len(query_context.writer.offered) == len(old(query_context.writer.offered)) + __i, 'count')
    # one output record per list element, in order, each a fresh list; stops at the first refusal
    ensures(query_context.writer.offered == old(query_context.writer.offered)
            + unnest_rows(old(contents(folded_fields))[:first_marker(old(contents(folded_fields)), 0)],
                          old(contents(folded_fields))[first_marker(old(contents(folded_fields)), 0) + 1:], old(contents(query_context.unnest_list)),
                          len(query_context.writer.offered) - len(old(query_context.writer.offered))), 'one_record_per_element')
    ensures(len(query_context.writer.offered) - len(old(query_context.writer.offered)) <= len(old(contents(query_context.unnest_list)))
            and (query_context.writer.refused or len(query_context.writer.offered) - len(old(query_context.writer.offered)) == len(old(contents(query_context.unnest_list)))), 'complete_unless_refused')
    ensures(result == (not query_context.writer.refused) and not query_context.writer.finished, 'result')
    ensures(contents(folded_fields) == old(contents(folded_fields)), 'folded_untouched')
    raises('AssertionError', False, 'marker_always_found')
    modifies(region(query_context.writer))


@contract('gen:select_unnest', name='C01.loop.select_unnest', props=['C01', 'C14', 'C15', 'C06'])
def _(query_context: Obj['rbql_engine.RBQLContext'], user_namespace: Opaque, LIKE: Opaque, UNNEST: Cls['rbql_engine.compile_and_run.UNNEST'],
      ANY_VALUE: Opaque, MIN: Opaque, MAX: Opaque, COUNT: Opaque, SUM: Opaque, AVG: Opaque, VARIANCE: Opaque, MEDIAN: Opaque,
      ARRAY_AGG: Opaque, mad_max: Opaque, mad_min: Opaque, mad_sum: Opaque, select_unnested: Fn['rbql_engine.compile_and_run.select_unnested']):
    requires(ctx_inv(query_context), 'ctx')
    requires(query_context.writer.sorted_iface, 'variant_order_by')
    requires(query_context.aggregation_stage == 0, 'not_aggregate')
    requires(query_context.input_iterator.pos == 0, 'iterator_fresh')
    requires(not query_context.writer.finished and not query_context.writer.refused, 'writer_open')
    assumes(forall(RecV, Int, lambda r, k: not is_unnest_marker(H_E1(r, k)) and not is_unnest_marker(H_E2(r, k))), 'A-ORACLE: only the explicit UNNEST(...) call produces an UNNEST marker')
    invariant(0, same(query_context.input_iterator, old(query_context.input_iterator)) and same(query_context.writer, old(query_context.writer))
              and ctx_inv(query_context) and query_context.aggregation_stage == 0
              and query_context.input_iterator.rows == old(query_context.input_iterator.rows), 'config')
    invariant(0, NR == query_context.input_iterator.pos and 0 <= NR and NR <= len(query_context.input_iterator.rows), 'NR_is_position')
    invariant(0, implies(not stop_flag, query_context.writer.offered == old(query_context.writer.offered) + usel_out(query_context.input_iterator.rows, NR)), 'offered')
    invariant(0, stop_flag == query_context.writer.refused and not query_context.writer.finished, 'stop_flag')
    invariant(0, forall(Int, lambda k: implies(1 <= k and k <= NR, not urec_fail(query_context.input_iterator.rows[k - 1], k, True))), 'no_failure_so_far')
    # C01 (UNNEST): when the writer never refuses, the output is exactly one record per list element of every matching record
    ensures(implies(not query_context.writer.refused, query_context.writer.offered == old(query_context.writer.offered) + usel_out(query_context.input_iterator.rows, query_context.input_iterator.pos)
                    and query_context.input_iterator.pos == len(query_context.input_iterator.rows)), 'one_record_per_list_element')
    ensures(not query_context.writer.finished, 'typestate')
    raises('rbql_engine.RbqlRuntimeError',
           urec_fail(query_context.input_iterator.rows[query_context.input_iterator.pos - 1], query_context.input_iterator.pos, True)
           and forall(Int, lambda k: implies(1 <= k and k < query_context.input_iterator.pos, not urec_fail(query_context.input_iterator.rows[k - 1], k, True)))
           and query_context.writer.offered == old(query_context.writer.offered) + usel_out(query_context.input_iterator.rows, query_context.input_iterator.pos - 1)
           and str_contains(exc_msg(), 'record ' + str_of_int(query_context.input_iterator.pos)), 'names_first_offending_record')
    raises('rbql_engine.RbqlParsingError',
           urec_fail(query_context.input_iterator.rows[query_context.input_iterator.pos - 1], query_context.input_iterator.pos, True), 'parsing_error_passes_through')
    loop_types(0, record_a=Opt[List[Cell]], NF=Int, out_fields=List[Cell], sort_key=Opt[Key], a1=Cell, a3=Cell, aNR=Int, a=Obj['rbql_engine.RBQLRecord'], key=Opaque, star_fields=List[Cell])
    modifies(query_context, query_context.input_iterator, region(query_context.writer))


# ---------------------------------------------------------------- JOIN select loop (C04)
@pred
def jctx_inv(ctx):
    return ((not is_none(ctx.sort_key_expression)) == ctx.writer.sorted_iface and not same(ctx.writer, ctx.input_iterator)
            and not is_none(ctx.join_map))


@contract('gen:select_join', name='C04.loop.select_join', props=['C04', 'C01', 'C14', 'C15', 'C06'])
def _(query_context: Obj['rbql_engine.RBQLContext'], user_namespace: Opaque, LIKE: Opaque, UNNEST: Cls['rbql_engine.compile_and_run.UNNEST'],
      ANY_VALUE: Opaque, MIN: Opaque, MAX: Opaque, COUNT: Opaque, SUM: Opaque, AVG: Opaque, VARIANCE: Opaque, MEDIAN: Opaque,
      ARRAY_AGG: Opaque, mad_max: Opaque, mad_min: Opaque, mad_sum: Opaque, select_unnested: Fn['rbql_engine.compile_and_run.select_unnested']):
    requires(jctx_inv(query_context), 'ctx')
    requires(query_context.writer.sorted_iface, 'variant_order_by')
    requires(query_context.aggregation_stage == 0, 'not_aggregate')
    requires(query_context.input_iterator.pos == 0, 'iterator_fresh')
    requires(not query_context.writer.finished and not query_context.writer.refused, 'writer_open')
    invariant(0, same(query_context.input_iterator, old(query_context.input_iterator)) and same(query_context.writer, old(query_context.writer))
              and same(query_context.join_map, old(query_context.join_map))
              and jctx_inv(query_context) and query_context.aggregation_stage == 0
              and query_context.input_iterator.rows == old(query_context.input_iterator.rows)
              and query_context.join_map.kind == old(query_context.join_map.kind) and query_context.join_map.jmv == old(query_context.join_map.jmv)
              and query_context.join_map.nullw == old(query_context.join_map.nullw), 'config')
    invariant(0, NR == query_context.input_iterator.pos and 0 <= NR and NR <= len(query_context.input_iterator.rows), 'NR_is_position')
    invariant(0, implies(not stop_flag, query_context.writer.offered == old(query_context.writer.offered)
                         + jsel_out(query_context.input_iterator.rows, NR, query_context.join_map.kind, query_context.join_map.jmv, query_context.join_map.nullw)), 'offered')
    invariant(0, stop_flag == query_context.writer.refused and not query_context.writer.finished, 'stop_flag')
    invariant(0, forall(Int, lambda k: implies(1 <= k and k <= NR and (k < NR or not stop_flag), not jrec_fail(query_context.input_iterator.rows[k - 1], k, query_context.join_map.kind, query_context.join_map.jmv, query_context.join_map.nullw))), 'no_failure_so_far')
    # inner loop over the pairings of the current record
    loop_types(1, join_match=Tuple[Opt[Int], Int, Rec], bNR=Opt[Int], bNF=Int, record_b=List[Cell], out_fields=List[Cell], sort_key=Opt[Key],
               a1=Cell, a3=Cell, b2=Cell, aNR=Int, a=Obj['rbql_engine.RBQLRecord'], b=Obj['rbql_engine.RBQLRecord'], key=Opaque, star_fields=List[Cell])
    invariant(1, 0 <= __i and __i <= len(join_matches), 'idx')
    invariant(1, same(query_context.input_iterator, old(query_context.input_iterator)) and same(query_context.writer, old(query_context.writer))
              and same(query_context.join_map, old(query_context.join_map))
              and jctx_inv(query_context) and query_context.aggregation_stage == 0
              and query_context.input_iterator.rows == old(query_context.input_iterator.rows)
              and query_context.input_iterator.pos == NR
              and query_context.join_map.kind == old(query_context.join_map.kind) and query_context.join_map.jmv == old(query_context.join_map.jmv)
              and query_context.join_map.nullw == old(query_context.join_map.nullw), 'config')
    invariant(1, not is_owned_below(join_matches) and contents(join_matches) == at_loop_entry(contents(join_matches))
              and match_list_ok(contents(join_matches), jpairs_of(query_context.input_iterator.rows[NR - 1], query_context.join_map.kind, query_context.join_map.jmv, query_context.join_map.nullw)), 'pairings')
    invariant(1, not is_none(record_a) and contents(record_a) == query_context.input_iterator.rows[NR - 1] and is_src(record_a) and len(record_a) >= 1, 'current_record')
    invariant(1, implies(not stop_flag, query_context.writer.offered == old(query_context.writer.offered)
                         + jsel_out(query_context.input_iterator.rows, NR - 1, query_context.join_map.kind, query_context.join_map.jmv, query_context.join_map.nullw)
                         + jrows(query_context.input_iterator.rows[NR - 1], NR, jpairs_of(query_context.input_iterator.rows[NR - 1], query_context.join_map.kind, query_context.join_map.jmv, query_context.join_map.nullw), __i)), 'offered', hide=['jsel_out', 'rep_cells', 'jfirst_fail'])
    invariant(1, not stop_flag and not query_context.writer.refused and not query_context.writer.finished, 'stop_flag')
    invariant(1, forall(Int, lambda k: implies(1 <= k and k < NR, not jrec_fail(query_context.input_iterator.rows[k - 1], k, query_context.join_map.kind, query_context.join_map.jmv, query_context.join_map.nullw))), 'no_failure_in_earlier_records')
    invariant(1, jfirst_fail(query_context.input_iterator.rows[NR - 1], NR, jpairs_of(query_context.input_iterator.rows[NR - 1], query_context.join_map.kind, query_context.join_map.jmv, query_context.join_map.nullw), 0)
              == jfirst_fail(query_context.input_iterator.rows[NR - 1], NR, jpairs_of(query_context.input_iterator.rows[NR - 1], query_context.join_map.kind, query_context.join_map.jmv, query_context.join_map.nullw), __i), 'no_failure_in_earlier_pairings')
    invariant(1, implies(query_context.join_map.kind == 2, len(query_context.join_map.jmv[k1(query_context.input_iterator.rows[NR - 1][0])]) == 1), 'strict_checked')
    # C04: the output is the projection of the expanded (A record, B match) pairs, A order then B order
    ensures(implies(not query_context.writer.refused, query_context.writer.offered == old(query_context.writer.offered)
                    + jsel_out(query_context.input_iterator.rows, query_context.input_iterator.pos, query_context.join_map.kind, query_context.join_map.jmv, query_context.join_map.nullw)
                    and query_context.input_iterator.pos == len(query_context.input_iterator.rows)), 'output_is_projection_of_paired_records')
    ensures(not query_context.writer.finished, 'typestate')
    raises('rbql_engine.RbqlRuntimeError',
           jrec_fail(query_context.input_iterator.rows[query_context.input_iterator.pos - 1], query_context.input_iterator.pos, query_context.join_map.kind, query_context.join_map.jmv, query_context.join_map.nullw)
           and forall(Int, lambda k: implies(1 <= k and k < query_context.input_iterator.pos, not jrec_fail(query_context.input_iterator.rows[k - 1], k, query_context.join_map.kind, query_context.join_map.jmv, query_context.join_map.nullw)))
           and str_contains(exc_msg(), 'record ' + str_of_int(query_context.input_iterator.pos)), 'names_first_offending_record', hide=['jsel_out', 'jrows', 'rep_cells'])
    raises('rbql_engine.RbqlParsingError',
           jrec_fail(query_context.input_iterator.rows[query_context.input_iterator.pos - 1], query_context.input_iterator.pos, query_context.join_map.kind, query_context.join_map.jmv, query_context.join_map.nullw), 'parsing_error_passes_through', hide=['jsel_out', 'jrows', 'rep_cells'])
    loop_types(0, record_a=Opt[List[Cell]], NF=Int, join_matches=List[Tuple[Opt[Int], Int, Rec]], join_match=Tuple[Opt[Int], Int, Rec], bNR=Opt[Int], bNF=Int, record_b=List[Cell],
               out_fields=List[Cell], sort_key=Opt[Key], a1=Cell, a3=Cell, b2=Cell, aNR=Int, a=Obj['rbql_engine.RBQLRecord'], b=Obj['rbql_engine.RBQLRecord'], key=Opaque, star_fields=List[Cell])
    modifies(query_context, query_context.input_iterator, region(query_context.writer), family('joiner'))


# ---------------------------------------------------------------- UPDATE loop (C05)
@pred
def uctx_inv(ctx):
    return (not ctx.writer.sorted_iface and not same(ctx.writer, ctx.input_iterator))


@contract('gen:update_simple', name='C05.loop.update_simple', props=['C05', 'C14', 'C15', 'C06'], subst={'HAS_WHERE': True})
def _(query_context: Obj['rbql_engine.RBQLContext'], user_namespace: Opaque, LIKE: Opaque, UNNEST: Cls['rbql_engine.compile_and_run.UNNEST'],
      ANY_VALUE: Opaque, MIN: Opaque, MAX: Opaque, COUNT: Opaque, SUM: Opaque, AVG: Opaque, VARIANCE: Opaque, MEDIAN: Opaque,
      ARRAY_AGG: Opaque, mad_max: Opaque, mad_min: Opaque, mad_sum: Opaque, select_unnested: Fn['rbql_engine.compile_and_run.select_unnested']):
    requires(uctx_inv(query_context), 'ctx')
    requires(query_context.input_iterator.pos == 0, 'iterator_fresh')
    requires(not query_context.writer.finished and not query_context.writer.refused, 'writer_open')
    invariant(0, same(query_context.input_iterator, old(query_context.input_iterator)) and same(query_context.writer, old(query_context.writer))
              and uctx_inv(query_context) and query_context.input_iterator.rows == old(query_context.input_iterator.rows), 'config')
    invariant(0, NR == query_context.input_iterator.pos and 0 <= NR and NR <= len(query_context.input_iterator.rows), 'NR_is_position')
    invariant(0, NU == nu_upto(query_context.input_iterator.rows, NR, HAS_WHERE), 'NU_counts_updated_records')
    invariant(0, query_context.writer.offered == old(query_context.writer.offered) + upd_out(query_context.input_iterator.rows, NR, HAS_WHERE), 'offered')
    invariant(0, stop_flag == query_context.writer.refused and not query_context.writer.finished, 'stop_flag')
    invariant(0, forall(Int, lambda k: implies(1 <= k and k <= NR, not upd_fail(query_context.input_iterator.rows[k - 1], k, nu_upto(query_context.input_iterator.rows, k - 1, HAS_WHERE), HAS_WHERE))), 'no_failure_so_far')
    # C05: one output record per input record, in order; only assigned fields of matching rows change
    ensures(query_context.writer.offered == old(query_context.writer.offered) + upd_out(query_context.input_iterator.rows, query_context.input_iterator.pos, HAS_WHERE), 'every_record_emitted_once')
    ensures(query_context.writer.refused or query_context.input_iterator.pos == len(query_context.input_iterator.rows), 'all_input_consumed_unless_refused')
    ensures(not query_context.writer.finished, 'typestate')
    raises('rbql_engine.RbqlRuntimeError',
           upd_fail(query_context.input_iterator.rows[query_context.input_iterator.pos - 1], query_context.input_iterator.pos, nu_upto(query_context.input_iterator.rows, query_context.input_iterator.pos - 1, HAS_WHERE), HAS_WHERE)
           and forall(Int, lambda k: implies(1 <= k and k < query_context.input_iterator.pos, not upd_fail(query_context.input_iterator.rows[k - 1], k, nu_upto(query_context.input_iterator.rows, k - 1, HAS_WHERE), HAS_WHERE)))
           and query_context.writer.offered == old(query_context.writer.offered) + upd_out(query_context.input_iterator.rows, query_context.input_iterator.pos - 1, HAS_WHERE)
           and str_contains(exc_msg(), 'record ' + str_of_int(query_context.input_iterator.pos)), 'names_first_offending_record')
    raises('rbql_engine.RbqlParsingError',
           upd_fail(query_context.input_iterator.rows[query_context.input_iterator.pos - 1], query_context.input_iterator.pos, nu_upto(query_context.input_iterator.rows, query_context.input_iterator.pos - 1, HAS_WHERE), HAS_WHERE), 'parsing_error_passes_through')
    loop_types(0, record_a=Opt[List[Cell]], NF=Int, up_fields=List[Cell], a1=Cell, a3=Cell, aNR=Int, a=Obj['rbql_engine.RBQLRecord'])
    modifies(query_context, query_context.input_iterator, region(query_context.writer))


@contract('gen:update_join', name='C05.loop.update_join', props=['C05', 'C04', 'C14', 'C15', 'C06'])
def _(query_context: Obj['rbql_engine.RBQLContext'], user_namespace: Opaque, LIKE: Opaque, UNNEST: Cls['rbql_engine.compile_and_run.UNNEST'],
      ANY_VALUE: Opaque, MIN: Opaque, MAX: Opaque, COUNT: Opaque, SUM: Opaque, AVG: Opaque, VARIANCE: Opaque, MEDIAN: Opaque,
      ARRAY_AGG: Opaque, mad_max: Opaque, mad_min: Opaque, mad_sum: Opaque, select_unnested: Fn['rbql_engine.compile_and_run.select_unnested']):
    requires(uctx_inv(query_context) and not is_none(query_context.join_map), 'ctx')
    requires(query_context.input_iterator.pos == 0, 'iterator_fresh')
    requires(not query_context.writer.finished and not query_context.writer.refused, 'writer_open')
    invariant(0, same(query_context.input_iterator, old(query_context.input_iterator)) and same(query_context.writer, old(query_context.writer))
              and same(query_context.join_map, old(query_context.join_map)) and not is_none(query_context.join_map)
              and uctx_inv(query_context) and query_context.input_iterator.rows == old(query_context.input_iterator.rows), 'config')
    invariant(0, NR == query_context.input_iterator.pos and 0 <= NR and NR <= len(query_context.input_iterator.rows), 'NR_is_position')
    invariant(0, NU == uj_nu(query_context.input_iterator.rows, NR, query_context.join_map.kind, query_context.join_map.jmv, query_context.join_map.nullw), 'NU_counts_updated_records')
    invariant(0, query_context.writer.offered == old(query_context.writer.offered)
              + uj_out(query_context.input_iterator.rows, NR, query_context.join_map.kind, query_context.join_map.jmv, query_context.join_map.nullw), 'offered')
    invariant(0, stop_flag == query_context.writer.refused and not query_context.writer.finished, 'stop_flag')
    invariant(0, forall(Int, lambda k: implies(1 <= k and k <= NR, not uj_fail(query_context.input_iterator.rows[k - 1], k, query_context.join_map.kind, query_context.join_map.jmv, query_context.join_map.nullw,
                                                                                 uj_nu(query_context.input_iterator.rows, k - 1, query_context.join_map.kind, query_context.join_map.jmv, query_context.join_map.nullw)))), 'no_failure_so_far')
    # C05 with a join: every A record emitted once; no partner -> unchanged, one partner (and WHERE) -> assigned fields change, several -> error
    ensures(query_context.writer.offered == old(query_context.writer.offered)
            + uj_out(query_context.input_iterator.rows, query_context.input_iterator.pos, query_context.join_map.kind, query_context.join_map.jmv, query_context.join_map.nullw), 'every_record_emitted_once')
    ensures(query_context.writer.refused or query_context.input_iterator.pos == len(query_context.input_iterator.rows), 'all_input_consumed_unless_refused')
    raises('rbql_engine.RbqlRuntimeError',
           uj_fail(query_context.input_iterator.rows[query_context.input_iterator.pos - 1], query_context.input_iterator.pos, query_context.join_map.kind, query_context.join_map.jmv, query_context.join_map.nullw,
                   uj_nu(query_context.input_iterator.rows, query_context.input_iterator.pos - 1, query_context.join_map.kind, query_context.join_map.jmv, query_context.join_map.nullw))
           and query_context.writer.offered == old(query_context.writer.offered)
           + uj_out(query_context.input_iterator.rows, query_context.input_iterator.pos - 1, query_context.join_map.kind, query_context.join_map.jmv, query_context.join_map.nullw)
           and str_contains(exc_msg(), 'record ' + str_of_int(query_context.input_iterator.pos)), 'names_first_offending_record')
    raises('rbql_engine.RbqlParsingError',
           uj_fail(query_context.input_iterator.rows[query_context.input_iterator.pos - 1], query_context.input_iterator.pos, query_context.join_map.kind, query_context.join_map.jmv, query_context.join_map.nullw,
                   uj_nu(query_context.input_iterator.rows, query_context.input_iterator.pos - 1, query_context.join_map.kind, query_context.join_map.jmv, query_context.join_map.nullw)), 'parsing_error_passes_through')
    loop_types(0, record_a=Opt[List[Cell]], NF=Int, up_fields=List[Cell], a1=Cell, a3=Cell, b2=Cell, aNR=Int, a=Obj['rbql_engine.RBQLRecord'], b=Obj['rbql_engine.RBQLRecord'],
               join_matches=List[Tuple[Opt[Int], Int, Rec]], bNR=Opt[Int], bNF=Opt[Int], record_b=Opt[List[Cell]])
    modifies(query_context, query_context.input_iterator, region(query_context.writer), family('joiner'))
