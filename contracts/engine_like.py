# C17: like_to_regex produces, for every pattern, '^' + tok(c1)..tok(cn) + '$' with tok('_')='.', tok('%')='.*',
# tok(c)=re.escape(c).  The regex-engine half (that this regex implements LIKE) is an assumption about Python's re,
# validated boundedly (bounded/jobs_text.py).

@trusted('re.escape', trusted='A-RE-escape: re.escape is a per-character map (escape(a+b) == escape(a)+escape(b), escape("") == ""); validated boundedly on the property alphabet')
def _(pattern: Str) -> Str:
    ensures(result == re_escape(pattern), 'is_re_escape')
    ensures(forall(Str, Str, lambda a, b: re_escape(a + b) == re_escape(a) + re_escape(b)), 'homomorphism')
    ensures(re_escape('') == '', 'empty')


@contract('rbql_engine.like_to_regex', name='C17.like_to_regex', props=['C17'])
def _(pattern: Str) -> Str:
    assumes(re_escape('') == '' and forall(Str, Str, lambda a, b: re_escape(a + b) == re_escape(a) + re_escape(b)), 'A-RE-escape: re.escape is a per-character map (validated boundedly)')
    invariant(0, 0 <= p and p <= i and i <= len(pattern), 'bounds')
    invariant(0, converted + re_escape(pattern[p:i]) == like_body(pattern, i), 'converted_prefix')
    loop_hint(0, implies(i - 1 >= p, pattern[p:i] == pattern[p:i - 1] + pattern[i - 1]))
    loop_hint(0, re_escape(pattern[p:i - 1] + pattern[i - 1]) == re_escape(pattern[p:i - 1]) + re_escape(pattern[i - 1]))
    loop_hint(0, like_body(pattern, i) == like_body(pattern, i - 1) + like_tok(pattern[i - 1]))
    loop_hint(0, implies(i == p, pattern[p:i] == ''))
    invariant(0, forall(Int, lambda k: implies(p <= k and k < i, pattern[k] != '_' and pattern[k] != '%')), 'pending_segment_is_literal')
    ensures(result == '^' + like_body(pattern, len(pattern)) + '$', 'regex_is_token_map')


classdef('re.Pattern', ghost=dict(source=Str))


@trusted('re.compile', trusted='A-RE: re.compile returns a pattern object for its argument')
def _(pattern: Str) -> Obj['re.Pattern']:
    ensures(is_fresh(result) and result.source == pattern, 'pattern_object')


@trusted('re.Pattern.match', trusted='A-RE: pattern.match(text) is not None iff the regex matches at the start of text (re_matches is Python\'s re)')
def _(self: Obj['re.Pattern'], text: Str) -> Opt[Obj['re.Match']]:
    ensures(is_none(result) == (not re_matches(self.source, text)), 'match_iff')


classdef('re.Match')


@pred
def like_cache_inv(ctx):
    return forall(Str, lambda q: implies(has_key(ctx.like_regex_cache, q), ctx.like_regex_cache[q].source == like_regex(q)))


@contract('rbql_engine.compile_and_run.LIKE', name='C17.LIKE', props=['C17', 'C16'])
def _(text: Str, pattern: Str, *, query_context: Obj['rbql_engine.RBQLContext']) -> Bool:
    requires(like_cache_inv(query_context), 'cache_inv')
    # the result depends only on (text, pattern): the cached matcher of a pattern is the matcher of that pattern
    ensures(result == re_matches(like_regex(pattern), text), 'matches_token_regex')
    ensures(like_cache_inv(query_context), 'cache_inv')
    modifies(query_context.like_regex_cache)
