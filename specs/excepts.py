from __future__ import annotations
from pyvc.lang import spec

# `* EXCEPT a1, a.name, ...` (C01, C07): the listed names, the indices they denote, and how those are written into the generated call


@spec
def ins_int(x: Int, s: Seq[Int]) -> Seq[Int]:
    # x inserted into the ascending sequence s, after its equals (definitional insertion sort: A-SORT equates sorted() with it)
    if len(s) == 0:
        return [x]
    if s[-1] <= x:
        return s + [x]
    return ins_int(x, s[:-1]) + [s[-1]]


@spec
def ssort_ints(xs: Seq[Int]) -> Seq[Int]:
    if len(xs) == 0:
        return xs
    return ins_int(xs[-1], ssort_ints(xs[:-1]))


@spec
def except_name(e: Str, lits: Seq[Str], i: Int) -> Str:
    # the i-th listed name: split at commas, blanks stripped, string literals restored
    return combine_upto(ws_strip(str_split(e, ',')[i]), lits, len(lits))


@spec
def except_indices(m: Map[Str, Opt[NT['rbql_engine.VariableInfo']]], e: Str, lits: Seq[Str], n: Int) -> Seq[Int]:
    # the column indices denoted by the first n listed names, in the order written
    if n <= 0:
        return []
    return except_indices(m, e, lits, n - 1) + [opt_val(m[except_name(e, lits, n - 1)]).index]


# variable initialisation code (C09): one line per variable of the query that is to be initialised, binding it to its column
@spec
def init_lines(m: Map[Str, Opt[NT['rbql_engine.VariableInfo']]], ks: Seq[Str], n: Int, pre: Str, post: Str) -> Seq[Str]:
    # for the first n variables (in the order of the map): `name = safe_get(record, index)` when the variable is to be initialised
    if n <= 0:
        return []
    if opt_val(m[ks[n - 1]]).initialize:
        return init_lines(m, ks, n - 1, pre, post) + [ks[n - 1] + pre + str_of_int(opt_val(m[ks[n - 1]]).index) + post]
    return init_lines(m, ks, n - 1, pre, post)
