from __future__ import annotations
from pyvc.lang import spec, lemma

# C07 naming rule: alias for `expr AS name`; the source column's name for aN, a[N], a.name, a["name"] and star
# expansions; the identifier itself for bare variables; colK (K = position in the output) otherwise.
# QCI = (table_name, column_index, column_name, is_star, alias_name); None = "no information" (an expression).


@spec
def col_k(k: Int) -> Str:
    return 'col' + str_of_int(k)


@spec
def names_of(q: Opt[NT['rbql_engine.QueryColumnInfo']], ih: Seq[Str], jh: Seq[Str], pos: Int) -> Seq[Str]:
    # names contributed by one select item whose first output position is pos (1-based)
    if is_none(q):
        return [col_k(pos)]
    if opt_val(q).is_star:
        if is_none(opt_val(q).table_name):
            return ih + jh
        if opt_val(opt_val(q).table_name) == 'a':
            return ih
        if opt_val(opt_val(q).table_name) == 'b':
            return jh
        return []
    if not is_none(opt_val(q).column_name):
        return [opt_val(opt_val(q).column_name)]
    if not is_none(opt_val(q).alias_name):
        return [opt_val(opt_val(q).alias_name)]
    if is_none(opt_val(q).column_index) or is_none(opt_val(q).table_name):
        return [col_k(pos)]
    if opt_val(opt_val(q).table_name) == 'a' and opt_val(opt_val(q).column_index) < len(ih):
        return [ih[opt_val(opt_val(q).column_index)]]
    if opt_val(opt_val(q).table_name) == 'b' and opt_val(opt_val(q).column_index) < len(jh):
        return [jh[opt_val(opt_val(q).column_index)]]
    return [col_k(pos)]


@spec
def header_upto(infos: Seq[Opt[NT['rbql_engine.QueryColumnInfo']]], ih: Seq[Str], jh: Seq[Str], n: Int) -> Seq[Str]:
    # output header of the first n select items
    if n <= 0:
        return []
    return header_upto(infos, ih, jh, n - 1) + names_of(infos[n - 1], ih, jh, len(header_upto(infos, ih, jh, n - 1)) + 1)


@spec
def any_star(infos: Seq[Opt[NT['rbql_engine.QueryColumnInfo']]], n: Int) -> Bool:
    if n <= 0:
        return False
    return any_star(infos, n - 1) or ((not is_none(infos[n - 1])) and opt_val(infos[n - 1]).is_star)


@spec
def any_alias(infos: Seq[Opt[NT['rbql_engine.QueryColumnInfo']]], n: Int) -> Bool:
    if n <= 0:
        return False
    return any_alias(infos, n - 1) or ((not is_none(infos[n - 1])) and not is_none(opt_val(infos[n - 1]).alias_name))
