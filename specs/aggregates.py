from __future__ import annotations
from pyvc.lang import spec, lemma

# C03 reference: mathematical aggregates over the values of a group, in input order.  Numbers are reals (A-FLOAT).
# numv(v): numeric value of a cell; numeric strings are converted (int_of / float_of are the assumed Python parsers).


@spec(opaque=True)
def str_num(s: Str) -> Float:
    # float(s) (== int(s) for integer literals, A-NUMPARSE)
    return float(s)


@spec
def numv(v: Cell) -> Float:
    if is_str(v):
        return str_num(sval(v))
    return num(v)


@spec
def rsum(xs: Seq[Cell]) -> Float:
    if len(xs) == 0:
        return 0.0
    return rsum(xs[:-1]) + numv(xs[-1])


@spec
def rsumsq(xs: Seq[Cell]) -> Float:
    if len(xs) == 0:
        return 0.0
    return rsumsq(xs[:-1]) + numv(xs[-1]) * numv(xs[-1])


@spec
def rmin(xs: Seq[Cell]) -> Float:
    # minimum of a non-empty sequence
    if len(xs) <= 1:
        return numv(xs[0])
    if numv(xs[-1]) < rmin(xs[:-1]):
        return numv(xs[-1])
    return rmin(xs[:-1])


@spec
def rmax(xs: Seq[Cell]) -> Float:
    if len(xs) <= 1:
        return numv(xs[0])
    if numv(xs[-1]) > rmax(xs[:-1]):
        return numv(xs[-1])
    return rmax(xs[:-1])


@spec
def ins_cell(x: Cell, ys: Seq[Cell]) -> Seq[Cell]:
    # insert x into the ascending sequence ys after all elements <= x (stable)
    if len(ys) == 0:
        return [x]
    if num(ys[-1]) <= num(x):
        return ys + [x]
    return ins_cell(x, ys[:-1]) + [ys[-1]]


@spec
def ssort_cells(xs: Seq[Cell]) -> Seq[Cell]:
    # numeric cells in ascending order (definitional insertion sort: A-SORT equates Python's sorted with it)
    if len(xs) == 0:
        return xs
    return ins_cell(xs[-1], ssort_cells(xs[:-1]))


@spec
def median_sorted(s: Seq[Cell]) -> Float:
    # middle element for an odd count, mean of the two middle elements for an even count
    if len(s) % 2 == 1:
        return num(s[len(s) // 2])
    return (num(s[len(s) // 2 - 1]) + num(s[len(s) // 2])) / 2.0


@spec
def nums_of_hist(xs: Seq[Cell]) -> Seq[Float]:
    # numeric values of the raw group values, in order
    if len(xs) == 0:
        return []
    return nums_of_hist(xs[:-1]) + [numv(xs[-1])]


@spec
def nums_of_cells(xs: Seq[Cell]) -> Seq[Float]:
    if len(xs) == 0:
        return []
    return nums_of_cells(xs[:-1]) + [num(xs[-1])]


@spec
def all_numeric(xs: Seq[Cell]) -> Bool:
    if len(xs) == 0:
        return True
    return all_numeric(xs[:-1]) and is_num(xs[-1])
