from __future__ import annotations
from pyvc.lang import spec

# Sequence vocabulary of DESIGN section 3.  Executable Python (lists/tuples) and translated to
# define-funs-rec by pyvc.speclib.  RecV = Seq[Cell] (value of a record).


@spec
def take(n: Int, xs: Seq[RecV]) -> Seq[RecV]:
    if n <= 0:
        return []
    if n >= len(xs):
        return xs
    return xs[:n]


@spec
def dedup_first(xs: Seq[RecV]) -> Seq[RecV]:
    if len(xs) == 0:
        return xs
    if xs[-1] in xs[:-1]:
        return dedup_first(xs[:-1])
    return dedup_first(xs[:-1]) + [xs[-1]]


@spec
def count_in(xs: Seq[RecV], x: RecV) -> Int:
    if len(xs) == 0:
        return 0
    if xs[-1] == x:
        return count_in(xs[:-1], x) + 1
    return count_in(xs[:-1], x)


@spec
def rev_cells(xs: Seq[Cell]) -> Seq[Cell]:
    if len(xs) == 0:
        return xs
    return [xs[-1]] + rev_cells(xs[:-1])


@spec
def rev_recs(xs: Seq[RecV]) -> Seq[RecV]:
    if len(xs) == 0:
        return xs
    return [xs[-1]] + rev_recs(xs[:-1])


@spec
def rev_ints(xs: Seq[Int]) -> Seq[Int]:
    if len(xs) == 0:
        return xs
    return [xs[-1]] + rev_ints(xs[:-1])


@spec
def rev_strs(xs: Seq[Str]) -> Seq[Str]:
    if len(xs) == 0:
        return xs
    return [xs[-1]] + rev_strs(xs[:-1])


@spec
def uc_rows(ks: Seq[RecV], offered: Seq[RecV], n: Int) -> Seq[RecV]:
    # DISTINCT COUNT output for the first n distinct records: each once, prefixed by its multiplicity
    if n <= 0:
        return []
    return uc_rows(ks, offered, n - 1) + [[count_in(offered, ks[n - 1])] + ks[n - 1]]
