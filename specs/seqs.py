from __future__ import annotations
from pyvc.lang import spec, lemma

# Sequence vocabulary of DESIGN section 3.  Executable Python (lists/tuples) and translated to
# define-funs-rec by pyvc.speclib.  RecV = Seq[Cell] (value of a record).


@spec
def take(n: Int, xs: Seq[RecV]) -> Seq[RecV]:
    if n <= 0:
        return []
    if n >= len(xs):
        return xs
    return xs[:n]


@spec
def dedup_first(xs: Seq[RecV]) -> Seq[RecV]:
    if len(xs) == 0:
        return xs
    if xs[-1] in xs[:-1]:
        return dedup_first(xs[:-1])
    return dedup_first(xs[:-1]) + [xs[-1]]


@spec
def count_in(xs: Seq[RecV], x: RecV) -> Int:
    if len(xs) == 0:
        return 0
    if xs[-1] == x:
        return count_in(xs[:-1], x) + 1
    return count_in(xs[:-1], x)


@spec
def rev_cells(xs: Seq[Cell]) -> Seq[Cell]:
    if len(xs) == 0:
        return xs
    return [xs[-1]] + rev_cells(xs[:-1])


@spec
def rev_recs(xs: Seq[RecV]) -> Seq[RecV]:
    if len(xs) == 0:
        return xs
    return [xs[-1]] + rev_recs(xs[:-1])


@spec
def rev_ints(xs: Seq[Int]) -> Seq[Int]:
    if len(xs) == 0:
        return xs
    return [xs[-1]] + rev_ints(xs[:-1])


@spec
def rev_strs(xs: Seq[Str]) -> Seq[Str]:
    if len(xs) == 0:
        return xs
    return [xs[-1]] + rev_strs(xs[:-1])


@spec
def uc_rows(ks: Seq[RecV], offered: Seq[RecV], n: Int) -> Seq[RecV]:
    # DISTINCT COUNT output for the first n distinct records: each once, prefixed by its multiplicity
    if n <= 0:
        return []
    return uc_rows(ks, offered, n - 1) + [[count_in(offered, ks[n - 1])] + ks[n - 1]]


# ---------------------------------------------------------------- stable sort as a permutation of indices
@spec(opaque=True)
def key_le(a: Key, b: Key) -> Bool:
    return a <= b


@spec
def ins_idx(es: Seq[Tuple[Key, Rec]], i: Int, ps: Seq[Int]) -> Seq[Int]:
    # insert index i into the sorted index list ps, after every index whose key is <= key(i)  (stable)
    if len(ps) == 0:
        return [i]
    if key_le(es[ps[-1]][0], es[i][0]):
        return ps + [i]
    return ins_idx(es, i, ps[:-1]) + [ps[-1]]


@spec
def sort_perm(es: Seq[Tuple[Key, Rec]], n: Int) -> Seq[Int]:
    # indices 0..n-1 ordered by non-decreasing key, ties in index (= input) order
    if n <= 0:
        return []
    return ins_idx(es, n - 1, sort_perm(es, n - 1))


@spec
def rev_entries(xs: Seq[Tuple[Key, Rec]]) -> Seq[Tuple[Key, Rec]]:
    if len(xs) == 0:
        return xs
    return [xs[-1]] + rev_entries(xs[:-1])


@spec
def pick(xs: Seq[RecV], ps: Seq[Int], n: Int) -> Seq[RecV]:
    # [xs[ps[0]], ..., xs[ps[n-1]]]
    if n <= 0:
        return []
    return pick(xs, ps, n - 1) + [xs[ps[n - 1]]]


@spec
def pick_dir(xs: Seq[RecV], ps: Seq[Int], rev: Bool, n: Int) -> Seq[RecV]:
    # first n records of xs taken in the order ps (ascending) or in exactly the reverse of ps (descending)
    if n <= 0:
        return []
    return pick_dir(xs, ps, rev, n - 1) + [xs[ps[(len(ps) - n) if rev else (n - 1)]]]


@spec
def rep_cells(c: Cell, n: Int) -> Seq[Cell]:
    # [c] * n
    if n <= 0:
        return []
    return rep_cells(c, n - 1) + [c]


@spec(opaque=True)
def sorted_keyset(members: Map[Key, Bool], n: Int) -> Seq[Key]:
    # the n members of a set of group keys in ascending order (what sorted(list(s)) returns; A-SORT)
    raise NotImplementedError


@lemma
def seq_ext_str(a: Seq[Str], b: Seq[Str], m: Int):
    # extensionality of sequences of strings, by induction on the length: equal lengths and equal elements make equal sequences
    props('C09')
    requires(m >= 0 and m == len(a) and len(a) == len(b) and forall(Int, lambda i: implies(0 <= i and i < len(a), a[i] == b[i])))
    ensures(a == b, 'equal')
    hint(implies(m > 0, len(a[:m - 1]) == m - 1 and len(b[:m - 1]) == m - 1 and forall(Int, lambda i: implies(0 <= i and i < m - 1, a[:m - 1][i] == a[i] and b[:m - 1][i] == b[i]))))
    hint(implies(m > 0, a[:m - 1] == b[:m - 1]))
    hint(implies(m > 0, a == a[:m - 1] + [a[m - 1]] and b == b[:m - 1] + [b[m - 1]]))
    induct(m)
    generalize(a, b)
    measure(m, len(a))
