from __future__ import annotations
from pyvc.lang import spec, lemma

# C08: string literals are set aside before the query text is parsed, and put back afterwards.


@spec(opaque=True)
def lit_spans(s: Str) -> Seq[Tuple[Int, Int]]:
    # spans of the string literals of a query text (what the literal regex of separate_string_literals finds; A-RE-literal)
    raise NotImplementedError


@spec
def placeholder(i: Int) -> Str:
    return '___RBQL_STRING_LITERAL' + str_of_int(i) + '___'


@spec
def span_end(spans: Seq[Tuple[Int, Int]], k: Int) -> Int:
    # end of the k-th span, 0 before the first one
    if k < 0:
        return 0
    return spans[k][1]


@spec
def lit_texts(s: Str, spans: Seq[Tuple[Int, Int]], n: Int) -> Seq[Str]:
    # the first n literals, verbatim
    if n <= 0:
        return []
    return lit_texts(s, spans, n - 1) + [s[spans[n - 1][0]:spans[n - 1][1]]]


@spec
def lit_parts(s: Str, spans: Seq[Tuple[Int, Int]], n: Int) -> Seq[Str]:
    # text between the literals, each literal replaced by its numbered placeholder
    if n <= 0:
        return []
    return lit_parts(s, spans, n - 1) + [s[span_end(spans, n - 2):spans[n - 1][0]], placeholder(n - 1)]


@spec
def combine_upto(e: Str, lits: Seq[Str], n: Int) -> Str:
    # placeholders 0..n-1 replaced, in that order, by their literals
    if n <= 0:
        return e
    return str_replace(combine_upto(e, lits, n - 1), placeholder(n - 1), lits[n - 1])


@spec
def strip_line(l: Str) -> Str:
    # strip_comments: comment lines vanish, other lines lose their surrounding blanks
    if ws_strip(l).startswith('#'):
        return ''
    return ws_strip(l)
