from __future__ import annotations
from pyvc.lang import spec


@spec
def except_spec(src: Seq[Cell], ex: Seq[Int], n: Int) -> Seq[Cell]:
    # fields 0..n-1 of src whose index is not listed in ex, in order
    if n <= 0:
        return []
    if (n - 1) in ex:
        return except_spec(src, ex, n - 1)
    return except_spec(src, ex, n - 1) + [src[n - 1]]


@spec
def except_spec_str(src: Seq[Str], ex: Seq[Int], n: Int) -> Seq[Str]:
    # except_spec for a list of names (the header)
    if n <= 0:
        return []
    if (n - 1) in ex:
        return except_spec_str(src, ex, n - 1)
    return except_spec_str(src, ex, n - 1) + [src[n - 1]]
