from __future__ import annotations
from pyvc.lang import spec

# Variable discovery over the query text (C09).  Each regex-driven parser of rbql_engine is abstracted by two uninterpreted
# functions: X_has(args, k) "the parser registers the variable spelled k" and X_val(args, k) its VariableInfo (A-PARSE-VARS; the
# parsers themselves have bounded stand-ins).  What is PROVED with them is how the front ends combine the parsers.


@spec(opaque=True)
def vb_has(q: Str, p: Str, k: Str) -> Bool:
    raise NotImplementedError


@spec(opaque=True)
def vb_val(q: Str, p: Str, k: Str) -> NT['rbql_engine.VariableInfo']:
    raise NotImplementedError


@spec(opaque=True)
def va_has(q: Str, p: Str, k: Str) -> Bool:
    raise NotImplementedError


@spec(opaque=True)
def va_val(q: Str, p: Str, k: Str) -> NT['rbql_engine.VariableInfo']:
    raise NotImplementedError


@spec(opaque=True)
def vd_has(q: Str, p: Str, names: Seq[Str], k: Str) -> Bool:
    raise NotImplementedError


@spec(opaque=True)
def vd_val(q: Str, p: Str, names: Seq[Str], k: Str) -> NT['rbql_engine.VariableInfo']:
    raise NotImplementedError


@spec(opaque=True)
def vt_has(q: Str, p: Str, names: Seq[Str], k: Str) -> Bool:
    raise NotImplementedError


@spec(opaque=True)
def vt_val(q: Str, p: Str, names: Seq[Str], k: Str) -> NT['rbql_engine.VariableInfo']:
    raise NotImplementedError


@spec(opaque=True)
def vt_fail(q: Str, p: Str, names: Seq[Str]) -> Bool:
    raise NotImplementedError


@spec(opaque=True)
def vm_has(q: Str, names: Seq[Str], k: Str) -> Bool:
    raise NotImplementedError


@spec(opaque=True)
def vm_val(q: Str, names: Seq[Str], k: Str) -> NT['rbql_engine.VariableInfo']:
    raise NotImplementedError


@spec(opaque=True)
def vm_fail(q: Str, names: Seq[Str]) -> Bool:
    raise NotImplementedError
