from __future__ import annotations
from pyvc.lang import spec, lemma

# String vocabulary (A-PY): recursive notions are spec functions, not solver built-ins (DESIGN 2.2).


@spec
def str_count(s: Str, t: Str) -> Int:
    # s.count(t): non-overlapping occurrences, scanning left to right
    if len(t) == 0:
        return len(s) + 1
    if s.find(t) < 0:
        return 0
    return 1 + str_count(s[s.find(t) + len(t):], t)


@spec
def str_replace(s: Str, a: Str, b: Str) -> Str:
    # s.replace(a, b) for a non-empty a
    if len(a) == 0 or s.find(a) < 0:
        return s
    return s[:s.find(a)] + b + str_replace(s[s.find(a) + len(a):], a, b)


@spec
def str_split(s: Str, sep: Str) -> Seq[Str]:
    # s.split(sep) for a non-empty separator
    if len(sep) == 0 or s.find(sep) < 0:
        return [s]
    return [s[:s.find(sep)]] + str_split(s[s.find(sep) + len(sep):], sep)


@spec
def str_join(sep: Str, xs: Seq[Str]) -> Str:
    if len(xs) == 0:
        return ''
    if len(xs) == 1:
        return xs[0]
    return str_join(sep, xs[:-1]) + sep + xs[-1]


@spec
def ch_lstrip(s: Str, c: Str) -> Str:
    if len(s) > 0 and s[0] == c:
        return ch_lstrip(s[1:], c)
    return s


@spec
def ch_rstrip(s: Str, c: Str) -> Str:
    if len(s) > 0 and s[-1] == c:
        return ch_rstrip(s[:-1], c)
    return s


@spec
def ch_strip(s: Str, c: Str) -> Str:
    return ch_rstrip(ch_lstrip(s, c), c)


@spec
def is_ws_char(c: Str) -> Bool:
    # the ASCII whitespace characters str.strip() removes (A-PY: the non-ASCII Unicode spaces are not modelled)
    return c == ' ' or c == '\t' or c == '\n' or c == '\r' or c == '\x0b' or c == '\x0c'


@spec
def ws_lstrip(s: Str) -> Str:
    if len(s) > 0 and is_ws_char(s[0]):
        return ws_lstrip(s[1:])
    return s


@spec
def ws_rstrip(s: Str) -> Str:
    if len(s) > 0 and is_ws_char(s[-1]):
        return ws_rstrip(s[:-1])
    return s


@spec
def ws_strip(s: Str) -> Str:
    return ws_rstrip(ws_lstrip(s))


# ---------------------------------------------------------------- LIKE (C17)
@spec(opaque=True)
def re_escape(s: Str) -> Str:
    # re.escape: assumed to be a per-character map (A-RE-escape), axioms in contracts/builtins.py
    import re
    return re.escape(s)


@spec
def like_tok(c: Str) -> Str:
    # regex token of one LIKE pattern character
    if c == '_':
        return '.'
    if c == '%':
        return '.*'
    return re_escape(c)


@spec
def like_body(p: Str, n: Int) -> Str:
    # concatenation of the tokens of the first n pattern characters
    if n <= 0:
        return ''
    return like_body(p, n - 1) + like_tok(p[n - 1])


@lemma
def like_literal_segment(pattern: Str, p: Int, i: Int):
    # tokens of a wildcard-free segment are re.escape of the segment (needs only that re.escape is a per-character map)
    props('C17')
    requires(0 <= p and p <= i and i <= len(pattern))
    requires(re_escape('') == '' and forall(Str, Str, lambda a, b: re_escape(a + b) == re_escape(a) + re_escape(b)))
    requires(forall(Int, lambda k: implies(p <= k and k < i, pattern[k] != '_' and pattern[k] != '%')))
    hint(implies(i > p, pattern[p:i] == pattern[p:i - 1] + pattern[i - 1]))
    hint(re_escape(pattern[p:i - 1] + pattern[i - 1]) == re_escape(pattern[p:i - 1]) + re_escape(pattern[i - 1]))
    hint(implies(i > p, like_body(pattern, i) == like_body(pattern, i - 1) + re_escape(pattern[i - 1])))
    hint(implies(i == p, pattern[p:i] == ''))
    hint(implies(i > p, like_body(pattern, i - 1) == like_body(pattern, p) + re_escape(pattern[p:i - 1])))
    ensures(like_body(pattern, i) == like_body(pattern, p) + re_escape(pattern[p:i]), 'segment')
    induct(i)


@spec
def like_regex(p: Str) -> Str:
    return '^' + like_body(p, len(p)) + '$'


@spec(opaque=True)
def re_matches(regex: Str, text: Str) -> Bool:
    # re.compile(regex).match(text) is not None   (Python's re: assumed, see bounded validation)
    import re
    return re.compile(regex).match(text) is not None


@spec
def nonempty_strs(xs: Seq[Str]) -> Seq[Str]:
    # the non-empty strings of xs, in order ([l for l in xs if len(l)])
    if len(xs) == 0:
        return xs
    if len(xs[-1]) == 0:
        return nonempty_strs(xs[:-1])
    return nonempty_strs(xs[:-1]) + [xs[-1]]
