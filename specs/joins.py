from __future__ import annotations
from pyvc.lang import spec, lemma

# C04 reference: key of a record under a list of key indices (-1 = the record number), and the
# B records bucketed by key in B order.  TV = (bNR, bNF, record value).


@spec
def jcomp(nr: Int, fields: Seq[Cell], ki: Int) -> Cell:
    if ki == -1:
        return cell(nr)
    return fields[ki]


@spec
def jkeys(nr: Int, fields: Seq[Cell], kidx: Seq[Int], n: Int) -> Seq[Cell]:
    if n <= 0:
        return []
    return jkeys(nr, fields, kidx, n - 1) + [jcomp(nr, fields, kidx[n - 1])]


@spec
def jkey_of(nr: Int, fields: Seq[Cell], kidx: Seq[Int]) -> JKey:
    if len(kidx) == 1:
        return k1(jcomp(nr, fields, kidx[0]))
    return kn(jkeys(nr, fields, kidx, len(kidx)))


@spec
def first_bad_key(fields: Seq[Cell], kidx: Seq[Int], k: Int) -> Int:
    # position (in kidx, at or after k) of the first key index that addresses no field of the record, or -1
    if k < 0 or k >= len(kidx):
        return -1
    if kidx[k] >= len(fields):
        return k
    return first_bad_key(fields, kidx, k + 1)


@spec
def none_cells(n: Int) -> Seq[Cell]:
    return rep_cells(cell(None), n)


@spec
def join_pairs_for(kind: Int, jm: Map[JKey, Seq[Tuple[Opt[Int], Int, RecV]]], nullw: Int, key: JKey) -> Seq[Tuple[Opt[Int], Int, RecV]]:
    # kind 0 INNER: the key-equal B records in B order; 1 LEFT: those, or one all-None record when there are none;
    # 2 STRICT LEFT: those (and the joiner fails unless there is exactly one)
    if kind == 1 and len(jm[key]) == 0:
        return [tup(opt_none_int(), nullw, none_cells(nullw))]
    return jm[key]


@lemma
def none_cells_pointwise(n: Int):
    props('C04')
    requires(n >= 0)
    ensures(len(rep_cells(cell(None), n)) == n, 'length')
    ensures(forall(Int, lambda i: implies(0 <= i and i < n, rep_cells(cell(None), n)[i] == cell(None))), 'all_none')
    induct(n)


@spec
def bucket(rows: Seq[RecV], kidx: Seq[Int], key: JKey, m: Int) -> Seq[Tuple[Opt[Int], Int, RecV]]:
    # C04: the B records among the first m whose key equals `key`, in B order, each with its 1-based number and width
    if m <= 0:
        return []
    if jkey_of(m, rows[m - 1], kidx) == key:
        return bucket(rows, kidx, key, m - 1) + [tup(some(m), len(rows[m - 1]), rows[m - 1])]
    return bucket(rows, kidx, key, m - 1)


@spec
def max_width(rows: Seq[RecV], m: Int) -> Int:
    # the largest number of fields among the first m records (0 for none): the width of the LEFT JOIN null record
    if m <= 0:
        return 0
    if len(rows[m - 1]) > max_width(rows, m - 1):
        return len(rows[m - 1])
    return max_width(rows, m - 1)


@spec
def first_short_row(rows: Seq[RecV], kidx: Seq[Int], m: Int) -> Int:
    # 0-based index of the first of the first m records that lacks a key field, or -1
    if m <= 0:
        return -1
    if first_short_row(rows, kidx, m - 1) != -1:
        return first_short_row(rows, kidx, m - 1)
    if first_bad_key(rows[m - 1], kidx, 0) != -1:
        return m - 1
    return -1
