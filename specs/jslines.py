from __future__ import annotations
from pyvc.lang import spec, lemma

# Lines of a text as JavaScript's text.split(/\r\n|\r|\n/) gives them (C20), defined from the END of the text so that appending a chunk is one
# unfolding per character: jl(s, n) are the lines of the first n characters of s; the last element is the line still open.


@spec
def jl(s: Str, n: Int) -> Seq[Str]:
    if n <= 0:
        return ['']
    if s[n - 1] == '\n' and n >= 2 and s[n - 2] == '\r':
        return jl(s, n - 1)                       # the LF of a CRLF pair: the CR already closed the line
    if s[n - 1] == '\n' or s[n - 1] == '\r':
        return jl(s, n - 1) + ['']
    return jl(s, n - 1)[:-1] + [jl(s, n - 1)[-1] + s[n - 1]]


@lemma
def jl_nonempty(s: Str, n: Int):
    props('C20')
    requires(0 <= n and n <= len(s))
    ensures(len(jl(s, n)) >= 1, 'at_least_the_open_line')
    induct(n)


@lemma
def jl_prefix(a: Str, b: Str, n: Int):
    # the lines of a prefix do not depend on what follows
    props('C20')
    requires(0 <= n and n <= len(a))
    uses(jl_nonempty)
    ensures(jl(a + b, n) == jl(a, n), 'prefix_decides')
    hint(implies(n >= 1, (a + b)[n - 1] == a[n - 1]))
    hint(implies(n >= 2, (a + b)[n - 2] == a[n - 2]))
    induct(n)


@lemma
def jl_head(c: Str, m: Int):
    # a text that starts with a line break has an empty first line and at least two lines
    props('C20')
    requires(1 <= m and m <= len(c))
    uses(jl_nonempty)
    ensures(implies(c[0] == '\n' or c[0] == '\r', jl(c, m)[0] == '' and len(jl(c, m)) >= 2), 'empty_first_line')
    induct(m)


@lemma
def seq_tail_append(ys: Seq[Str], zs: Seq[Str]):
    props('C20')
    requires(len(ys) >= 1)
    ensures((ys + zs)[0] == ys[0] and (ys + zs)[1:] == ys[1:] + zs, 'head_and_tail_of_an_append')


@lemma
def seq_init_append(ys: Seq[Str], z: Str):
    props('C20')
    ensures((ys + [z])[:-1] == ys and (ys + [z])[-1] == z and len(ys + [z]) == len(ys) + 1, 'init_and_last_of_an_append')


@lemma
def seq_init_last(ys: Seq[Str]):
    props('C20')
    requires(len(ys) >= 1)
    ensures(ys[:-1] + [ys[-1]] == ys, 'init_plus_last')
    ensures(implies(len(ys) >= 2, ys[:-1][0] == ys[0] and ys[:-1][1:] == ys[1:][:-1] and ys[1:][-1] == ys[-1]), 'init_and_tail_commute')


@lemma
def seq_init_of_append(xs: Seq[Str], zs: Seq[Str]):
    props('C20')
    requires(len(zs) >= 1)
    ensures((xs + zs)[:-1] == xs + zs[:-1] and (xs + zs)[-1] == zs[-1], 'init_and_last_of_an_append')


@lemma
def jl_last_after_cr(t: Str):
    props('C20')
    requires(len(t) >= 1 and t[len(t) - 1] == '\r')
    uses(jl_nonempty)
    ensures(jl(t, len(t))[-1] == '' and len(jl(t, len(t))) >= 2, 'a_cr_closes_the_line')
    ensures(jl(t, len(t))[:-1] == jl(t, len(t) - 1), 'lines_before_the_cr')


@lemma
def jl_concat_plain(t: Str, c: Str, m: Int):
    # appending a chunk: the open line of t is continued by the first line of the chunk
    props('C20')
    requires(0 <= m and m <= len(c))
    requires(not (len(t) >= 1 and t[len(t) - 1] == '\r' and len(c) >= 1 and c[0] == '\n'))
    uses(jl_nonempty)
    uses(jl_prefix(t, c, len(t)))
    uses(seq_tail_append(jl(c, m - 1), ['']))
    uses(seq_init_append(jl(c, m - 1)[:-1], jl(c, m - 1)[-1] + c[m - 1]))
    uses(seq_init_last(jl(c, m - 1)))
    uses(seq_init_last(jl(t, len(t))))
    uses(seq_tail_append(jl(c, m - 1)[:-1], [jl(c, m - 1)[-1] + c[m - 1]]))
    uses(seq_init_of_append(jl(t, len(t))[:-1], [jl(t, len(t))[-1] + jl(c, m - 1)[0]]))
    uses(seq_init_of_append(jl(t, len(t))[:-1] + [jl(t, len(t))[-1] + jl(c, m - 1)[0]], jl(c, m - 1)[1:]))
    ensures(jl(t + c, len(t) + m) == jl(t, len(t))[:-1] + [jl(t, len(t))[-1] + jl(c, m)[0]] + jl(c, m)[1:], 'lines_of_the_concatenation')
    hint(implies(m >= 1, (t + c)[len(t) + m - 1] == c[m - 1]))
    hint(implies(m >= 2, (t + c)[len(t) + m - 2] == c[m - 2]))
    hint(implies(m == 1 and len(t) >= 1, (t + c)[len(t) + m - 2] == t[len(t) - 1]))
    hint(len(jl(t, len(t))) >= 1 and jl(t, len(t))[:-1] + [jl(t, len(t))[-1]] == jl(t, len(t)))
    hint(implies(m >= 1 and c[m - 1] == '\n' and m >= 2 and c[m - 2] == '\r', jl(c, m) == jl(c, m - 1)))
    hint(implies(m >= 1 and (c[m - 1] == '\n' or c[m - 1] == '\r') and not (c[m - 1] == '\n' and m >= 2 and c[m - 2] == '\r'), jl(c, m) == jl(c, m - 1) + ['']))
    hint(implies(m >= 1 and c[m - 1] != '\n' and c[m - 1] != '\r', jl(c, m) == jl(c, m - 1)[:-1] + [jl(c, m - 1)[-1] + c[m - 1]]))
    hint(implies(m >= 1, len(jl(c, m - 1)) >= 1 and len(jl(c, m)) >= 1))
    hint(implies(m >= 1 and c[m - 1] == '\n' and m >= 2 and c[m - 2] == '\r', jl(t + c, len(t) + m) == jl(t + c, len(t) + m - 1)))
    hint(implies(m >= 1 and (c[m - 1] == '\n' or c[m - 1] == '\r') and not (c[m - 1] == '\n' and m >= 2 and c[m - 2] == '\r'), jl(t + c, len(t) + m) == jl(t + c, len(t) + m - 1) + ['']))
    hint(implies(m >= 1 and c[m - 1] != '\n' and c[m - 1] != '\r', jl(t + c, len(t) + m) == jl(t + c, len(t) + m - 1)[:-1] + [jl(t + c, len(t) + m - 1)[-1] + c[m - 1]]))
    hint(implies(m >= 1 and (c[m - 1] == '\n' or c[m - 1] == '\r') and not (c[m - 1] == '\n' and m >= 2 and c[m - 2] == '\r'),
                 jl(c, m)[0] == jl(c, m - 1)[0] and jl(c, m)[1:] == jl(c, m - 1)[1:] + ['']))
    hint(implies(m >= 1 and c[m - 1] != '\n' and c[m - 1] != '\r' and len(jl(c, m - 1)) == 1,
                 jl(c, m)[0] == jl(c, m - 1)[0] + c[m - 1] and len(jl(c, m)) == 1))
    hint(implies(m >= 1 and c[m - 1] != '\n' and c[m - 1] != '\r' and len(jl(c, m - 1)) >= 2,
                 jl(c, m)[0] == jl(c, m - 1)[0] and jl(c, m)[1:] == jl(c, m - 1)[1:][:-1] + [jl(c, m - 1)[-1] + c[m - 1]]))
    hint(implies(m == 0, jl(t + c, len(t) + m) == jl(t, len(t))[:-1] + [jl(t, len(t))[-1] + jl(c, m)[0]] + jl(c, m)[1:]))
    hint(implies(m >= 1 and c[m - 1] == '\n' and m >= 2 and c[m - 2] == '\r', jl(t + c, len(t) + m) == jl(t, len(t))[:-1] + [jl(t, len(t))[-1] + jl(c, m)[0]] + jl(c, m)[1:]))
    hint(implies(m >= 1 and (c[m - 1] == '\n' or c[m - 1] == '\r') and not (c[m - 1] == '\n' and m >= 2 and c[m - 2] == '\r'), jl(t + c, len(t) + m) == jl(t, len(t))[:-1] + [jl(t, len(t))[-1] + jl(c, m)[0]] + jl(c, m)[1:]))
    hint(implies(m >= 1 and c[m - 1] != '\n' and c[m - 1] != '\r' and len(jl(c, m - 1)) == 1, jl(t + c, len(t) + m) == jl(t, len(t))[:-1] + [jl(t, len(t))[-1] + jl(c, m)[0]] + jl(c, m)[1:]))
    hint(implies(m >= 1 and c[m - 1] != '\n' and c[m - 1] != '\r' and len(jl(c, m - 1)) >= 2, jl(t + c, len(t) + m) == jl(t, len(t))[:-1] + [jl(t, len(t))[-1] + jl(c, m)[0]] + jl(c, m)[1:]))
    induct(m)


@lemma
def jl_concat_crlf(t: Str, c: Str, m: Int):
    # ... except that an LF right after the CR that ended t belongs to that CR: no line in between
    props('C20')
    requires(1 <= m and m <= len(c))
    requires(len(t) >= 1 and t[len(t) - 1] == '\r' and c[0] == '\n')
    uses(jl_nonempty)
    uses(jl_prefix(t, c, len(t)))
    uses(jl_head)
    uses(jl_last_after_cr(t))
    uses(seq_tail_append(jl(c, m - 1), ['']))
    uses(seq_init_append(jl(c, m - 1)[:-1], jl(c, m - 1)[-1] + c[m - 1]))
    uses(seq_init_last(jl(c, m - 1)))
    uses(seq_tail_append(jl(c, m - 1)[:-1], [jl(c, m - 1)[-1] + c[m - 1]]))
    uses(seq_init_of_append(jl(t, len(t))[:-1], jl(c, m - 1)[1:]))
    ensures(jl(t + c, len(t) + m) == jl(t, len(t))[:-1] + jl(c, m)[1:], 'lines_of_the_concatenation')
    hint(implies(m >= 1, (t + c)[len(t) + m - 1] == c[m - 1]))
    hint(implies(m >= 2, (t + c)[len(t) + m - 2] == c[m - 2]))
    hint(implies(m == 1, (t + c)[len(t) + m - 2] == t[len(t) - 1]))
    hint(implies(m >= 2, len(jl(c, m - 1)) >= 2 and len(jl(c, m)) >= 2))
    hint(implies(m >= 1 and c[m - 1] == '\n' and m >= 2 and c[m - 2] == '\r', jl(c, m) == jl(c, m - 1)))
    hint(implies(m >= 1 and (c[m - 1] == '\n' or c[m - 1] == '\r') and not (c[m - 1] == '\n' and m >= 2 and c[m - 2] == '\r'), jl(c, m) == jl(c, m - 1) + ['']))
    hint(implies(m >= 1 and c[m - 1] != '\n' and c[m - 1] != '\r', jl(c, m) == jl(c, m - 1)[:-1] + [jl(c, m - 1)[-1] + c[m - 1]]))
    hint(implies(m >= 2 and c[m - 1] == '\n' and c[m - 2] == '\r', jl(t + c, len(t) + m) == jl(t + c, len(t) + m - 1)))
    hint(implies(m >= 2 and (c[m - 1] == '\n' or c[m - 1] == '\r') and not (c[m - 1] == '\n' and c[m - 2] == '\r'), jl(t + c, len(t) + m) == jl(t + c, len(t) + m - 1) + ['']))
    hint(implies(m >= 2 and c[m - 1] != '\n' and c[m - 1] != '\r', jl(t + c, len(t) + m) == jl(t + c, len(t) + m - 1)[:-1] + [jl(t + c, len(t) + m - 1)[-1] + c[m - 1]]))
    hint(implies(m == 1, jl(t + c, len(t) + 1) == jl(t + c, len(t)) and jl(c, 1)[1:] == ['']))
    hint(implies(m >= 2 and (c[m - 1] == '\n' or c[m - 1] == '\r') and not (c[m - 1] == '\n' and c[m - 2] == '\r'), jl(c, m)[1:] == jl(c, m - 1)[1:] + ['']))
    hint(implies(m >= 2 and c[m - 1] != '\n' and c[m - 1] != '\r', jl(c, m)[1:] == jl(c, m - 1)[1:][:-1] + [jl(c, m - 1)[-1] + c[m - 1]]))
    induct(m)
