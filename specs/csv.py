from __future__ import annotations
from pyvc.lang import spec, lemma

# CSV dialect, character level (C10, C11, C12).  Written from the property statements:
# "a field is quoted iff, after optional surrounding spaces (when the delimiter is not a space), it is enclosed in
#  double quotes with inner quotes doubled and is followed by the delimiter or the end of the line; every other
#  field extends to the next delimiter".  qclose is the scanner formulation of "enclosed with inner quotes doubled".


@spec
def skip_sp(s: Str, i: Int) -> Int:
    # first index >= i that does not hold a space (len(s) if none)
    if i < 0 or i >= len(s):
        return len(s)
    if s[i] != ' ':
        return i
    return skip_sp(s, i + 1)


@spec
def qclose(s: Str, j: Int) -> Int:
    # s[j-1] is an opening quote: index just past the closing quote of the quoted string whose interior starts at j
    # (inner quotes doubled), or -1 if it is never closed
    if j < 0 or j >= len(s):
        return -1
    if s[j] != '"':
        return qclose(s, j + 1)
    if j + 1 < len(s) and s[j + 1] == '"':
        return qclose(s, j + 2)
    return j + 1


@spec
def unesc(s: Str) -> Str:
    return str_replace(s, '""', '"')


@spec
def q_open(s: Str, cidx: Int, allow_ws: Bool) -> Int:
    # position of the opening quote candidate
    if allow_ws:
        return skip_sp(s, cidx)
    return cidx


@spec
def q_end(s: Str, cidx: Int, allow_ws: Bool) -> Int:
    # end (exclusive) of the quoted field text incl. surrounding spaces, or -1 when the field at cidx is not
    # of the quoted form at all
    if q_open(s, cidx, allow_ws) >= len(s) or s[q_open(s, cidx, allow_ws)] != '"':
        return -1
    if qclose(s, q_open(s, cidx, allow_ws) + 1) == -1:
        return -1
    if allow_ws:
        return skip_sp(s, qclose(s, q_open(s, cidx, allow_ws) + 1))
    return qclose(s, q_open(s, cidx, allow_ws) + 1)


@spec
def is_quoted_field(s: Str, d: Str, cidx: Int, allow_ws: Bool) -> Bool:
    # the field starting at cidx is quoted: quoted form, followed by the delimiter or the end of the line
    return q_end(s, cidx, allow_ws) != -1 and (q_end(s, cidx, allow_ws) == len(s) or s[q_end(s, cidx, allow_ws)] == d)


@spec
def next_dlm(s: Str, d: Str, cidx: Int) -> Int:
    if s.find(d, cidx) == -1:
        return len(s)
    return s.find(d, cidx)


@spec
def field_stop(s: Str, d: Str, cidx: Int, allow_ws: Bool) -> Int:
    # index of the delimiter that ends the field starting at cidx (len(s) for the last field)
    if is_quoted_field(s, d, cidx, allow_ws):
        return q_end(s, cidx, allow_ws)
    return next_dlm(s, d, cidx)


@spec
def field_text(s: Str, d: Str, cidx: Int, allow_ws: Bool, preserve: Bool) -> Str:
    if is_quoted_field(s, d, cidx, allow_ws) and not preserve:
        return unesc(s[q_open(s, cidx, allow_ws) + 1:qclose(s, q_open(s, cidx, allow_ws) + 1) - 1])
    return s[cidx:field_stop(s, d, cidx, allow_ws)]


@spec
def field_warn(s: Str, d: Str, cidx: Int, allow_ws: Bool) -> Bool:
    # a field taken as unquoted contains a double quote
    return (not is_quoted_field(s, d, cidx, allow_ws)) and ('"' in s[cidx:next_dlm(s, d, cidx)])


@lemma
def skip_sp_props(s: Str, i: Int, m: Int):
    # skip_sp(s, i) is the end of the maximal run of spaces starting at i
    props('C11', 'C10')
    requires(m >= 0 and m == len(s) - i and 0 <= i)
    ensures(i <= skip_sp(s, i) and skip_sp(s, i) <= len(s), 'range')
    ensures(forall(Int, lambda k: implies(i <= k and k < skip_sp(s, i), s[k] == ' ')), 'only_spaces_skipped')
    ensures(skip_sp(s, i) == len(s) or s[skip_sp(s, i)] != ' ', 'stops_at_non_space')
    induct(m)
    generalize(i)
    measure(m, len(s) - i)


@spec
def split_from(s: Str, d: Str, allow_ws: Bool, preserve: Bool, cidx: Int) -> Seq[Str]:
    # the fields of s from position cidx on (the dialect applied field by field, left to right)
    if cidx < 0 or cidx >= len(s):
        return []
    return [field_text(s, d, cidx, allow_ws, preserve)] + split_from(s, d, allow_ws, preserve, field_stop(s, d, cidx, allow_ws) + 1)


@spec
def warn_from(s: Str, d: Str, allow_ws: Bool, cidx: Int) -> Bool:
    # some field at or after cidx is taken as unquoted and contains a double quote
    if cidx < 0 or cidx >= len(s):
        return False
    return field_warn(s, d, cidx, allow_ws) or warn_from(s, d, allow_ws, field_stop(s, d, cidx, allow_ws) + 1)


@spec
def split_spec(s: Str, d: Str, preserve: Bool) -> Seq[Str]:
    # quoted policy: all fields; a line ending in the delimiter has a final empty field
    if len(s) > 0 and s[-1] == d:
        return split_from(s, d, d != ' ', preserve, 0) + ['']
    return split_from(s, d, d != ' ', preserve, 0)


# ---------------------------------------------------------------- lines (C12): LF | CR | CRLF
@spec
def is_nl_char(c: Str) -> Bool:
    return c == '\n' or c == '\r'


@spec
def first_nl(s: Str, i: Int) -> Int:
    # index of the first line-break character at or after i, or -1
    if i < 0 or i >= len(s):
        return -1
    if is_nl_char(s[i]):
        return i
    return first_nl(s, i + 1)


@spec
def nl_len(s: Str, p: Int) -> Int:
    # length of the line break that starts at p: CRLF is one break
    if s[p] == '\r' and p + 1 < len(s) and s[p + 1] == '\n':
        return 2
    return 1


@spec
def first_line(s: Str) -> Str:
    # a final line without terminator is still a line
    if first_nl(s, 0) == -1:
        return s
    return s[:first_nl(s, 0)]


@spec
def after_first_line(s: Str) -> Str:
    if first_nl(s, 0) == -1:
        return ''
    return s[first_nl(s, 0) + nl_len(s, first_nl(s, 0)):]


@lemma
def first_nl_props(s: Str, i: Int, m: Int):
    props('C12')
    requires(m >= 0 and m == len(s) - i and 0 <= i)
    ensures(first_nl(s, i) == -1 or (i <= first_nl(s, i) and first_nl(s, i) < len(s) and is_nl_char(s[first_nl(s, i)])), 'found_is_a_break')
    ensures(forall(Int, lambda k: implies(i <= k and k < len(s) and (first_nl(s, i) == -1 or k < first_nl(s, i)), not is_nl_char(s[k]))), 'nothing_before')
    induct(m)
    generalize(i)
    measure(m, len(s) - i)


@lemma
def first_nl_prefix(a: Str, b: Str, i: Int, m: Int):
    # a break found in a prefix is the first break of the whole text: what was already buffered decides the line
    props('C12')
    requires(m >= 0 and m == len(a) - i and 0 <= i)
    ensures(implies(first_nl(a, i) != -1, first_nl(a + b, i) == first_nl(a, i)), 'prefix_decides')
    hint(implies(i < len(a), (a + b)[i] == a[i]))
    induct(m)
    generalize(i)
    measure(m, len(a) - i)


@lemma
def first_nl_shift(a: Str, b: Str, j: Int, m: Int):
    props('C12')
    requires(m >= 0 and m == len(b) - j and 0 <= j)
    ensures(implies(first_nl(b, j) != -1, first_nl(a + b, len(a) + j) == first_nl(b, j) + len(a)), 'shifted')
    hint(implies(j < len(b), (a + b)[len(a) + j] == b[j]))
    induct(m)
    generalize(j)
    measure(m, len(b) - j)


@lemma
def first_nl_suffix(a: Str, b: Str, i: Int, m: Int):
    # a break in what was appended is a break of the whole buffer
    props('C12')
    requires(m >= 0 and m == len(a) - i and 0 <= i)
    uses(first_nl_shift(a, b, 0, len(b)))
    uses(first_nl_props(b, 0, len(b)))
    ensures(implies(first_nl(b, 0) != -1, first_nl(a + b, i) != -1), 'appended_break_is_found')
    hint(implies(i < len(a), (a + b)[i] == a[i]))
    hint(implies(first_nl(b, 0) != -1, first_nl(a + b, len(a) + 0) == first_nl(b, 0) + len(a)))
    hint(implies(i < len(a) and first_nl(b, 0) != -1, first_nl(a + b, i + 1) != -1))
    induct(m)
    generalize(i)
    measure(m, len(a) - i)


@spec
def strip_bom(line: Str, enc: Opt[Str]) -> Str:
    # a leading UTF-8 byte order mark as it appears after decoding: U+FEFF (utf-8) or EF BB BF (latin-1)
    if (not is_none(enc)) and opt_val(enc) == 'utf-8' and len(line) >= 1 and line[0] == '﻿':
        return line[1:]
    if (not is_none(enc)) and opt_val(enc) == 'latin-1' and len(line) >= 3 and line[:3] == '\xef\xbb\xbf':
        return line[3:]
    return line


# ---------------------------------------------------------------- quoted_rfc records over several physical lines
@spec
def odd_quotes(line: Str) -> Bool:
    return str_count(line, '"') % 2 == 1


@spec
def rfc_tail(s: Str) -> Str:
    # inside an open quoted field: the following physical lines, each joined with LF, up to and including the
    # first line with an odd number of quotes (which closes the field), or to the end of the content
    if len(s) == 0:
        return ''
    if odd_quotes(first_line(s)):
        return '\n' + first_line(s)
    return '\n' + first_line(s) + rfc_tail(after_first_line(s))


@spec
def rfc_after(s: Str) -> Str:
    # content remaining after rfc_tail(s)
    if len(s) == 0:
        return ''
    if odd_quotes(first_line(s)):
        return after_first_line(s)
    return rfc_after(after_first_line(s))


@spec
def line1(s: Str, very_first: Bool, enc: Opt[Str]) -> Str:
    # the first physical line of the remaining content as the reader sees it: a BOM is dropped from the very first line only
    if very_first:
        return strip_bom(first_line(s), enc)
    return first_line(s)


# ---------------------------------------------------------------- records of a CSV stream (C12, C09)
@spec(opaque=True)
def ws_spans(s: Str) -> Seq[Tuple[Int, Int]]:
    # maximal runs of non-space characters (what the regex [^ ]+ finds; A-RE-runs, validated boundedly)
    raise NotImplementedError


@spec
def ws_texts(s: Str, spans: Seq[Tuple[Int, Int]], n: Int) -> Seq[Str]:
    if n <= 0:
        return []
    return ws_texts(s, spans, n - 1) + [s[spans[n - 1][0]:spans[n - 1][1]]]


@spec
def record_fields(line: Str, d: Str, policy: Str) -> Seq[Str]:
    # the fields of one record text under a policy
    if policy == 'simple':
        return str_split(line, d)
    if policy == 'whitespace':
        return ws_texts(line, ws_spans(line), len(ws_spans(line)))
    if policy == 'monocolumn':
        return [line]
    if '"' in line:
        return split_spec(line, d, False)
    return str_split(line, d)


@spec
def record_warn(line: Str, d: Str, policy: Str) -> Bool:
    if policy == 'simple' or policy == 'whitespace' or policy == 'monocolumn':
        return False
    return ('"' in line) and warn_from(line, d, d != ' ', 0)


@spec
def is_comment(line: Str, cp: Opt[Str]) -> Bool:
    return (not is_none(cp)) and line.startswith(opt_val(cp))


@spec
def row_text(s: Str, rfc: Bool, very_first: Bool, enc: Opt[Str], cp: Opt[Str]) -> Str:
    # text of the next physical record: one line, or (quoted_rfc) a line continued until its quotes balance
    if rfc and (not is_comment(line1(s, very_first, enc), cp)) and odd_quotes(line1(s, very_first, enc)):
        return line1(s, very_first, enc) + rfc_tail(after_first_line(s))
    return line1(s, very_first, enc)


@spec
def row_rest(s: Str, rfc: Bool, very_first: Bool, enc: Opt[Str], cp: Opt[Str]) -> Str:
    if rfc and (not is_comment(line1(s, very_first, enc), cp)) and odd_quotes(line1(s, very_first, enc)):
        return rfc_after(after_first_line(s))
    return after_first_line(s)


@spec
def has_data_row(s: Str, rfc: Bool, very_first: Bool, enc: Opt[Str], cp: Opt[Str]) -> Bool:
    # some record that is not a comment line remains
    if len(s) == 0:
        return False
    if is_comment(row_text(s, rfc, very_first, enc, cp), cp):
        return has_data_row(row_rest(s, rfc, very_first, enc, cp), rfc, False, enc, cp)
    return True


@spec
def data_row(s: Str, rfc: Bool, very_first: Bool, enc: Opt[Str], cp: Opt[Str]) -> Str:
    # the next record text, comment-prefixed lines skipped
    if len(s) == 0:
        return ''
    if is_comment(row_text(s, rfc, very_first, enc, cp), cp):
        return data_row(row_rest(s, rfc, very_first, enc, cp), rfc, False, enc, cp)
    return row_text(s, rfc, very_first, enc, cp)


@spec
def data_rest(s: Str, rfc: Bool, very_first: Bool, enc: Opt[Str], cp: Opt[Str]) -> Str:
    if len(s) == 0:
        return ''
    if is_comment(row_text(s, rfc, very_first, enc, cp), cp):
        return data_rest(row_rest(s, rfc, very_first, enc, cp), rfc, False, enc, cp)
    return row_rest(s, rfc, very_first, enc, cp)


# ---------------------------------------------------------------- writing (C10, C14, C15)
@spec
def all_strings(cs: Seq[Cell]) -> Bool:
    if len(cs) == 0:
        return True
    return all_strings(cs[:-1]) and is_str(cs[-1])


@lemma
def all_strings_prefix(cs: Seq[Cell], n: Int):
    # pointwise text cells => the recursive all_strings (what ''.join demands of a record)
    props('C10', 'C14', 'C15')
    requires(0 <= n and n <= len(cs))
    requires(forall(Int, lambda j: implies(0 <= j and j < n, is_str(cs[j]))))
    ensures(all_strings(cs[:n]), 'prefix_is_text')
    hint(implies(n > 0, cs[:n][:-1] == cs[:n - 1] and cs[:n][-1] == cs[n - 1]))
    induct(n)


@spec
def cells_join(sep: Str, cs: Seq[Cell]) -> Str:
    if len(cs) == 0:
        return ''
    if len(cs) == 1:
        return sval(cs[0])
    return cells_join(sep, cs[:-1]) + sep + sval(cs[-1])


@spec
def esc(s: Str) -> Str:
    return str_replace(s, '"', '""')


@spec
def quote_spec(src: Str, d: Str, rfc: Bool) -> Str:
    # a field is enclosed in quotes (inner quotes doubled) iff it contains a quote or the delimiter (or, rfc, a line break)
    if '"' in src:
        return '"' + esc(src) + '"'
    if d in src or (rfc and ('\n' in src or '\r' in src)):
        return '"' + src + '"'
    return src


@spec(opaque=True)
def cell_text(c: Cell) -> Str:
    # str(c) for numbers and other objects
    return str(c)


@spec
def norm_text(c: Cell) -> Str:
    # how a cell is written: None as the empty string, strings as they are, everything else through str()
    if is_none_cell(c):
        return ''
    if is_str(c):
        return sval(c)
    return cell_text(c)


@spec
def any_none(cs: Seq[Cell], n: Int) -> Bool:
    if n <= 0:
        return False
    return any_none(cs, n - 1) or is_none_cell(cs[n - 1])


# ---------------------------------------------------------------- suffix lemmas (C18: the JavaScript port scans src.substring(cidx))
@lemma
def skip_sp_suffix(s: Str, c: Int, p: Int, m: Int):
    # scanning the suffix s[c:] from p is scanning s from c + p
    props('C18')
    requires(0 <= c and 0 <= p and c + p <= len(s) and m == len(s) - c - p and m >= 0)
    ensures(skip_sp(s[c:], p) == skip_sp(s, c + p) - c, 'shifted')
    hint(len(s[c:]) == len(s) - c)
    hint(implies(c + p < len(s), s[c:][p] == s[c + p]))
    induct(m)
    generalize(p)
    measure(m, len(s) - c - p)


@lemma
def qclose_suffix(s: Str, c: Int, p: Int, m: Int):
    props('C18')
    requires(0 <= c and 0 <= p and c + p <= len(s) and m == len(s) - c - p and m >= 0)
    ensures(qclose(s[c:], p) == (qclose(s, c + p) - c if qclose(s, c + p) != -1 else -1), 'shifted')
    hint(len(s[c:]) == len(s) - c)
    hint(implies(c + p < len(s), s[c:][p] == s[c + p]))
    hint(implies(c + p + 1 < len(s), s[c:][p + 1] == s[c + p + 1]))
    induct(m, strong=True)
    generalize(p)
    measure(m, len(s) - c - p)


@lemma
def qclose_range(s: Str, j: Int, m: Int):
    # a closing position lies after the interior start and inside the text
    props('C18')
    requires(0 <= j and j <= len(s) and m == len(s) - j and m >= 0)
    ensures(qclose(s, j) == -1 or (j < qclose(s, j) and qclose(s, j) <= len(s)), 'in_range')
    induct(m, strong=True)
    generalize(j)
    measure(m, len(s) - j)


@lemma
def substr_suffix(s: Str, c: Int, a: Int, b: Int):
    # a slice of a suffix is a slice of the whole text
    props('C18')
    requires(0 <= c and c <= len(s) and 0 <= a and a <= b and b <= len(s) - c)
    ensures(s[c:][a:b] == s[c + a:c + b], 'slice_of_suffix')


@lemma
def char_suffix(s: Str, c: Int, k: Int):
    props('C18')
    requires(0 <= c and 0 <= k and c + k < len(s))
    ensures(s[c:][k] == s[c + k] and len(s[c:]) == len(s) - c, 'character_of_suffix')


@lemma
def contains_char(s: Str, a: Int, b: Int, k: Int):
    # a character inside a slice is contained in the slice
    props('C18')
    requires(0 <= a and a <= k and k < b and b <= len(s))
    ensures(s[k] in s[a:b], 'contained')
    hint(s[a:b] == s[a:k] + s[k] + s[k + 1:b])
