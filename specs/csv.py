from __future__ import annotations
from pyvc.lang import spec, lemma

# CSV dialect, character level (C10, C11, C12).  Written from the property statements:
# "a field is quoted iff, after optional surrounding spaces (when the delimiter is not a space), it is enclosed in
#  double quotes with inner quotes doubled and is followed by the delimiter or the end of the line; every other
#  field extends to the next delimiter".  qclose is the scanner formulation of "enclosed with inner quotes doubled".


@spec
def skip_sp(s: Str, i: Int) -> Int:
    # first index >= i that does not hold a space (len(s) if none)
    if i < 0 or i >= len(s):
        return len(s)
    if s[i] != ' ':
        return i
    return skip_sp(s, i + 1)


@spec
def qclose(s: Str, j: Int) -> Int:
    # s[j-1] is an opening quote: index just past the closing quote of the quoted string whose interior starts at j
    # (inner quotes doubled), or -1 if it is never closed
    if j < 0 or j >= len(s):
        return -1
    if s[j] != '"':
        return qclose(s, j + 1)
    if j + 1 < len(s) and s[j + 1] == '"':
        return qclose(s, j + 2)
    return j + 1


@spec
def unesc(s: Str) -> Str:
    return str_replace(s, '""', '"')


@spec
def q_open(s: Str, cidx: Int, allow_ws: Bool) -> Int:
    # position of the opening quote candidate
    if allow_ws:
        return skip_sp(s, cidx)
    return cidx


@spec
def q_end(s: Str, cidx: Int, allow_ws: Bool) -> Int:
    # end (exclusive) of the quoted field text incl. surrounding spaces, or -1 when the field at cidx is not
    # of the quoted form at all
    if q_open(s, cidx, allow_ws) >= len(s) or s[q_open(s, cidx, allow_ws)] != '"':
        return -1
    if qclose(s, q_open(s, cidx, allow_ws) + 1) == -1:
        return -1
    if allow_ws:
        return skip_sp(s, qclose(s, q_open(s, cidx, allow_ws) + 1))
    return qclose(s, q_open(s, cidx, allow_ws) + 1)


@spec
def is_quoted_field(s: Str, d: Str, cidx: Int, allow_ws: Bool) -> Bool:
    # the field starting at cidx is quoted: quoted form, followed by the delimiter or the end of the line
    return q_end(s, cidx, allow_ws) != -1 and (q_end(s, cidx, allow_ws) == len(s) or s[q_end(s, cidx, allow_ws)] == d)


@spec
def next_dlm(s: Str, d: Str, cidx: Int) -> Int:
    if s.find(d, cidx) == -1:
        return len(s)
    return s.find(d, cidx)


@spec
def field_stop(s: Str, d: Str, cidx: Int, allow_ws: Bool) -> Int:
    # index of the delimiter that ends the field starting at cidx (len(s) for the last field)
    if is_quoted_field(s, d, cidx, allow_ws):
        return q_end(s, cidx, allow_ws)
    return next_dlm(s, d, cidx)


@spec
def field_text(s: Str, d: Str, cidx: Int, allow_ws: Bool, preserve: Bool) -> Str:
    if is_quoted_field(s, d, cidx, allow_ws) and not preserve:
        return unesc(s[q_open(s, cidx, allow_ws) + 1:qclose(s, q_open(s, cidx, allow_ws) + 1) - 1])
    return s[cidx:field_stop(s, d, cidx, allow_ws)]


@spec
def field_warn(s: Str, d: Str, cidx: Int, allow_ws: Bool) -> Bool:
    # a field taken as unquoted contains a double quote
    return (not is_quoted_field(s, d, cidx, allow_ws)) and ('"' in s[cidx:next_dlm(s, d, cidx)])


@lemma
def skip_sp_props(s: Str, i: Int, m: Int):
    # skip_sp(s, i) is the end of the maximal run of spaces starting at i
    props('C11', 'C10')
    requires(m >= 0 and m == len(s) - i and 0 <= i)
    ensures(i <= skip_sp(s, i) and skip_sp(s, i) <= len(s), 'range')
    ensures(forall(Int, lambda k: implies(i <= k and k < skip_sp(s, i), s[k] == ' ')), 'only_spaces_skipped')
    ensures(skip_sp(s, i) == len(s) or s[skip_sp(s, i)] != ' ', 'stops_at_non_space')
    induct(m)
    generalize(i)
    measure(m, len(s) - i)


@spec
def split_from(s: Str, d: Str, allow_ws: Bool, preserve: Bool, cidx: Int) -> Seq[Str]:
    # the fields of s from position cidx on (the dialect applied field by field, left to right)
    if cidx < 0 or cidx >= len(s):
        return []
    return [field_text(s, d, cidx, allow_ws, preserve)] + split_from(s, d, allow_ws, preserve, field_stop(s, d, cidx, allow_ws) + 1)


@spec
def warn_from(s: Str, d: Str, allow_ws: Bool, cidx: Int) -> Bool:
    # some field at or after cidx is taken as unquoted and contains a double quote
    if cidx < 0 or cidx >= len(s):
        return False
    return field_warn(s, d, cidx, allow_ws) or warn_from(s, d, allow_ws, field_stop(s, d, cidx, allow_ws) + 1)


@spec
def split_spec(s: Str, d: Str, preserve: Bool) -> Seq[Str]:
    # quoted policy: all fields; a line ending in the delimiter has a final empty field
    if len(s) > 0 and s[-1] == d:
        return split_from(s, d, d != ' ', preserve, 0) + ['']
    return split_from(s, d, d != ' ', preserve, 0)
