from __future__ import annotations
from pyvc.lang import namedtuple_types

# named tuple types of the code base (field names and static types), loaded before the other spec files


class _T(object):
    def __getitem__(self, k):
        return self


Opt = Str = Int = Bool = _T()
namedtuple_types('rbql_engine.QueryColumnInfo', table_name=Opt[Str], column_index=Opt[Int], column_name=Opt[Str], is_star=Bool, alias_name=Opt[Str])
namedtuple_types('rbql_engine.VariableInfo', initialize=Bool, index=Int)
