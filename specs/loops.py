from __future__ import annotations
from pyvc.lang import spec

# Oracles for user expressions (DESIGN 2.6).  H_X is the value, H_X_fail the exception kind (0 = none,
# 1 InternalBadKeyError, 2 InternalBadFieldError, 3 RbqlParsingError, 4 any other Exception), H_X_msg str(e).
# They are uninterpreted: an obligation proved with them holds for every user expression (A-ORACLE).


@spec(opaque=True)
def H_WHERE(r: RecV, nr: Int) -> Cell:
    raise NotImplementedError


@spec(opaque=True)
def H_WHERE_fail(r: RecV, nr: Int) -> Int:
    raise NotImplementedError


@spec(opaque=True)
def H_WHERE_msg(r: RecV, nr: Int) -> Str:
    raise NotImplementedError


@spec(opaque=True)
def H_ELTS(r: RecV, nr: Int) -> Seq[Cell]:
    raise NotImplementedError


@spec(opaque=True)
def H_ELTS_fail(r: RecV, nr: Int) -> Int:
    raise NotImplementedError


@spec(opaque=True)
def H_ELTS_msg(r: RecV, nr: Int) -> Str:
    raise NotImplementedError


@spec(opaque=True)
def H_SORTKEY(r: RecV, nr: Int) -> Key:
    raise NotImplementedError


@spec(opaque=True)
def H_SORTKEY_fail(r: RecV, nr: Int) -> Int:
    raise NotImplementedError


@spec(opaque=True)
def H_SORTKEY_msg(r: RecV, nr: Int) -> Str:
    raise NotImplementedError


@spec(opaque=True)
def truthy_cell(c: Cell) -> Bool:
    raise NotImplementedError


# ---------------------------------------------------------------- C01 reference: SELECT e1..ek WHERE p
@spec
def where_ok(r: RecV, nr: Int) -> Bool:
    return H_WHERE_fail(r, nr) == 0


@spec
def rec_fail(r: RecV, nr: Int, has_where: Bool, has_sort: Bool) -> Bool:
    # evaluating the query's expressions on record nr raises (WHERE first, then the select list, then the sort key)
    if has_where and H_WHERE_fail(r, nr) != 0:
        return True
    if has_where and not truthy(H_WHERE(r, nr)):
        return False
    if H_ELTS_fail(r, nr) != 0:
        return True
    return has_sort and H_SORTKEY_fail(r, nr) != 0


@spec
def sel_out(rows: Seq[RecV], n: Int, has_where: Bool) -> Seq[RecV]:
    # the records offered to the writer for input records 1..n: one projected record per record passing WHERE
    if n <= 0:
        return []
    if has_where and not truthy(H_WHERE(rows[n - 1], n)):
        return sel_out(rows, n - 1, has_where)
    return sel_out(rows, n - 1, has_where) + [H_ELTS(rows[n - 1], n)]
