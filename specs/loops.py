from __future__ import annotations
from pyvc.lang import spec

# Oracles for user expressions (DESIGN 2.6).  H_X is the value, H_X_fail the exception kind (0 = none,
# 1 InternalBadKeyError, 2 InternalBadFieldError, 3 RbqlParsingError, 4 any other Exception), H_X_msg str(e).
# They are uninterpreted: an obligation proved with them holds for every user expression (A-ORACLE).


@spec(opaque=True)
def H_WHERE(r: RecV, nr: Int) -> Cell:
    raise NotImplementedError


@spec(opaque=True)
def H_WHERE_fail(r: RecV, nr: Int) -> Int:
    raise NotImplementedError


@spec(opaque=True)
def H_WHERE_msg(r: RecV, nr: Int) -> Str:
    raise NotImplementedError


@spec(opaque=True)
def H_ELTS(r: RecV, nr: Int) -> Seq[Cell]:
    raise NotImplementedError


@spec(opaque=True)
def H_ELTS_fail(r: RecV, nr: Int) -> Int:
    raise NotImplementedError


@spec(opaque=True)
def H_ELTS_msg(r: RecV, nr: Int) -> Str:
    raise NotImplementedError


@spec(opaque=True)
def H_SORTKEY(r: RecV, nr: Int) -> Key:
    raise NotImplementedError


@spec(opaque=True)
def H_SORTKEY_fail(r: RecV, nr: Int) -> Int:
    raise NotImplementedError


@spec(opaque=True)
def H_SORTKEY_msg(r: RecV, nr: Int) -> Str:
    raise NotImplementedError


@spec(opaque=True)
def truthy_cell(c: Cell) -> Bool:
    raise NotImplementedError


# ---------------------------------------------------------------- C01 reference: SELECT e1..ek WHERE p
@spec
def where_ok(r: RecV, nr: Int) -> Bool:
    return H_WHERE_fail(r, nr) == 0


@spec
def row_of(r: RecV, nr: Int, variant: Int) -> RecV:
    # select list shapes: 0 arbitrary expression list; 1  e1, *, e2  (star expands in place to the record's fields);
    # 2  * EXCEPT a1, a3  (the record without fields 0 and 2)
    if variant == 1:
        return [H_E1(r, nr)] + r + [H_E2(r, nr)]
    if variant == 2:
        return except_spec(r, [0, 2], len(r))
    return H_ELTS(r, nr)


@spec
def row_fail(r: RecV, nr: Int, variant: Int) -> Bool:
    if variant == 1:
        return H_E1_fail(r, nr) != 0 or H_E2_fail(r, nr) != 0
    if variant == 2:
        return False
    return H_ELTS_fail(r, nr) != 0


@spec
def rec_fail(r: RecV, nr: Int, has_where: Bool, has_sort: Bool, variant: Int) -> Bool:
    # evaluating the query's expressions on record nr raises (WHERE first, then the select list, then the sort key)
    if has_where and H_WHERE_fail(r, nr) != 0:
        return True
    if has_where and not truthy(H_WHERE(r, nr)):
        return False
    if row_fail(r, nr, variant):
        return True
    return has_sort and H_SORTKEY_fail(r, nr) != 0


@spec
def sel_out(rows: Seq[RecV], n: Int, has_where: Bool, variant: Int) -> Seq[RecV]:
    # the records offered to the writer for input records 1..n: one projected record per record passing WHERE
    if n <= 0:
        return []
    if has_where and not truthy(H_WHERE(rows[n - 1], n)):
        return sel_out(rows, n - 1, has_where, variant)
    return sel_out(rows, n - 1, has_where, variant) + [row_of(rows[n - 1], n, variant)]


# ---------------------------------------------------------------- UNNEST
@spec
def is_unnest_marker(c: Cell) -> Bool:
    return typeof(c, 'rbql_engine.compile_and_run.UNNEST')


@spec
def first_marker(fs: Seq[Cell], k: Int) -> Int:
    # index of the first UNNEST marker at or after position k, or -1
    if k < 0 or k >= len(fs):
        return -1
    if is_unnest_marker(fs[k]):
        return k
    return first_marker(fs, k + 1)


@spec
def unnest_rows(pre: Seq[Cell], post: Seq[Cell], vals: Seq[Cell], n: Int) -> Seq[RecV]:
    # one output record per list element (none for an empty list): pre + [element] + post
    if n <= 0:
        return []
    return unnest_rows(pre, post, vals, n - 1) + [pre + [vals[n - 1]] + post]


# oracles of the UNNEST variant: [E1, UNNEST(LIST), E2]
@spec(opaque=True)
def H_E1(r: RecV, nr: Int) -> Cell:
    raise NotImplementedError


@spec(opaque=True)
def H_E1_fail(r: RecV, nr: Int) -> Int:
    raise NotImplementedError


@spec(opaque=True)
def H_E2(r: RecV, nr: Int) -> Cell:
    raise NotImplementedError


@spec(opaque=True)
def H_E2_fail(r: RecV, nr: Int) -> Int:
    raise NotImplementedError


@spec(opaque=True)
def H_UNNEST_LIST(r: RecV, nr: Int) -> Seq[Cell]:
    raise NotImplementedError


@spec(opaque=True)
def H_UNNEST_LIST_fail(r: RecV, nr: Int) -> Int:
    raise NotImplementedError


@spec
def urec_fail(r: RecV, nr: Int, has_sort: Bool) -> Bool:
    if H_WHERE_fail(r, nr) != 0:
        return True
    if not truthy(H_WHERE(r, nr)):
        return False
    if H_E1_fail(r, nr) != 0 or H_UNNEST_LIST_fail(r, nr) != 0 or H_E2_fail(r, nr) != 0:
        return True
    return has_sort and H_SORTKEY_fail(r, nr) != 0


@spec
def usel_out(rows: Seq[RecV], n: Int) -> Seq[RecV]:
    # SELECT e1, UNNEST(list), e2 WHERE p: per matching record one output record per list element
    if n <= 0:
        return []
    if not truthy(H_WHERE(rows[n - 1], n)):
        return usel_out(rows, n - 1)
    return usel_out(rows, n - 1) + unnest_rows([H_E1(rows[n - 1], n)], [H_E2(rows[n - 1], n)], H_UNNEST_LIST(rows[n - 1], n), len(H_UNNEST_LIST(rows[n - 1], n)))


# ---------------------------------------------------------------- JOIN variants (C04): oracles see the paired record
@spec(opaque=True)
def H_JWHERE(r: RecV, nr: Int, b: RecV, bnr: Int) -> Cell:
    raise NotImplementedError


@spec(opaque=True)
def H_JWHERE_fail(r: RecV, nr: Int, b: RecV, bnr: Int) -> Int:
    raise NotImplementedError


@spec(opaque=True)
def H_JELTS(r: RecV, nr: Int, b: RecV, bnr: Int) -> Seq[Cell]:
    raise NotImplementedError


@spec(opaque=True)
def H_JELTS_fail(r: RecV, nr: Int, b: RecV, bnr: Int) -> Int:
    raise NotImplementedError


@spec(opaque=True)
def H_JSORTKEY(r: RecV, nr: Int, b: RecV, bnr: Int) -> Key:
    raise NotImplementedError


@spec(opaque=True)
def H_JSORTKEY_fail(r: RecV, nr: Int, b: RecV, bnr: Int) -> Int:
    raise NotImplementedError


@spec
def bnr_of(o: Opt[Int]) -> Int:
    if is_none(o):
        return -1
    return opt_val(o)


@spec
def jmatch_fail(r: RecV, nr: Int, b: RecV, bnr: Int) -> Bool:
    if H_JWHERE_fail(r, nr, b, bnr) != 0:
        return True
    if not truthy(H_JWHERE(r, nr, b, bnr)):
        return False
    return H_JELTS_fail(r, nr, b, bnr) != 0 or H_JSORTKEY_fail(r, nr, b, bnr) != 0


@spec
def jrows(r: RecV, nr: Int, ms: Seq[Tuple[Opt[Int], Int, RecV]], k: Int) -> Seq[RecV]:
    # output records for the first k pairings of record r: WHERE and SELECT see the paired record
    if k <= 0:
        return []
    if not truthy(H_JWHERE(r, nr, ms[k - 1][2], bnr_of(ms[k - 1][0]))):
        return jrows(r, nr, ms, k - 1)
    return jrows(r, nr, ms, k - 1) + [H_JELTS(r, nr, ms[k - 1][2], bnr_of(ms[k - 1][0]))]


@spec
def jfirst_fail(r: RecV, nr: Int, ms: Seq[Tuple[Opt[Int], Int, RecV]], k: Int) -> Int:
    # first pairing at or after k on which an expression raises, or -1
    if k < 0 or k >= len(ms):
        return -1
    if jmatch_fail(r, nr, ms[k][2], bnr_of(ms[k][0])):
        return k
    return jfirst_fail(r, nr, ms, k + 1)


@spec
def jpairs_of(r: RecV, kind: Int, jm: Map[JKey, Seq[Tuple[Opt[Int], Int, RecV]]], nullw: Int) -> Seq[Tuple[Opt[Int], Int, RecV]]:
    # the B records paired with A record r under the key expression of this variant: a1 == b<key>
    return join_pairs_for(kind, jm, nullw, k1(r[0]))


@spec
def jrec_fail(r: RecV, nr: Int, kind: Int, jm: Map[JKey, Seq[Tuple[Opt[Int], Int, RecV]]], nullw: Int) -> Bool:
    if len(r) < 1:
        return True
    if kind == 2 and len(jm[k1(r[0])]) != 1:
        return True
    return jfirst_fail(r, nr, jpairs_of(r, kind, jm, nullw), 0) >= 0


@spec
def jsel_out(rows: Seq[RecV], n: Int, kind: Int, jm: Map[JKey, Seq[Tuple[Opt[Int], Int, RecV]]], nullw: Int) -> Seq[RecV]:
    # C04: each A record, in order, paired with every key-equal B record in B order (as if A had been expanded)
    if n <= 0:
        return []
    return jsel_out(rows, n - 1, kind, jm, nullw) + jrows(rows[n - 1], n, jpairs_of(rows[n - 1], kind, jm, nullw), len(jpairs_of(rows[n - 1], kind, jm, nullw)))


# ---------------------------------------------------------------- UPDATE (C05)
@spec(opaque=True)
def H_RHS1(r: RecV, nr: Int, nu: Int) -> Cell:
    raise NotImplementedError


@spec(opaque=True)
def H_RHS1_fail(r: RecV, nr: Int, nu: Int) -> Int:
    raise NotImplementedError


@spec(opaque=True)
def H_RHS2(r: RecV, nr: Int, nu: Int) -> Cell:
    raise NotImplementedError


@spec(opaque=True)
def H_RHS2_fail(r: RecV, nr: Int, nu: Int) -> Int:
    raise NotImplementedError


@spec(opaque=True)
def H_RHS3(r: RecV, nr: Int, nu: Int) -> Cell:
    raise NotImplementedError


@spec(opaque=True)
def H_RHS3_fail(r: RecV, nr: Int, nu: Int) -> Int:
    raise NotImplementedError


@spec
def set_at(r: Seq[Cell], i: Int, v: Cell) -> Seq[Cell]:
    return r[:i] + [v] + r[i + 1:]


@spec
def nu_upto(rows: Seq[RecV], n: Int, has_where: Bool) -> Int:
    # NU: number of records updated among the first n
    if n <= 0:
        return 0
    if has_where and not truthy(H_WHERE(rows[n - 1], n)):
        return nu_upto(rows, n - 1, has_where)
    return nu_upto(rows, n - 1, has_where) + 1


@spec
def upd_row(r: RecV, nr: Int, nu: Int, has_where: Bool) -> RecV:
    # UPDATE a1 = e1, a3 = e2: records failing WHERE unchanged; otherwise exactly the assigned fields change,
    # every right-hand side evaluated against the original record (NU already counts this record)
    if has_where and not truthy(H_WHERE(r, nr)):
        return r
    return set_at(set_at(r, 0, H_RHS1(r, nr, nu + 1)), 2, H_RHS2(r, nr, nu + 1))


@spec
def upd_fail(r: RecV, nr: Int, nu: Int, has_where: Bool) -> Bool:
    if has_where and H_WHERE_fail(r, nr) != 0:
        return True
    if has_where and not truthy(H_WHERE(r, nr)):
        return False
    if H_RHS1_fail(r, nr, nu + 1) != 0 or len(r) < 1:
        return True
    return H_RHS2_fail(r, nr, nu + 1) != 0 or len(r) < 3


@spec
def upd_out(rows: Seq[RecV], n: Int, has_where: Bool) -> Seq[RecV]:
    # exactly one output record per input record, in order
    if n <= 0:
        return []
    return upd_out(rows, n - 1, has_where) + [upd_row(rows[n - 1], n, nu_upto(rows, n - 1, has_where), has_where)]


# ---------------------------------------------------------------- UPDATE ... JOIN (C04/C05)
@spec(opaque=True)
def H_JRHS1(r: RecV, nr: Int, b: RecV, bnr: Int, nu: Int) -> Cell:
    raise NotImplementedError


@spec(opaque=True)
def H_JRHS1_fail(r: RecV, nr: Int, b: RecV, bnr: Int, nu: Int) -> Int:
    raise NotImplementedError


@spec(opaque=True)
def H_JWHERE_B(r: RecV, nr: Int, b: RecV, bnr: Int) -> Cell:
    raise NotImplementedError


@spec(opaque=True)
def H_JWHERE_B_fail(r: RecV, nr: Int, b: RecV, bnr: Int) -> Int:
    raise NotImplementedError


@spec
def ujw_true(r: RecV, nr: Int, b: RecV, bnr: Int) -> Bool:
    # the WHERE text of this variant is `X or Y` (lowest-precedence operator): it must be embedded as a unit
    return truthy(H_JWHERE(r, nr, b, bnr)) or truthy(H_JWHERE_B(r, nr, b, bnr))


@spec
def ujw_fail(r: RecV, nr: Int, b: RecV, bnr: Int) -> Bool:
    if H_JWHERE_fail(r, nr, b, bnr) != 0:
        return True
    return (not truthy(H_JWHERE(r, nr, b, bnr))) and H_JWHERE_B_fail(r, nr, b, bnr) != 0


@spec
def uj_updates(r: RecV, nr: Int, ms: Seq[Tuple[Opt[Int], Int, RecV]]) -> Bool:
    # the record is updated iff it has exactly one partner and WHERE (seeing the pair) is truthy
    return len(ms) == 1 and ujw_true(r, nr, ms[0][2], bnr_of(ms[0][0]))


@spec
def uj_nu(rows: Seq[RecV], n: Int, kind: Int, jm: Map[JKey, Seq[Tuple[Opt[Int], Int, RecV]]], nullw: Int) -> Int:
    if n <= 0:
        return 0
    if uj_updates(rows[n - 1], n, jpairs_of(rows[n - 1], kind, jm, nullw)):
        return uj_nu(rows, n - 1, kind, jm, nullw) + 1
    return uj_nu(rows, n - 1, kind, jm, nullw)


@spec
def uj_row(r: RecV, nr: Int, ms: Seq[Tuple[Opt[Int], Int, RecV]], nu: Int) -> RecV:
    # UPDATE a2 = e JOIN ...: no partner -> unchanged; one partner and WHERE -> a2 assigned; >1 partners is an error
    if not uj_updates(r, nr, ms):
        return r
    return set_at(r, 1, H_JRHS1(r, nr, ms[0][2], bnr_of(ms[0][0]), nu + 1))


@spec
def uj_fail(r: RecV, nr: Int, kind: Int, jm: Map[JKey, Seq[Tuple[Opt[Int], Int, RecV]]], nullw: Int, nu: Int) -> Bool:
    if len(r) < 1:
        return True
    if kind == 2 and len(jm[k1(r[0])]) != 1:
        return True
    if len(jpairs_of(r, kind, jm, nullw)) > 1:
        return True
    if len(jpairs_of(r, kind, jm, nullw)) != 1:
        return False
    if ujw_fail(r, nr, jpairs_of(r, kind, jm, nullw)[0][2], bnr_of(jpairs_of(r, kind, jm, nullw)[0][0])):
        return True
    if not ujw_true(r, nr, jpairs_of(r, kind, jm, nullw)[0][2], bnr_of(jpairs_of(r, kind, jm, nullw)[0][0])):
        return False
    return H_JRHS1_fail(r, nr, jpairs_of(r, kind, jm, nullw)[0][2], bnr_of(jpairs_of(r, kind, jm, nullw)[0][0]), nu + 1) != 0 or len(r) < 2


@spec
def uj_out(rows: Seq[RecV], n: Int, kind: Int, jm: Map[JKey, Seq[Tuple[Opt[Int], Int, RecV]]], nullw: Int) -> Seq[RecV]:
    if n <= 0:
        return []
    return uj_out(rows, n - 1, kind, jm, nullw) + [uj_row(rows[n - 1], n, jpairs_of(rows[n - 1], kind, jm, nullw), uj_nu(rows, n - 1, kind, jm, nullw))]


@spec
def count_tokens(vs: Seq[Cell], n: Int) -> Int:
    # number of aggregate-call tokens among the first n select-list values
    if n <= 0:
        return 0
    if typeof(vs[n - 1], 'rbql_engine.RBQLAggregationToken'):
        return count_tokens(vs, n - 1) + 1
    return count_tokens(vs, n - 1)
