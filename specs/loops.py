from __future__ import annotations
from pyvc.lang import spec

# Oracles for user expressions (DESIGN 2.6).  H_X is the value, H_X_fail the exception kind (0 = none,
# 1 InternalBadKeyError, 2 InternalBadFieldError, 3 RbqlParsingError, 4 any other Exception), H_X_msg str(e).
# They are uninterpreted: an obligation proved with them holds for every user expression (A-ORACLE).


@spec(opaque=True)
def H_WHERE(r: RecV, nr: Int) -> Cell:
    raise NotImplementedError


@spec(opaque=True)
def H_WHERE_fail(r: RecV, nr: Int) -> Int:
    raise NotImplementedError


@spec(opaque=True)
def H_WHERE_msg(r: RecV, nr: Int) -> Str:
    raise NotImplementedError


@spec(opaque=True)
def H_ELTS(r: RecV, nr: Int) -> Seq[Cell]:
    raise NotImplementedError


@spec(opaque=True)
def H_ELTS_fail(r: RecV, nr: Int) -> Int:
    raise NotImplementedError


@spec(opaque=True)
def H_ELTS_msg(r: RecV, nr: Int) -> Str:
    raise NotImplementedError


@spec(opaque=True)
def H_SORTKEY(r: RecV, nr: Int) -> Key:
    raise NotImplementedError


@spec(opaque=True)
def H_SORTKEY_fail(r: RecV, nr: Int) -> Int:
    raise NotImplementedError


@spec(opaque=True)
def H_SORTKEY_msg(r: RecV, nr: Int) -> Str:
    raise NotImplementedError


@spec(opaque=True)
def truthy_cell(c: Cell) -> Bool:
    raise NotImplementedError


# ---------------------------------------------------------------- C01 reference: SELECT e1..ek WHERE p
@spec
def where_ok(r: RecV, nr: Int) -> Bool:
    return H_WHERE_fail(r, nr) == 0


@spec
def rec_fail(r: RecV, nr: Int, has_where: Bool, has_sort: Bool) -> Bool:
    # evaluating the query's expressions on record nr raises (WHERE first, then the select list, then the sort key)
    if has_where and H_WHERE_fail(r, nr) != 0:
        return True
    if has_where and not truthy(H_WHERE(r, nr)):
        return False
    if H_ELTS_fail(r, nr) != 0:
        return True
    return has_sort and H_SORTKEY_fail(r, nr) != 0


@spec
def sel_out(rows: Seq[RecV], n: Int, has_where: Bool) -> Seq[RecV]:
    # the records offered to the writer for input records 1..n: one projected record per record passing WHERE
    if n <= 0:
        return []
    if has_where and not truthy(H_WHERE(rows[n - 1], n)):
        return sel_out(rows, n - 1, has_where)
    return sel_out(rows, n - 1, has_where) + [H_ELTS(rows[n - 1], n)]


# ---------------------------------------------------------------- UNNEST
@spec
def is_unnest_marker(c: Cell) -> Bool:
    return typeof(c, 'rbql_engine.compile_and_run.UNNEST')


@spec
def first_marker(fs: Seq[Cell], k: Int) -> Int:
    # index of the first UNNEST marker at or after position k, or -1
    if k < 0 or k >= len(fs):
        return -1
    if is_unnest_marker(fs[k]):
        return k
    return first_marker(fs, k + 1)


@spec
def unnest_rows(pre: Seq[Cell], post: Seq[Cell], vals: Seq[Cell], n: Int) -> Seq[RecV]:
    # one output record per list element (none for an empty list): pre + [element] + post
    if n <= 0:
        return []
    return unnest_rows(pre, post, vals, n - 1) + [pre + [vals[n - 1]] + post]


# oracles of the UNNEST variant: [E1, UNNEST(LIST), E2]
@spec(opaque=True)
def H_E1(r: RecV, nr: Int) -> Cell:
    raise NotImplementedError


@spec(opaque=True)
def H_E1_fail(r: RecV, nr: Int) -> Int:
    raise NotImplementedError


@spec(opaque=True)
def H_E2(r: RecV, nr: Int) -> Cell:
    raise NotImplementedError


@spec(opaque=True)
def H_E2_fail(r: RecV, nr: Int) -> Int:
    raise NotImplementedError


@spec(opaque=True)
def H_UNNEST_LIST(r: RecV, nr: Int) -> Seq[Cell]:
    raise NotImplementedError


@spec(opaque=True)
def H_UNNEST_LIST_fail(r: RecV, nr: Int) -> Int:
    raise NotImplementedError


@spec
def urec_fail(r: RecV, nr: Int, has_sort: Bool) -> Bool:
    if H_WHERE_fail(r, nr) != 0:
        return True
    if not truthy(H_WHERE(r, nr)):
        return False
    if H_E1_fail(r, nr) != 0 or H_UNNEST_LIST_fail(r, nr) != 0 or H_E2_fail(r, nr) != 0:
        return True
    return has_sort and H_SORTKEY_fail(r, nr) != 0


@spec
def usel_out(rows: Seq[RecV], n: Int) -> Seq[RecV]:
    # SELECT e1, UNNEST(list), e2 WHERE p: per matching record one output record per list element
    if n <= 0:
        return []
    if not truthy(H_WHERE(rows[n - 1], n)):
        return usel_out(rows, n - 1)
    return usel_out(rows, n - 1) + unnest_rows([H_E1(rows[n - 1], n)], [H_E2(rows[n - 1], n)], H_UNNEST_LIST(rows[n - 1], n), len(H_UNNEST_LIST(rows[n - 1], n)))
