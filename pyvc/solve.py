"""Back ends: z3 5.1 (Python API, Solver.from_string), cvc5 1.0.3 CLI, z3 4.8.12 CLI.
Every back end receives the same SMT-LIB text (DESIGN Appendix D)."""
import os
import subprocess
import sys
import tempfile
import time
import hashlib

CVC5 = '/usr/bin/cvc5'
Z3OLD = '/usr/bin/z3'


def has_strings(text):
    return 'String' in text or 'str.' in text


def run_z3api(text, timeout_s, want_model=False):
    import z3
    t0 = time.time()
    try:
        ctx = z3.Context()
        s = z3.Solver(ctx=ctx)
        s.set('timeout', int(timeout_s * 1000))
        # strip (check-sat)/(get-value) lines: from_string only takes assertions
        body = []
        for ln in text.split('\n'):
            if ln.startswith('(check-sat') or ln.startswith('(get-value') or ln.startswith('(set-option') or ln.startswith('(set-logic'):
                continue
            body.append(ln)
        s.from_string('\n'.join(body))
        r = s.check()
        res = str(r)
        model = None
        if res == 'sat' and want_model:
            try:
                model = s.model().sexpr()
            except Exception as e:  # pragma: no cover
                model = 'model error: %r' % (e,)
        reason = s.reason_unknown() if res == 'unknown' else ''
        return res, time.time() - t0, model, reason
    except Exception as e:
        return 'error', time.time() - t0, None, 'z3api: %s' % (str(e)[:500],)


def run_cli(cmd, text, timeout_s):
    t0 = time.time()
    fd, path = tempfile.mkstemp(suffix='.smt2', dir=os.environ.get('PYVC_TMP', None))
    try:
        with os.fdopen(fd, 'w') as f:
            f.write(text)
        try:
            p = subprocess.run(cmd + [path], stdout=subprocess.PIPE, stderr=subprocess.PIPE, timeout=timeout_s + 5, universal_newlines=True)
        except subprocess.TimeoutExpired:
            return 'unknown', time.time() - t0, None, 'timeout'
        out = p.stdout.strip()
        first = out.split('\n', 1)[0].strip() if out else ''
        if first in ('sat', 'unsat', 'unknown'):
            rest = out.split('\n', 1)[1] if '\n' in out else None
            return first, time.time() - t0, rest, (p.stderr.strip()[:300] if first == 'unknown' else '')
        if 'timeout' in out or 'timeout' in p.stderr or 'interrupted' in p.stderr:
            return 'unknown', time.time() - t0, None, 'timeout'
        return 'error', time.time() - t0, None, (out + ' ' + p.stderr)[:600]
    finally:
        try:
            os.unlink(path)
        except OSError:
            pass


def run_cvc5(text, timeout_s, want_model=False, extra=()):
    cmd = [CVC5, '--strings-exp', '--tlimit=%d' % int(timeout_s * 1000), '--lang=smt2']
    if want_model:
        cmd.append('--produce-models')
    cmd += list(extra)
    return run_cli(cmd, text, timeout_s)


Z3NEW = '/usr/local/bin/z3-new'


def run_z3new(text, timeout_s, want_model=False):
    import shutil
    exe = Z3NEW if os.path.exists(Z3NEW) else (shutil.which('z3-new') or Z3OLD)
    return run_cli([exe, '-T:%d' % max(1, int(timeout_s)), '-smt2'], text, timeout_s)


def run_z3old(text, timeout_s, want_model=False):
    cmd = [Z3OLD, '-T:%d' % int(timeout_s), '-smt2']
    if want_model:
        cmd.append('-model') if False else None
    return run_cli([c for c in cmd if c], text, timeout_s)


def _cmd(be, timeout_s, want_model):
    import shutil
    if be == 'cvc5':
        c = [CVC5, '--strings-exp', '--tlimit=%d' % int(timeout_s * 1000), '--lang=smt2']
        if want_model:
            c.append('--produce-models')
        return c
    if be == 'z3':
        exe = Z3NEW if os.path.exists(Z3NEW) else (shutil.which('z3-new') or Z3OLD)
        return [exe, '-T:%d' % max(1, int(timeout_s)), '-smt2']
    return [Z3OLD, '-T:%d' % max(1, int(timeout_s)), '-smt2']


def solve(text, timeout_s=10, thorough=False, want_model=False):
    """Portfolio, back ends run concurrently on the same SMT-LIB text; the first definitive answer wins
    (quick tier) or all are awaited and compared (thorough).  Returns dict(result, backend, secs, attempts, model)."""
    backends = ['z3', 'cvc5'] + (['z3old'] if thorough else [])
    fd, path = tempfile.mkstemp(suffix='.smt2', dir=os.environ.get('PYVC_TMP', None))
    t0 = time.time()
    procs = {}
    attempts = []
    final = None
    try:
        with os.fdopen(fd, 'w') as f:
            f.write(text)
        for be in backends:
            procs[be] = subprocess.Popen(_cmd(be, timeout_s, want_model) + [path], stdout=subprocess.PIPE, stderr=subprocess.PIPE, universal_newlines=True)
        pending = dict(procs)
        deadline = t0 + timeout_s + 5
        while pending and time.time() < deadline:
            for be, p in list(pending.items()):
                rc = p.poll()
                if rc is None:
                    continue
                out, err = p.communicate()
                del pending[be]
                out = (out or '').strip()
                first = out.split('\n', 1)[0].strip() if out else ''
                secs = time.time() - t0
                if first in ('sat', 'unsat'):
                    attempts.append({'backend': be, 'result': first, 'secs': round(secs, 3), 'reason': ''})
                    rest = out.split('\n', 1)[1] if '\n' in out else None
                    if final is None:
                        final = {'result': first, 'backend': be, 'secs': secs, 'model': rest}
                    elif final['result'] != first:
                        final = {'result': 'conflict', 'backend': be, 'secs': secs, 'model': None}
                elif first == 'unknown' or 'timeout' in out or 'timeout' in (err or '') or 'interrupted' in (err or ''):
                    attempts.append({'backend': be, 'result': 'unknown', 'secs': round(secs, 3), 'reason': ('timeout' if first != 'unknown' else (err or '').strip()[:200])})
                else:
                    attempts.append({'backend': be, 'result': 'error', 'secs': round(secs, 3), 'reason': (out + ' ' + (err or ''))[:400]})
            if final is not None and not thorough:
                break
            if final is not None and thorough and not final.get('_capped'):
                # thorough tier cross-checks the back ends: the others get a bounded extra time to agree or contradict
                final['_capped'] = True
                deadline = min(deadline, time.time() + 10)
            if pending:
                time.sleep(0.005)
        for be, p in pending.items():
            try:
                p.kill()
                p.communicate()
            except Exception:
                pass
            if final is None or thorough:
                attempts.append({'backend': be, 'result': 'unknown', 'secs': round(time.time() - t0, 3), 'reason': 'timeout'})
    finally:
        try:
            os.unlink(path)
        except OSError:
            pass
    if final is None:
        errs = [a for a in attempts if a['result'] == 'error']
        final = {'result': 'error' if (attempts and len(errs) == len(attempts)) else 'unknown', 'backend': None, 'secs': time.time() - t0, 'model': None}
    final.pop('_capped', None)
    final['attempts'] = attempts
    return final


def _task(args):
    key, text, timeout_s, thorough, want_model = args
    try:
        return key, solve(text, timeout_s, thorough, want_model)
    except Exception as e:  # pragma: no cover
        return key, {'result': 'error', 'backend': None, 'secs': 0.0, 'attempts': [{'backend': '?', 'result': 'error', 'secs': 0, 'reason': repr(e)}], 'model': None}


def solve_many(tasks, jobs=None, timeout_s=10, thorough=False, want_model=False):
    """tasks: list of (key, smt_text).  Identical texts are solved once (cache within a run)."""
    from concurrent.futures import ProcessPoolExecutor
    jobs = jobs or int(os.environ.get('PYVC_JOBS', '16'))
    by_hash = {}
    order = []
    for key, text in tasks:
        h = hashlib.sha256(text.encode('utf-8')).hexdigest()
        if h not in by_hash:
            by_hash[h] = (text, [])
            order.append(h)
        by_hash[h][1].append(key)
    results = {}
    work = []
    for h in order:
        keys = by_hash[h][1]
        is_cover = all(isinstance(k, tuple) and len(k) > 1 and k[1] == 'cover' for k in keys)
        work.append((h, by_hash[h][0], 2 if is_cover else timeout_s, False if is_cover else thorough, want_model))
    if len(work) <= 1 or jobs == 1:
        outs = [_task(w) for w in work]
    else:
        with ProcessPoolExecutor(max_workers=min(jobs, len(work))) as ex:
            outs = list(ex.map(_task, work, chunksize=1))
    for h, r in outs:
        for key in by_hash[h][1]:
            results[key] = r
    return results
