"""Python-level static types of symbolic values, their SMT sorts, coercions, and the prelude
(Cell datatype, numeric helpers).  A-PY: this file *is* the stated subset semantics."""
from . import smt
from .smt import (INT, BOOL, STR, REAL, SeqS, ArrS, Term, Var, IntC, BoolC, StrC, RealC, App, And, Or, Not, Ite, Eq,
                  declare_datatype, dt_ctor, dt_test, dt_sel)


class PT(object):
    def __init__(self, kind, *args):
        self.kind = kind
        self.args = args

    def __eq__(self, o):
        return isinstance(o, PT) and self.kind == o.kind and self.args == o.args

    def __ne__(self, o):
        return not self.__eq__(o)

    def __hash__(self):
        return hash((self.kind, self.args))

    def __repr__(self):
        if not self.args:
            return self.kind
        return '%s[%s]' % (self.kind, ', '.join(repr(a) for a in self.args))

    def is_ref(self):
        return self.kind in ('list', 'dict', 'set', 'obj', 'ddict')


TInt = PT('int')
TBool = PT('bool')
TStr = PT('str')
TFloat = PT('float')
TNone = PT('none')
TCell = PT('cell')
TKey = PT('key')        # opaque hashable (aggregation keys)
TExc = PT('exc')


def TList(t):
    return PT('list', t)


def TSeq(t):
    return PT('seq', t)


def TTuple(*ts):
    return PT('tuple', *ts)


def TRecDict(fields):
    """a dict with a fixed set of constant string keys, each optional and of its own value type (e.g. the clause map
    returned by separate_actions): PT('recdict', PT('rdnames:k1\x1fk2..'), V1, V2, ...)"""
    names = [k for k, _ in fields]
    return PT('recdict', PT('rdnames:' + '\x1f'.join(names)), *[v for _, v in fields])


def recdict_names(pt):
    return pt.args[0].kind[len('rdnames:'):].split('\x1f')


def recdict_rep(pt):
    """representation: a tuple (present_1, value_1, present_2, value_2, ...)"""
    parts = []
    for v in pt.args[1:]:
        parts.append(TBool)
        parts.append(v)
    return TTuple(*parts)


def recdict_field(pt, t, key):
    """(presence Bool term, value SV) of a constant key, or None when the key is not one of the declared ones"""
    names = recdict_names(pt)
    if key not in names:
        return None
    i = names.index(key)
    rep = recdict_rep(pt)
    return tuple_get(rep, t, 2 * i), SV(pt.args[1 + i], tuple_get(rep, t, 2 * i + 1))


def TOpt(t):
    if t.kind == 'opt' or t.kind == 'cell' or t.kind == 'none':
        return t
    return PT('opt', t)


def TDict(k, v, default=None):
    return PT('dict', k, v)


def TSet(k):
    return PT('set', k)


def TObj(cls):
    return PT('obj', cls)


def TFunc(name):
    return PT('func', name)


def mangle(s):
    return s.replace('(', '').replace(')', '').replace(' ', '_')


# ---------------------------------------------------------------- prelude
declare_datatype('Cell', [('CNone', []), ('CS', [('sval', STR)]), ('CI', [('ival', INT)]), ('CF', [('fval', REAL)]),
                          ('CB', [('bval', BOOL)]), ('CObj', [('oid', INT)]), ('CL', [('lref', INT)])])
declare_datatype('JKey', [('K1', [('k1', 'Cell')]), ('KN', [('kn', SeqS('Cell'))])])
smt.declare_sort('Key')
TJKey = PT('jkey')
CELL = 'Cell'
REC = SeqS(CELL)        # value of a record


def CNone():
    return dt_ctor(CELL, 'CNone', ())


def CS(s):
    return dt_ctor(CELL, 'CS', (s,))


def CI(i):
    return dt_ctor(CELL, 'CI', (i,))


def CF(r):
    return dt_ctor(CELL, 'CF', (r,))


def CB(b):
    return dt_ctor(CELL, 'CB', (b,))


def CObj(r):
    return dt_ctor(CELL, 'CObj', (r,))


def CL(r):
    return dt_ctor(CELL, 'CL', (r,))


_sort_cache = {}


def sort_of(pt):
    k = pt.kind
    if k == 'int':
        return INT
    if k == 'bool':
        return BOOL
    if k == 'str':
        return STR
    if k == 'float':
        return REAL
    if k == 'cell':
        return CELL
    if k == 'key':
        return 'Key'
    if k == 'jkey':
        return 'JKey'
    if k in ('list', 'dict', 'set', 'obj', 'ddict'):
        return INT
    if k == 'seq':
        return SeqS(sort_of(pt.args[0]))
    if k == 'tuple':
        if pt in _sort_cache:
            return _sort_cache[pt]
        parts = [sort_of(a) for a in pt.args]
        name = 'Tup_' + '_'.join(mangle(p) for p in parts)
        declare_datatype(name, [('mk_' + name, [('%s_%d' % (name, i), p) for i, p in enumerate(parts)])])
        _sort_cache[pt] = name
        return name
    if k == 'opt':
        inner = pt.args[0]
        if inner.is_ref() or inner.kind == 'mtag':
            return INT
        if pt in _sort_cache:
            return _sort_cache[pt]
        s = sort_of(inner)
        name = 'Opt_' + mangle(s)
        declare_datatype(name, [('none_' + name, []), ('some_' + name, [('val_' + name, s)])])
        _sort_cache[pt] = name
        return name
    if k in ('exc', 'mtag'):
        return INT
    if k == 'opaque':
        smt.declare_sort('OpaqueV')      # values the verified code only passes around (e.g. variable maps of the text layer)
        return 'OpaqueV'
    if k == 'recdict':
        return sort_of(recdict_rep(pt))
    if k == 'map':
        return ArrS(sort_of(pt.args[0]), sort_of(pt.args[1]))
    raise TypeError('no sort for %r' % (pt,))


class SV(object):
    """symbolic value = static python type + term (None for the None literal and for descriptors)"""
    __slots__ = ('pt', 't', 'py')

    def __init__(self, pt, t=None, py=None):
        self.pt = pt
        self.t = t
        self.py = py      # python-level payload for funcs/classes/modules/static tuples

    def __repr__(self):
        return 'SV(%r, %r)' % (self.pt, self.t if self.t is not None else self.py)


NONE = SV(TNone)


def mk_tuple(pt, terms):
    name = sort_of(pt)
    return dt_ctor(name, 'mk_' + name, tuple(terms))


def tuple_get(pt, t, i):
    name = sort_of(pt)
    return dt_sel('%s_%d' % (name, i), t, sort_of(pt.args[i]), 'mk_' + name)


def _nullable(pt):
    return pt.args[0].is_ref() or pt.args[0].kind == 'mtag'


def opt_none(pt):
    if _nullable(pt):
        return IntC(0)
    name = sort_of(pt)
    return dt_ctor(name, 'none_' + name, ())


def opt_some(pt, t):
    if _nullable(pt):
        return t
    name = sort_of(pt)
    return dt_ctor(name, 'some_' + name, (t,))


def opt_is_none(pt, t):
    if _nullable(pt):
        return Eq(t, IntC(0))
    name = sort_of(pt)
    return dt_test('none_' + name, t)


def opt_val(pt, t):
    if _nullable(pt):
        return t
    name = sort_of(pt)
    return dt_sel('val_' + name, t, sort_of(pt.args[0]), 'some_' + name)


NAMED_TUPLE_TYPES = {}      # qualified name -> (tuple PT, field names)


class CoerceError(Exception):
    pass


def coerce(sv, pt):
    """static up-cast of a symbolic value to type pt (no run-time checks)."""
    if sv.pt == pt:
        return sv
    k = pt.kind
    s = sv.pt.kind
    if k == 'cell':
        if s == 'none':
            return SV(TCell, CNone())
        if s == 'str':
            return SV(TCell, CS(sv.t))
        if s == 'int':
            return SV(TCell, CI(sv.t))
        if s == 'float':
            return SV(TCell, CF(sv.t))
        if s == 'bool':
            return SV(TCell, CB(sv.t))
        if s == 'list':
            return SV(TCell, CL(sv.t))
        if s == 'obj':
            return SV(TCell, CObj(sv.t))
        if s == 'opt':
            inner = sv.pt.args[0]
            v = coerce(SV(inner, opt_val(sv.pt, sv.t)), TCell)
            return SV(TCell, Ite(opt_is_none(sv.pt, sv.t), CNone(), v.t))
    if k == 'key' and s == 'none':
        smt.declare_fun('key_none', [], 'Key')
        return SV(pt, App('key_none', (), 'Key'))
    if k == 'jkey':
        if s in ('cell', 'int', 'str', 'none'):
            return SV(pt, dt_ctor('JKey', 'K1', (coerce(sv, TCell).t,)))
        if s == 'seq' and sv.pt.args[0].kind == 'cell':
            return SV(pt, dt_ctor('JKey', 'KN', (sv.t,)))
        if s == 'pytuple':
            parts = [smt.Unit(coerce(x, TCell).t) for x in sv.py]
            return SV(pt, dt_ctor('JKey', 'KN', (smt.Concat(*parts) if parts else smt.Empty(SeqS('Cell')),)))
    if k == 'opt':
        if s == 'none':
            return SV(pt, opt_none(pt))
        if s == 'opt':
            raise CoerceError('%r -> %r' % (sv.pt, pt))
        inner = coerce(sv, pt.args[0])
        return SV(pt, opt_some(pt, inner.t))
    if k == 'float' and s == 'int':
        return SV(TFloat, smt.ToReal(sv.t))
    if k == 'int' and s == 'bool':
        return SV(TInt, Ite(sv.t, IntC(1), IntC(0)))
    if k == 'obj' and s == 'obj':
        return SV(pt, sv.t)      # class hierarchy is checked by the caller
    if k == 'seq' and s == 'seq' and sv.t is not None and sv.t.op == 'seq.empty':
        return SV(pt, smt.Empty(sort_of(pt)))
    if k == 'tuple' and s == 'pytuple' and len(pt.args) == len(sv.py):
        parts = [coerce(sv.py[i], pt.args[i]).t for i in range(len(pt.args))]
        return SV(pt, mk_tuple(pt, parts))
    if k == 'tuple' and s == 'tuple' and len(pt.args) == len(sv.pt.args):
        parts = [coerce(SV(sv.pt.args[i], tuple_get(sv.pt, sv.t, i)), pt.args[i]).t for i in range(len(pt.args))]
        return SV(pt, mk_tuple(pt, parts))
    raise CoerceError('%r -> %r' % (sv.pt, pt))


def join_types(a, b):
    if a == b:
        return a
    if a.kind == 'none':
        return TOpt(b)
    if b.kind == 'none':
        return TOpt(a)
    if a.kind == 'opt' and a.args[0] == b:
        return a
    if b.kind == 'opt' and b.args[0] == a:
        return b
    if 'cell' in (a.kind, b.kind):
        return TCell
    if set((a.kind, b.kind)) == set(('int', 'float')):
        return TFloat
    if set((a.kind, b.kind)) <= set(('int', 'float', 'str', 'bool')):
        return TCell
    raise CoerceError('join %r %r' % (a, b))


# numeric view of cells ---------------------------------------------------------
def cell_is_num(c):
    return Or(dt_test('CI', c), dt_test('CF', c))


def cell_is_int(c):
    return dt_test('CI', c)


def cell_is_str(c):
    return dt_test('CS', c)


def cell_is_none(c):
    return dt_test('CNone', c)


def cell_num(c):
    """real value of a numeric cell"""
    return Ite(dt_test('CI', c), smt.ToReal(dt_sel('ival', c, INT, 'CI')), dt_sel('fval', c, REAL, 'CF'))


def cell_ival(c):
    return dt_sel('ival', c, INT, 'CI')


def cell_sval(c):
    return dt_sel('sval', c, STR, 'CS')


def cell_eq(a, b):
    """Python == on cells (int/float compare numerically, everything else structurally)"""
    if a == b:
        return BoolC(True)
    if a.op == 'app' and a.val in ('CNone', 'CS') or b.op == 'app' and b.val in ('CNone', 'CS'):
        return Eq(a, b)
    return Ite(And(cell_is_num(a), cell_is_num(b)), Eq(cell_num(a), cell_num(b)), Eq(a, b))


def cell_arith(op, a, b):
    """a op b for numeric cells: int op int stays int, otherwise float"""
    both_int = And(cell_is_int(a), cell_is_int(b))
    ia, ib = cell_ival(a), cell_ival(b)
    ra, rb = cell_num(a), cell_num(b)
    if op == '+':
        return Ite(both_int, CI(smt.Add(ia, ib)), CF(smt.Add(ra, rb)))
    if op == '-':
        return Ite(both_int, CI(smt.Sub(ia, ib)), CF(smt.Sub(ra, rb)))
    if op == '*':
        return Ite(both_int, CI(smt.Mul(ia, ib)), CF(smt.Mul(ra, rb)))
    raise ValueError(op)


def cell_lt(a, b):
    return smt.Lt(cell_num(a), cell_num(b))


def truthy(sv):
    """Python truthiness as a Bool term"""
    k = sv.pt.kind
    if k == 'bool':
        return sv.t
    if k == 'none':
        return BoolC(False)
    if k == 'int':
        return Not(Eq(sv.t, IntC(0)))
    if k == 'float':
        return Not(Eq(sv.t, RealC(0.0)))
    if k == 'str':
        return Not(Eq(sv.t, StrC('')))
    if k == 'seq':
        return Not(Eq(smt.Len(sv.t), IntC(0)))
    if k == 'opt':
        if sv.pt.args[0].kind in ('obj', 'tuple'):
            return Not(opt_is_none(sv.pt, sv.t))
        inner = SV(sv.pt.args[0], opt_val(sv.pt, sv.t))
        if inner.pt.is_ref():
            raise CoerceError('truthiness of optional container needs the heap')
        return And(Not(opt_is_none(sv.pt, sv.t)), truthy(inner))
    if k == 'obj':
        return BoolC(True)
    if k == 'cell':
        c = sv.t
        return And(Not(dt_test('CNone', c)),
                   Or(Not(dt_test('CS', c)), Not(Eq(dt_sel('sval', c, STR, 'CS'), StrC('')))),
                   Or(Not(dt_test('CI', c)), Not(Eq(dt_sel('ival', c, INT, 'CI'), IntC(0)))),
                   Or(Not(dt_test('CF', c)), Not(Eq(dt_sel('fval', c, REAL, 'CF'), RealC(0.0)))),
                   Or(Not(dt_test('CB', c)), dt_sel('bval', c, BOOL, 'CB')))
    raise CoerceError('truthiness of %r' % (sv.pt,))


TYPE_ALIASES = {}


def parse_type(node, classes=None):
    """contract type expression (ast) -> PT"""
    import ast
    if isinstance(node, ast.Name):
        n = node.id
        if n == 'MethodTag':
            return PT('mtag')
        if n == 'Opaque':
            return PT('opaque')
        if n == 'JKey':
            return PT('jkey')
        base = {'Int': TInt, 'Bool': TBool, 'Str': TStr, 'Float': TFloat, 'Cell': TCell, 'Key': TKey, 'NoneT': TNone,
                'Rec': TList(TCell), 'RecV': TSeq(TCell)}
        if n in base:
            return base[n]
        if n in TYPE_ALIASES:
            return TYPE_ALIASES[n]
        raise TypeError('unknown type name %s' % n)
    if isinstance(node, ast.Constant) and isinstance(node.value, str):
        return TObj(node.value)
    if isinstance(node, ast.Subscript):
        head = node.value.id
        sl = node.slice
        elts = sl.elts if isinstance(sl, ast.Tuple) else [sl]
        if head == 'NT':
            return NAMED_TUPLE_TYPES[elts[0].value][0]
        if head == 'RecDict':
            d = elts[0]
            if not isinstance(d, ast.Dict):
                raise TypeError('RecDict[{key: Type, ...}] expected')
            return TRecDict([(k.value, parse_type(v)) for k, v in zip(d.keys, d.values)])
        if head in ('Fn', 'Cls'):
            return PT('fnref' if head == 'Fn' else 'clsref', elts[0].value)
        if head == 'Obj':
            if isinstance(elts[0], ast.Constant):
                return TObj(elts[0].value)
            return TObj(ast.unparse(elts[0]))
        args = [parse_type(e) for e in elts]
        if head == 'List':
            return TList(args[0])
        if head == 'Seq':
            return TSeq(args[0])
        if head == 'Tuple':
            return TTuple(*args)
        if head == 'Opt':
            return TOpt(args[0])
        if head == 'Dict':
            return PT('dict', args[0], args[1])
        if head == 'DDict':       # defaultdict: missing keys read as the default (int 0 / empty list)
            return PT('ddict', args[0], args[1])
        if head == 'Set':
            return TSet(args[0])
        if head == 'Map':         # ghost total map (SMT array value)
            return PT('map', args[0], args[1])
    if isinstance(node, ast.Subscript) and node.value.id == 'RecDict':
        pass
    raise TypeError('bad type expression %s' % ast.dump(node))
