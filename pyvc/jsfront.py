"""JavaScript front end (C18): a mechanical translation of a STATED subset of JavaScript (ESTree from the acorn
that ships inside node) into the Python `ast` that the symbolic executor consumes.  Run on every check from
/repo/rbql-js/*.js; nothing is hand-copied.

Subset and its reading (A-JS, listed in the evidence of every check that uses a translated function):
  function f(a, b=<literal>) {...}          def f(a, b=<literal>): ...
  var/let/const x = e;                      x = e                      (block scoping is ignored: a name declared twice in one
                                                                        function with different meanings is rejected)
  if / else, while, return, expression statements, blocks
  for (let i = a; i < b; i++) body          i = a; while i < b: body; i = i + 1     (body must not `continue`)
  [e1, e2]  (array literal, 2+ elements)    (e1, e2)   tuple; a[0], a[1] index it        (never mutated: checked)
  []                                        []
  a === b, a == b, !==, !=, <, <=, >, >=    ==, !=, ... on operands of the same static type (the executor rejects mixed types)
  a || b, a && b, !a, c ? x : y             or, and, not, x if c else y              (operands Bool: rejected otherwise)
  s.length                                  len(s)
  s[i], s.charAt(i)                         s[i]       with the executor's in-range obligation (JS would give undefined / '')
  s.substring(a) / s.substring(a, b)        s[a:] / s[a:b]    + obligation 0 <= a <= b (JS swaps arguments otherwise)
  s.slice(0, -1)                            s[0:-1]
  s.indexOf(t) / s.indexOf(t, i)            s.find(t) / s.find(t, i)
  s.split(d)                                s.split(d)        (d non-empty: obligation of the Python model)
  s.replace(/lit/g, r)                      s.replace('lit', r)   for a regex literal without metacharacters, flag g
  `...${e}...`                              '...' + e + '...'
  xs.push(e)                                xs.append(e)
  new RegExp(<string expr>[, 'g'])          re.compile(<string expr>)
  r.exec(s)  (r anchored with ^, no g flag) r.match(s, 0)     match object: m[0] -> m.group(0), m[1] -> m.group(1),
                                                              m[0].length -> m.end() - m.start()
  while ((m = r.exec(s)) !== null) body     for m in r.finditer(s): body      (r has the g flag, is local, body does not touch r)
  x !== null / x === null                   x is not None / x is None
  null, true, false, numbers, strings
  for (let x of xs) body                    for x in xs: body
  throw new E(msg)                          raise E(msg)            (class E extends Error {} -> class E(Exception))
  assert(c)                                 assert c
  o.p  (p other than length)                o.p        (records with fixed fields: typed as named tuples in the contracts)
  xs.concat(ys)                             xs + ys    (a new list)
  'text' + (arithmetic with a number)       'text' + str(arithmetic)    (JS number-to-string of an integer)
  'text' + x,  `...${x}...`                 'text' + __js_str(x)        (String(x): x itself when it is a string; the text of a number, key or
                                                                         cell otherwise - an uninterpreted function of the value for non-strings)
Classes (added for C19):
  class C [extends B] { constructor(a) {...}  m(x) {...}  async m(x) {...} }
                                            class C(B): def __init__(self, a): ...; def m(self, x): ...
                                            `this` -> self; super() with no arguments in a constructor is dropped (the base constructors
                                            of rbql.js are empty); super(...rest) of an Error subclass is dropped too (the message);
                                            constructor(a, ...rest) -> def __init__(self, a, *rest); static members, getters, setters: rejected
  break                                     break
  try { A } catch (e) { B }                 try: A  except Exception as e: B         (no finally)
  x instanceof C                            isinstance(x, C)
  s.length && c  /  s.length || c           len(s) > 0 and c  /  len(s) > 0 or c     (a length used as a truth value)
  xs.pop()                                  xs.pop()
  const m = require('./m.js'); m.f(a)       import js_m as m; m.f(a)                 (call by the contract of js_m.f)
  this.f.m(a), this.m(a), x.m(a)            the same method call, for m not a JavaScript string/array method: accepted by the executor only when the
                                            contracts declare the receiver's class and give m an (assumed) contract; an object-literal argument
                                            (options) is passed as the opaque constant '{...}'; a method the file calls both with and without
                                            arguments is rendered m__0 for the call without (decoder.decode() is the flush, not decode(chunk, opts))
  async m() / await e                       the method / e          (A-JS-AWAIT: an awaited call has completed when the next
                                                                     statement runs; interleaving with OTHER tasks touching the same
                                                                     objects is outside the properties, which exclude concurrent queries)
  new Map() / new Set()                     {} / set()
  m.get(k)                                  __js_map_get(m, k)   an Opt of the value type: `undefined` for a missing key is distinct from every
                                                                 stored value, also from a stored null;  x === undefined -> x is None
  m.set(k, v);  (statement)                 m[k] = v
  m.has(k)                                  k in m
  s.add(v), s.size / m.size                 s.add(v), len(s)
  Math.min(a, b) / Math.max(a, b)           __js_math_min(a, b) / __js_math_max(a, b)   (Python's builtin min / max on two numbers; rbql.js itself defines `min = MIN`)
  JSON.stringify(record)                    tuple(record)   (A-JS-KEY: used only as a Map/Set key; injective on records of strings,
                                                             integers and null - validated by the bounded C19 job)
  new C(args)  (C a class of the module)    C(args)
  xs.unshift(e)                             xs.insert(0, e)
  let [a, b] = e                            (a, b) = e
  for (var [k, v] of m)                     for (k, v) in m.items()
  x += e on this.f / xs[i]                  augmented assignment on attributes / subscripts
Anything else raises Unsupported and the function is reported out of subset.
"""
import ast
import json
import os
import subprocess

HERE = os.path.dirname(os.path.abspath(__file__))


class Unsupported(Exception):
    pass


# methods of JavaScript strings and arrays that have no special reading here: never passed through as calls by contract
JS_STRING_ARRAY_METHODS = set(['map', 'filter', 'reduce', 'forEach', 'join', 'sort', 'reverse', 'splice', 'shift', 'fill', 'keys', 'values', 'entries', 'trim', 'match',
                               'search', 'test', 'toLowerCase', 'toUpperCase', 'startsWith', 'endsWith', 'includes', 'repeat', 'padStart', 'padEnd', 'findIndex', 'find',
                               'some', 'every', 'flat', 'from', 'isArray', 'hasOwnProperty', 'charCodeAt', 'localeCompare', 'lastIndexOf', 'slice', 'substring', 'substr',
                               'split', 'replace', 'concat', 'push', 'pop', 'indexOf', 'charAt', 'get', 'set', 'has', 'add', 'delete', 'clear', 'unshift'])


def estree(path):
    out = subprocess.run(['node', '--expose-internals', os.path.join(HERE, 'js', 'dump_ast.js'), path], capture_output=True, text=True, timeout=60)
    if out.returncode != 0:
        raise Unsupported('acorn failed on %s: %s' % (path, out.stderr[-300:]))
    return json.loads(out.stdout)


def _loc(py, js):
    py.lineno = js['loc']['start']['line']
    py.col_offset = js['loc']['start']['column']
    py.end_lineno = js['loc']['end']['line']
    py.end_col_offset = js['loc']['end']['column']
    return py


class Translator(object):
    def __init__(self, module_regexes=None):
        self.module_regexes = module_regexes or {}     # name -> (pattern text or None, global flag)
        self.local_regex = {}
        self.match_vars = set()
        self.tuple_vars = set()
        self.arities = {}             # method name -> set of argument counts it is called with in the file
        self.required = {}            # local name -> module name, for `const m = require('./m.js')`
        self.str_consts = set()       # module-level const names initialised with a certainly-string expression
        self.class_names = set()      # classes declared in the module: new C(...) -> C(...)
        self.method_names = set()     # methods declared by those classes: o.m(...) stays a method call

    # ------------------------------------------------------------------ functions
    def function(self, fn, name=None, method=False):
        if fn.get('generator'):
            raise Unsupported('generator function')
        self.local_regex = {}
        self.match_vars = set()
        args = [ast.arg(arg='self')] if method else []
        defaults = []
        vararg = None
        for p in fn['params']:
            if p['type'] == 'Identifier':
                if defaults:
                    raise Unsupported('parameter without default after one with default')
                args.append(ast.arg(arg=p['name']))
            elif p['type'] == 'AssignmentPattern' and p['left']['type'] == 'Identifier':
                args.append(ast.arg(arg=p['left']['name']))
                defaults.append(self.expr(p['right']))
            elif p['type'] == 'RestElement' and p['argument']['type'] == 'Identifier' and p is fn['params'][-1]:
                vararg = ast.arg(arg=p['argument']['name'])
            else:
                raise Unsupported('parameter pattern %s' % p['type'])
        body = self.block(fn['body'])
        node = ast.FunctionDef(name=name or fn['id']['name'], args=ast.arguments(posonlyargs=[], args=args, vararg=vararg, kwonlyargs=[], kw_defaults=[], kwarg=None, defaults=defaults),
                               body=body or [ast.Pass()], decorator_list=[], returns=None, type_comment=None)
        _loc(node, fn)
        ast.fix_missing_locations(node)
        return node

    def klass(self, n, class_names):
        base = n.get('superClass')
        bases = []
        if base is not None:
            if base['type'] == 'MemberExpression' and not base['computed'] and base['object']['type'] == 'Identifier' and base['object']['name'] in self.required:
                bases = [ast.Attribute(value=ast.Name(id=base['object']['name'], ctx=ast.Load()), attr=base['property']['name'], ctx=ast.Load())]
            elif base['type'] != 'Identifier':
                raise Unsupported('computed base class')
            else:
                bases = [ast.Name(id='Exception' if base['name'] == 'Error' else base['name'], ctx=ast.Load())]
        body = []
        skipped = {}
        for m in n['body']['body']:
            mname = m.get('key', {}).get('name', '?')
            try:
                if m['type'] != 'MethodDefinition' or m.get('static') or m['kind'] not in ('constructor', 'method') or m.get('computed'):
                    raise Unsupported('class member %s/%s' % (m['type'], m.get('kind')))
                fn = m['value']
                if m['kind'] == 'constructor':
                    # super(); with no arguments: dropped (the base constructors in the subset take no arguments and set nothing, checked by the caller)
                    stmts = fn['body']['body']
                    keep = []
                    for st in stmts:
                        if (st['type'] == 'ExpressionStatement' and st['expression']['type'] == 'CallExpression' and st['expression']['callee']['type'] == 'Super'):
                            sargs = st['expression']['arguments']
                            rest = [q['argument']['name'] for q in fn['params'] if q['type'] == 'RestElement' and q['argument']['type'] == 'Identifier']
                            only_rest = (len(sargs) == 1 and sargs[0]['type'] == 'SpreadElement' and sargs[0]['argument']['type'] == 'Identifier' and sargs[0]['argument']['name'] in rest)
                            if sargs and not (only_rest and base is not None and base.get('name') == 'Error'):
                                raise Unsupported('super(...) with arguments')
                            continue        # super(...rest) of an Error subclass passes the message on: the translated class keeps no message
                        keep.append(st)
                    fn = dict(fn, body=dict(fn['body'], body=keep))
                    body.append(self.function(fn, name='__init__', method=True))
                else:
                    body.append(self.function(fn, name=mname, method=True))
            except Unsupported as e:
                skipped[n['id']['name'] + '.' + mname] = str(e)
        node = ast.ClassDef(name=n['id']['name'], bases=bases, keywords=[], body=body or [ast.Pass()], decorator_list=[])
        _loc(node, n)
        return node, skipped

    def block(self, b):
        stmts = b['body'] if b['type'] == 'BlockStatement' else [b]
        out = []
        for s in stmts:
            out.extend(self.stmt(s))
        return out

    # ------------------------------------------------------------------ statements
    def stmt(self, s):
        t = s['type']
        if t == 'VariableDeclaration':
            out = []
            for d in s['declarations']:
                if d['id']['type'] == 'ArrayPattern' and d['init'] is not None and all(x is not None and x['type'] == 'Identifier' for x in d['id']['elements']):
                    tgt = ast.Tuple(elts=[ast.Name(id=x['name'], ctx=ast.Store()) for x in d['id']['elements']], ctx=ast.Store())
                    out.append(_loc(ast.Assign(targets=[tgt], value=self.expr(d['init']), type_comment=None), s))
                    continue
                if d['id']['type'] != 'Identifier':
                    raise Unsupported('destructuring declaration')
                name = d['id']['name']
                if d['init'] is None:
                    raise Unsupported('declaration without initialiser')
                init = d['init']
                if init['type'] == 'ConditionalExpression' and all(x['type'] == 'NewExpression' for x in (init['consequent'], init['alternate'])):
                    # let r = c ? new RegExp(a, 'g') : new RegExp(b, 'g')
                    ga, gb = self._regex_flags(init['consequent']), self._regex_flags(init['alternate'])
                    if ga != gb:
                        raise Unsupported('regexes with different flags in one variable')
                    self.local_regex[name] = ga
                elif init['type'] == 'NewExpression':
                    self.local_regex[name] = self._regex_flags(init)
                elif init['type'] == 'ConditionalExpression' and all(x['type'] == 'Identifier' and x['name'] in self.module_regexes for x in (init['consequent'], init['alternate'])):
                    self.local_regex[name] = self.module_regexes[init['consequent']['name']][1]
                if init['type'] == 'CallExpression' and self._is_exec(init):
                    self.match_vars.add(name)
                out.append(_loc(ast.Assign(targets=[ast.Name(id=name, ctx=ast.Store())], value=self.expr(init), type_comment=None), s))
            return out
        if t == 'ExpressionStatement':
            e = s['expression']
            if e['type'] == 'AssignmentExpression':
                return [self.assign(e, s)]
            if e['type'] == 'UpdateExpression':
                return [self.update(e, s)]
            if e['type'] == 'AwaitExpression':
                e = e['argument']
            if (e['type'] == 'CallExpression' and e['callee']['type'] == 'MemberExpression' and not e['callee']['computed']
                    and e['callee']['property']['name'] == 'set' and len(e['arguments']) == 2):
                tgt = ast.Subscript(value=self.expr(e['callee']['object']), slice=self.expr(e['arguments'][0]), ctx=ast.Store())
                return [_loc(ast.Assign(targets=[tgt], value=self.expr(e['arguments'][1]), type_comment=None), s)]
            if e['type'] == 'CallExpression' and e['callee']['type'] == 'Identifier' and e['callee']['name'] == 'assert' and 1 <= len(e['arguments']) <= 2:
                return [_loc(ast.Assert(test=self.expr(e['arguments'][0]), msg=None), s)]
            return [_loc(ast.Expr(value=self.expr(e)), s)]
        if t == 'ReturnStatement':
            return [_loc(ast.Return(value=None if s['argument'] is None else self.expr(s['argument'])), s)]
        if t == 'IfStatement':
            node = ast.If(test=self.cond(s['test']), body=self.block(s['consequent']) or [ast.Pass()],
                          orelse=[] if s.get('alternate') is None else self.block(s['alternate']))
            return [_loc(node, s)]
        if t == 'WhileStatement':
            test = s['test']
            # while ((m = r.exec(src)) !== null) body   ->   for m in r.finditer(src): body
            if (test['type'] == 'BinaryExpression' and test['operator'] in ('!==', '!=') and test['right']['type'] == 'Literal' and test['right']['value'] is None
                    and test['left']['type'] == 'AssignmentExpression' and test['left']['left']['type'] == 'Identifier' and self._is_exec(test['left']['right'])):
                m = test['left']['left']['name']
                call = test['left']['right']
                rname = call['callee']['object']['name']
                if not self.local_regex.get(rname):
                    raise Unsupported('exec loop over a regex that is not a local regex with the g flag')
                self.match_vars.add(m)
                body = self.block(s['body'])
                for n in ast.walk(ast.Module(body=body, type_ignores=[])):
                    if isinstance(n, ast.Name) and n.id == rname:
                        raise Unsupported('exec loop body touches the regex')
                it = ast.Call(func=ast.Attribute(value=ast.Name(id=rname, ctx=ast.Load()), attr='finditer', ctx=ast.Load()), args=[self.expr(call['arguments'][0])], keywords=[])
                return [_loc(ast.For(target=ast.Name(id=m, ctx=ast.Store()), iter=it, body=body or [ast.Pass()], orelse=[], type_comment=None), s)]
            return [_loc(ast.While(test=self.cond(test), body=self.block(s['body']) or [ast.Pass()], orelse=[]), s)]
        if t == 'ForStatement':
            init, test, upd = s['init'], s['test'], s['update']
            if init is None or test is None or upd is None:
                raise Unsupported('for statement without init/test/update')
            pre = self.stmt(init) if init['type'] == 'VariableDeclaration' else [self.assign(init, s)]
            body = self.block(s['body'])
            for n in ast.walk(ast.Module(body=body, type_ignores=[])):
                if isinstance(n, ast.Continue):
                    raise Unsupported('continue inside a for statement')
            step = self.update(upd, s) if upd['type'] == 'UpdateExpression' else self.assign(upd, s)
            return pre + [_loc(ast.While(test=self.cond(test), body=body + [step], orelse=[]), s)]
        if t == 'ForOfStatement':
            left = s['left']
            if left['type'] == 'VariableDeclaration' and len(left['declarations']) == 1 and left['declarations'][0]['id']['type'] == 'Identifier':
                tgt = ast.Name(id=left['declarations'][0]['id']['name'], ctx=ast.Store())
            elif left['type'] == 'Identifier':
                tgt = ast.Name(id=left['name'], ctx=ast.Store())
            elif (left['type'] == 'VariableDeclaration' and len(left['declarations']) == 1 and left['declarations'][0]['id']['type'] == 'ArrayPattern'
                  and len(left['declarations'][0]['id']['elements']) == 2 and all(x is not None and x['type'] == 'Identifier' for x in left['declarations'][0]['id']['elements'])):
                # for (var [k, v] of m)  ->  for (k, v) in m.items()
                tgt = ast.Tuple(elts=[ast.Name(id=x['name'], ctx=ast.Store()) for x in left['declarations'][0]['id']['elements']], ctx=ast.Store())
                it = ast.Call(func=ast.Attribute(value=self.expr(s['right']), attr='items', ctx=ast.Load()), args=[], keywords=[])
                return [_loc(ast.For(target=tgt, iter=it, body=self.block(s['body']) or [ast.Pass()], orelse=[], type_comment=None), s)]
            else:
                raise Unsupported('for-of with a destructuring target')
            return [_loc(ast.For(target=tgt, iter=self.expr(s['right']), body=self.block(s['body']) or [ast.Pass()], orelse=[], type_comment=None), s)]
        if t == 'ThrowStatement':
            a = s['argument']
            if a['type'] == 'NewExpression' and a['callee']['type'] == 'Identifier':
                call = ast.Call(func=ast.Name(id=a['callee']['name'], ctx=ast.Load()), args=[self.expr(x) for x in a['arguments']], keywords=[])
                return [_loc(ast.Raise(exc=call, cause=None), s)]
            raise Unsupported('throw of something other than new E(...)')
        if t == 'BlockStatement':
            return self.block(s)
        if t == 'EmptyStatement':
            return []
        if t == 'TryStatement' and s.get('finalizer') is None and s.get('handler') is not None:
            h = s['handler']
            pname = h['param']['name'] if h.get('param') is not None and h['param']['type'] == 'Identifier' else None
            handler = ast.ExceptHandler(type=ast.Name(id='Exception', ctx=ast.Load()), name=pname, body=self.block(h['body']) or [ast.Pass()])
            return [_loc(ast.Try(body=self.block(s['block']) or [ast.Pass()], handlers=[_loc(handler, h)], orelse=[], finalbody=[]), s)]
        if t == 'BreakStatement' and s.get('label') is None:
            return [_loc(ast.Break(), s)]
        raise Unsupported('statement %s at line %d' % (t, s['loc']['start']['line']))

    def assign(self, e, s):
        if e['operator'] == '=':
            tgt = self.lvalue(e['left'])
            if e['right']['type'] == 'CallExpression' and self._is_exec(e['right']) and e['left']['type'] == 'Identifier':
                self.match_vars.add(e['left']['name'])
            return _loc(ast.Assign(targets=[tgt], value=self.expr(e['right']), type_comment=None), s)
        ops = {'+=': ast.Add(), '-=': ast.Sub()}
        if e['operator'] in ops:
            return _loc(ast.AugAssign(target=self.lvalue(e['left']), op=ops[e['operator']], value=self.expr(e['right'])), s)
        raise Unsupported('assignment operator %s' % e['operator'])

    def update(self, e, s):
        op = ast.Add() if e['operator'] == '++' else ast.Sub()
        return _loc(ast.AugAssign(target=self.lvalue(e['argument']), op=op, value=ast.Constant(value=1)), s)

    def lvalue(self, e):
        if e['type'] == 'Identifier':
            return ast.Name(id=e['name'], ctx=ast.Store())
        if e['type'] == 'ArrayPattern' and all(x is not None and x['type'] == 'Identifier' for x in e['elements']):
            # [a, b] = [x, y]: the right-hand side is evaluated first, as in Python's tuple assignment
            return ast.Tuple(elts=[ast.Name(id=x['name'], ctx=ast.Store()) for x in e['elements']], ctx=ast.Store())
        if e['type'] == 'MemberExpression' and e['computed']:
            return ast.Subscript(value=self.expr(e['object']), slice=self.expr(e['property']), ctx=ast.Store())
        if e['type'] == 'MemberExpression' and not e['computed'] and e['property']['name'] not in ('length', 'prototype', 'constructor', '__proto__'):
            return ast.Attribute(value=self.expr(e['object']), attr=e['property']['name'], ctx=ast.Store())
        raise Unsupported('assignment target %s' % e['type'])

    # ------------------------------------------------------------------ expressions
    def cond(self, e):
        return self.expr(e)

    def _textlike(self, x):
        """certainly a string: a string literal, a template literal, or a + with a certainly-string operand"""
        if x['type'] == 'Literal' and isinstance(x.get('value'), str) and 'regex' not in x:
            return True
        if x['type'] == 'TemplateLiteral':
            return True
        if x['type'] == 'Identifier' and x['name'] in self.str_consts:
            return True
        if x['type'] == 'BinaryExpression' and x['operator'] == '+':
            return self._textlike(x['left']) or self._textlike(x['right'])
        return False

    def _is_arith(self, x):
        if x['type'] != 'BinaryExpression' or x['operator'] not in ('+', '-', '*'):
            return False
        has_num = lambda y: (y['type'] == 'Literal' and isinstance(y.get('value'), (int, float)) and not isinstance(y.get('value'), bool)) or (y['type'] == 'BinaryExpression' and (has_num(y['left']) or has_num(y['right'])))
        return has_num(x) and not self._textlike(x['left']) and not self._textlike(x['right'])

    def _as_text(self, x):
        """operand of a string concatenation: JavaScript converts it with String(); integers print as in Python"""
        if self._textlike(x):
            return self.expr(x)
        if self._is_arith(x):
            return ast.Call(func=ast.Name(id='str', ctx=ast.Load()), args=[self.expr(x)], keywords=[])
        return ast.Call(func=ast.Name(id='__js_str', ctx=ast.Load()), args=[self.expr(x)], keywords=[])

    def _is_exec(self, e):
        return (e['type'] == 'CallExpression' and e['callee']['type'] == 'MemberExpression' and not e['callee']['computed']
                and e['callee']['property']['name'] == 'exec' and e['callee']['object']['type'] == 'Identifier')

    def _regex_flags(self, new):
        if new['callee']['type'] != 'Identifier' or new['callee']['name'] != 'RegExp':
            raise Unsupported('new %s' % new['callee'].get('name'))
        if len(new['arguments']) == 1:
            return False
        f = new['arguments'][1]
        if f['type'] == 'Literal' and f['value'] == 'g':
            return True
        raise Unsupported('regex flags')

    def expr(self, e):
        t = e['type']
        if t == 'ThisExpression':
            return _loc(ast.Name(id='self', ctx=ast.Load()), e)
        if t == 'AwaitExpression':
            return self.expr(e['argument'])
        if t == 'Identifier':
            if e['name'] == 'undefined':
                raise Unsupported('undefined outside a comparison')
            return _loc(ast.Name(id=e['name'], ctx=ast.Load()), e)
        if t == 'Literal':
            if 'regex' in e:
                raise Unsupported('regex literal outside replace()')
            v = e['value']
            if isinstance(v, float) and v == int(v):
                v = int(v)
            return _loc(ast.Constant(value=v), e)
        if t == 'TemplateLiteral':
            parts = []
            for i, q in enumerate(e['quasis']):
                if q['value']['cooked']:
                    parts.append(ast.Constant(value=q['value']['cooked']))
                if i < len(e['expressions']):
                    parts.append(self._as_text(e['expressions'][i]))
            if not parts:
                return ast.Constant(value='')
            r = parts[0]
            for p in parts[1:]:
                r = ast.BinOp(left=r, op=ast.Add(), right=p)
            return _loc(r, e)
        if t == 'ArrayExpression':
            elts = [self.expr(x) for x in e['elements']]
            if len(elts) == 0:
                return _loc(ast.List(elts=[], ctx=ast.Load()), e)
            if len(elts) == 1:
                return _loc(ast.List(elts=elts, ctx=ast.Load()), e)
            return _loc(ast.Tuple(elts=elts, ctx=ast.Load()), e)
        if t == 'UnaryExpression':
            if e['operator'] == '!':
                return _loc(ast.UnaryOp(op=ast.Not(), operand=self.expr(e['argument'])), e)
            if e['operator'] == '-':
                return _loc(ast.UnaryOp(op=ast.USub(), operand=self.expr(e['argument'])), e)
            raise Unsupported('unary %s' % e['operator'])
        if t == 'LogicalExpression':
            op = {'||': ast.Or(), '&&': ast.And()}.get(e['operator'])
            if op is None:
                raise Unsupported('logical %s' % e['operator'])

            def operand(x):
                # `s.length && c`: a length used as a truth value is the test `len(s) > 0` (the value 0 / false of the whole expression is only
                # ever used as a truth value where rbql-js writes this)
                if x['type'] == 'MemberExpression' and not x['computed'] and x['property']['name'] == 'length':
                    return ast.Compare(left=self.expr(x), ops=[ast.Gt()], comparators=[ast.Constant(value=0)])
                return self.expr(x)
            return _loc(ast.BoolOp(op=op, values=[operand(e['left']), operand(e['right'])]), e)
        if t == 'ConditionalExpression':
            return _loc(ast.IfExp(test=self.expr(e['test']), body=self.expr(e['consequent']), orelse=self.expr(e['alternate'])), e)
        if t == 'BinaryExpression':
            o = e['operator']
            l, r = e['left'], e['right']
            if o in ('===', '==', '!==', '!='):
                isnull = lambda x: (x['type'] == 'Literal' and x['value'] is None and 'regex' not in x) or (x['type'] == 'Identifier' and x['name'] == 'undefined' and o in ('===', '!=='))
                if isnull(r) or isnull(l):
                    other = l if isnull(r) else r
                    op = ast.Is() if o in ('===', '==') else ast.IsNot()
                    return _loc(ast.Compare(left=self.expr(other), ops=[op], comparators=[ast.Constant(value=None)]), e)
                op = ast.Eq() if o in ('===', '==') else ast.NotEq()
                return _loc(ast.Compare(left=self.expr(l), ops=[op], comparators=[self.expr(r)]), e)
            if o == 'instanceof' and r['type'] == 'Identifier':
                return _loc(ast.Call(func=ast.Name(id='isinstance', ctx=ast.Load()), args=[self.expr(l), ast.Name(id=r['name'], ctx=ast.Load())], keywords=[]), e)
            cmp = {'<': ast.Lt(), '<=': ast.LtE(), '>': ast.Gt(), '>=': ast.GtE()}
            if o in cmp:
                return _loc(ast.Compare(left=self.expr(l), ops=[cmp[o]], comparators=[self.expr(r)]), e)
            ar = {'+': ast.Add(), '-': ast.Sub(), '*': ast.Mult()}
            if o == '+':
                if self._textlike(l) or self._textlike(r):
                    return _loc(ast.BinOp(left=self._as_text(l), op=ast.Add(), right=self._as_text(r)), e)
            if o in ar:
                return _loc(ast.BinOp(left=self.expr(l), op=ar[o], right=self.expr(r)), e)
            raise Unsupported('binary %s' % o)
        if t == 'NewExpression' and e['callee']['type'] == 'Identifier' and e['callee']['name'] == 'Map' and not e['arguments']:
            return _loc(ast.Dict(keys=[], values=[]), e)
        if t == 'NewExpression' and e['callee']['type'] == 'Identifier' and e['callee']['name'] == 'Set' and not e['arguments']:
            return _loc(ast.Call(func=ast.Name(id='set', ctx=ast.Load()), args=[], keywords=[]), e)
        if t == 'NewExpression' and e['callee']['type'] == 'Identifier' and e['callee']['name'] in self.class_names:
            return _loc(ast.Call(func=ast.Name(id=e['callee']['name'], ctx=ast.Load()), args=[self.expr(a) for a in e['arguments']], keywords=[]), e)
        if t == 'NewExpression':
            self._regex_flags(e)
            return _loc(ast.Call(func=ast.Attribute(value=ast.Name(id='re', ctx=ast.Load()), attr='compile', ctx=ast.Load()), args=[self.expr(e['arguments'][0])], keywords=[]), e)
        if t == 'MemberExpression':
            obj = e['object']
            if not e['computed']:
                name = e['property']['name']
                if name == 'length':
                    # m[0].length of a match object -> m.end() - m.start()
                    if obj['type'] == 'MemberExpression' and obj['computed'] and obj['object']['type'] == 'Identifier' and obj['object']['name'] in self.match_vars \
                            and obj['property']['type'] == 'Literal' and obj['property']['value'] == 0:
                        m = obj['object']['name']
                        call = lambda a: ast.Call(func=ast.Attribute(value=ast.Name(id=m, ctx=ast.Load()), attr=a, ctx=ast.Load()), args=[], keywords=[])
                        return _loc(ast.BinOp(left=call('end'), op=ast.Sub(), right=call('start')), e)
                    return _loc(ast.Call(func=ast.Name(id='len', ctx=ast.Load()), args=[self.expr(obj)], keywords=[]), e)
                if name == 'size':
                    return _loc(ast.Call(func=ast.Name(id='len', ctx=ast.Load()), args=[self.expr(obj)], keywords=[]), e)
                if obj['type'] == 'Identifier' and obj['name'] not in self.match_vars and name not in ('prototype', 'constructor', '__proto__'):
                    return _loc(ast.Attribute(value=self.expr(obj), attr=name, ctx=ast.Load()), e)
                if obj['type'] in ('ThisExpression', 'MemberExpression') and name not in ('prototype', 'constructor', '__proto__'):
                    return _loc(ast.Attribute(value=self.expr(obj), attr=name, ctx=ast.Load()), e)
                raise Unsupported('property .%s' % name)
            if obj['type'] == 'Identifier' and obj['name'] in self.match_vars:
                if e['property']['type'] == 'Literal' and e['property']['value'] in (0, 1):
                    return _loc(ast.Call(func=ast.Attribute(value=ast.Name(id=obj['name'], ctx=ast.Load()), attr='group', ctx=ast.Load()),
                                         args=[ast.Constant(value=int(e['property']['value']))], keywords=[]), e)
                raise Unsupported('match object index')
            return _loc(ast.Subscript(value=self.expr(obj), slice=self.expr(e['property']), ctx=ast.Load()), e)
        if t == 'CallExpression':
            c = e['callee']
            args = e['arguments']
            if c['type'] == 'Identifier':
                return _loc(ast.Call(func=ast.Name(id=c['name'], ctx=ast.Load()), args=[self.expr(a) for a in args], keywords=[]), e)
            if c['type'] == 'MemberExpression' and not c['computed']:
                m = c['property']['name']
                o = c['object']
                if m == 'exec' and o['type'] == 'Identifier':
                    glob = self.local_regex.get(o['name'], self.module_regexes.get(o['name'], (None, None))[1] if o['name'] in self.module_regexes else None)
                    if glob:
                        raise Unsupported('exec on a regex with the g flag outside the while-exec idiom')
                    return _loc(ast.Call(func=ast.Attribute(value=ast.Name(id=o['name'], ctx=ast.Load()), attr='match', ctx=ast.Load()),
                                         args=[self.expr(args[0]), ast.Constant(value=0)], keywords=[]), e)
                if o['type'] == 'Identifier' and o['name'] == 'Math' and m in ('min', 'max') and len(args) == 2:
                    return _loc(ast.Call(func=ast.Name(id='__js_math_' + m, ctx=ast.Load()), args=[self.expr(a) for a in args], keywords=[]), e)
                if o['type'] == 'Identifier' and o['name'] == 'JSON' and m == 'stringify' and len(args) == 1:
                    return _loc(ast.Call(func=ast.Name(id='tuple', ctx=ast.Load()), args=[self.expr(args[0])], keywords=[]), e)
                if m == 'has' and len(args) == 1:
                    return _loc(ast.Compare(left=self.expr(args[0]), ops=[ast.In()], comparators=[self.expr(o)]), e)
                if m == 'get' and len(args) == 1:
                    return _loc(ast.Call(func=ast.Name(id='__js_map_get', ctx=ast.Load()), args=[self.expr(o), self.expr(args[0])], keywords=[]), e)
                if m == 'add' and len(args) == 1:
                    return _loc(ast.Call(func=ast.Attribute(value=self.expr(o), attr='add', ctx=ast.Load()), args=[self.expr(args[0])], keywords=[]), e)
                if m == 'pop' and len(args) == 0:
                    return _loc(ast.Call(func=ast.Attribute(value=self.expr(o), attr='pop', ctx=ast.Load()), args=[], keywords=[]), e)
                if o['type'] == 'Identifier' and o['name'] in self.required:
                    # f of a module bound by `const m = require('./m.js')`: a call by contract of that module's function
                    return _loc(ast.Call(func=ast.Attribute(value=ast.Name(id=o['name'], ctx=ast.Load()), attr=m, ctx=ast.Load()), args=[self.expr(a) for a in args], keywords=[]), e)
                if m == 'hasOwnProperty' and len(args) == 1:
                    # o.hasOwnProperty(k) on a plain object used as a map: k in o
                    return _loc(ast.Compare(left=self.expr(args[0]), ops=[ast.In()], comparators=[self.expr(o)]), e)
                if m == 'unshift' and len(args) == 1:
                    return _loc(ast.Call(func=ast.Attribute(value=self.expr(o), attr='insert', ctx=ast.Load()), args=[ast.Constant(value=0), self.expr(args[0])], keywords=[]), e)
                if m == 'concat' and len(args) == 1:
                    return _loc(ast.BinOp(left=self.expr(o), op=ast.Add(), right=self.expr(args[0])), e)
                if m == 'push' and len(args) == 1:
                    return _loc(ast.Call(func=ast.Attribute(value=self.expr(o), attr='append', ctx=ast.Load()), args=[self.expr(args[0])], keywords=[]), e)
                if m == 'indexOf' and len(args) in (1, 2):
                    return _loc(ast.Call(func=ast.Attribute(value=self.expr(o), attr='find', ctx=ast.Load()), args=[self.expr(a) for a in args], keywords=[]), e)
                if m == 'split' and len(args) == 1 and 'regex' not in args[0]:
                    return _loc(ast.Call(func=ast.Attribute(value=self.expr(o), attr='split', ctx=ast.Load()), args=[self.expr(args[0])], keywords=[]), e)
                if m == 'charAt' and len(args) == 1:
                    return _loc(ast.Subscript(value=self.expr(o), slice=self.expr(args[0]), ctx=ast.Load()), e)
                if m == 'substring' and len(args) in (1, 2):
                    lo = self.expr(args[0])
                    hi = self.expr(args[1]) if len(args) == 2 else None
                    return _loc(ast.Subscript(value=self.expr(o), slice=ast.Slice(lower=lo, upper=hi, step=None), ctx=ast.Load()), e)
                if m == 'slice' and len(args) == 2:
                    return _loc(ast.Subscript(value=self.expr(o), slice=ast.Slice(lower=self.expr(args[0]), upper=self.expr(args[1]), step=None), ctx=ast.Load()), e)
                if m == 'replace' and len(args) == 2 and 'regex' in args[0]:
                    rx = args[0]['regex']
                    if rx['flags'] != 'g' or any(ch in rx['pattern'] for ch in '\\^$.|?*+()[]{}'):
                        raise Unsupported('replace with a regex that is not a plain global literal')
                    return _loc(ast.Call(func=ast.Attribute(value=self.expr(o), attr='replace', ctx=ast.Load()),
                                         args=[ast.Constant(value=rx['pattern']), self.expr(args[1])], keywords=[]), e)
                if m in self.method_names:
                    return _loc(ast.Call(func=ast.Attribute(value=self.expr(o), attr=m, ctx=ast.Load()), args=[self.expr(a) for a in args], keywords=[]), e)
                if m not in JS_STRING_ARRAY_METHODS and (o['type'] == 'ThisExpression' or (o['type'] == 'MemberExpression' and not o['computed'] and o['object']['type'] == 'ThisExpression')
                                                         or (o['type'] == 'Identifier' and o['name'] not in self.match_vars)):
                    # a method of an object the file does not define (decoder, stream, Buffer, a method stored in a field): kept as a method call;
                    # the executor accepts it only if the contracts declare the receiver's class and give that method an (assumed) contract
                    mm = m + '__0' if (not args and len(self.arities.get(m, ())) > 1) else m      # a method called with and without arguments: two contracts
                    return _loc(ast.Call(func=ast.Attribute(value=self.expr(o), attr=mm, ctx=ast.Load()),
                                         args=[self.expr(a) for a in args if a['type'] != 'ObjectExpression'] + [ast.Constant(value='{...}') for a in args if a['type'] == 'ObjectExpression'], keywords=[]), e)
                raise Unsupported('method .%s/%d at line %d' % (m, len(args), e['loc']['start']['line']))
            raise Unsupported('call form')
        if t == 'AssignmentExpression':
            raise Unsupported('assignment used as an expression (outside the while-exec idiom)')
        raise Unsupported('expression %s at line %d' % (t, e['loc']['start']['line']))


def translate_file(path, module_name):
    """-> (ast.Module with the translatable top-level functions and regex constants, {function name: reason} for the rest)"""
    tree = estree(path)
    # (function(exports){ ... }(...));  -- the module wrapper idiom: its body is the module
    if (len(tree['body']) == 1 and tree['body'][0]['type'] == 'ExpressionStatement' and tree['body'][0]['expression']['type'] == 'CallExpression'
            and tree['body'][0]['expression']['callee']['type'] == 'FunctionExpression'):
        tree = {'type': 'Program', 'body': tree['body'][0]['expression']['callee']['body']['body']}
    tr = Translator()
    body = []
    skipped = {}
    # names assigned anywhere after their declaration (a module-level string that is never reassigned is a constant)
    assigned = set()

    def walk(x):
        if isinstance(x, dict):
            if x.get('type') == 'AssignmentExpression' and x['left'].get('type') == 'Identifier':
                assigned.add(x['left']['name'])
            if x.get('type') == 'UpdateExpression' and x['argument'].get('type') == 'Identifier':
                assigned.add(x['argument']['name'])
            for v in x.values():
                walk(v)
        elif isinstance(x, list):
            for v in x:
                walk(v)
    walk(tree)

    def walk_calls(x):
        if isinstance(x, dict):
            if x.get('type') == 'CallExpression' and x['callee'].get('type') == 'MemberExpression' and not x['callee'].get('computed'):
                tr.arities.setdefault(x['callee']['property']['name'], set()).add(len(x['arguments']))
            for v in x.values():
                walk_calls(v)
        elif isinstance(x, list):
            for v in x:
                walk_calls(v)
    walk_calls(tree)
    # module-level constants first: string constants and `new RegExp(<string expr>)`
    REQ = {'./csv_utils.js': 'js_csv_utils', './rbql.js': 'js_rbql', './rbql_csv.js': 'js_rbql_csv'}
    for n in tree['body']:
        if n['type'] == 'VariableDeclaration':
            for d in n['declarations']:
                i = d.get('init')
                if (i is not None and i['type'] == 'CallExpression' and i['callee']['type'] == 'Identifier' and i['callee']['name'] == 'require'
                        and len(i['arguments']) == 1 and i['arguments'][0]['type'] == 'Literal' and d['id']['type'] == 'Identifier'):
                    target = REQ.get(i['arguments'][0]['value'], i['arguments'][0]['value'])
                    tr.required[d['id']['name']] = target
                    body.append(_loc(ast.Import(names=[ast.alias(name=target, asname=d['id']['name'])]), n))
    for n in tree['body']:
        if n['type'] == 'VariableDeclaration':
            for d in n['declarations']:
                if d['id'].get('name') in tr.required:
                    continue
                try:
                    if d['init'] is not None and d['init']['type'] == 'NewExpression':
                        tr.module_regexes[d['id']['name']] = (None, tr._regex_flags(d['init']))
                    if d['init'] is not None and d['id']['type'] == 'Identifier' and d['id']['name'] not in assigned and tr._textlike(d['init']):
                        tr.str_consts.add(d['id']['name'])
                    stmts = tr.stmt({'type': 'VariableDeclaration', 'declarations': [d], 'loc': n['loc'], 'kind': n['kind']})
                    body.extend(stmts)
                except Unsupported as e:
                    skipped[d['id'].get('name', '?')] = str(e)
    JS_BUILTIN_METHODS = ('get', 'set', 'has', 'add', 'push', 'pop', 'sort', 'reverse', 'split', 'join', 'replace', 'match', 'exec', 'slice', 'substring',
                          'indexOf', 'charAt', 'concat', 'unshift', 'fill', 'startsWith', 'endsWith', 'toString', 'keys', 'values', 'entries', 'map', 'filter')
    for n in tree['body']:
        if n['type'] == 'ClassDeclaration':
            tr.class_names.add(n['id']['name'])
            for m in n['body']['body']:
                if m['type'] == 'MethodDefinition' and m['kind'] == 'method' and not m.get('computed') and m['key']['name'] not in JS_BUILTIN_METHODS:
                    tr.method_names.add(m['key']['name'])
    for n in tree['body']:
        if n['type'] == 'ClassDeclaration' and n.get('superClass') and n['superClass'].get('name') == 'Error' and not n['body']['body']:
            # class E extends Error {}  ->  class E(Exception): pass
            body.append(_loc(ast.ClassDef(name=n['id']['name'], bases=[ast.Name(id='Exception', ctx=ast.Load())], keywords=[], body=[ast.Pass()], decorator_list=[]), n))
        elif n['type'] == 'ClassDeclaration':
            try:
                node, sk = tr.klass(n, tr.class_names)
                body.append(node)
                skipped.update(sk)
            except Unsupported as e:
                skipped[n['id']['name']] = str(e)
    for n in tree['body']:
        if n['type'] == 'FunctionDeclaration':
            try:
                body.append(tr.function(n))
            except Unsupported as e:
                skipped[n['id']['name']] = str(e)
    mod = ast.Module(body=body, type_ignores=[])
    ast.fix_missing_locations(mod)
    return mod, skipped
