"""JavaScript front end (C18): a mechanical translation of a STATED subset of JavaScript (ESTree from the acorn
that ships inside node) into the Python `ast` that the symbolic executor consumes.  Run on every check from
/repo/rbql-js/*.js; nothing is hand-copied.

Subset and its reading (A-JS, listed in the evidence of every check that uses a translated function):
  function f(a, b=<literal>) {...}          def f(a, b=<literal>): ...
  var/let/const x = e;                      x = e                      (block scoping is ignored: a name declared twice in one
                                                                        function with different meanings is rejected)
  if / else, while, return, expression statements, blocks
  for (let i = a; i < b; i++) body          i = a; while i < b: body; i = i + 1     (body must not `continue`)
  [e1, e2]  (array literal, 2+ elements)    (e1, e2)   tuple; a[0], a[1] index it        (never mutated: checked)
  []                                        []
  a === b, a == b, !==, !=, <, <=, >, >=    ==, !=, ... on operands of the same static type (the executor rejects mixed types)
  a || b, a && b, !a, c ? x : y             or, and, not, x if c else y              (operands Bool: rejected otherwise)
  s.length                                  len(s)
  s[i], s.charAt(i)                         s[i]       with the executor's in-range obligation (JS would give undefined / '')
  s.substring(a) / s.substring(a, b)        s[a:] / s[a:b]    + obligation 0 <= a <= b (JS swaps arguments otherwise)
  s.slice(0, -1)                            s[0:-1]
  s.indexOf(t) / s.indexOf(t, i)            s.find(t) / s.find(t, i)
  s.split(d)                                s.split(d)        (d non-empty: obligation of the Python model)
  s.replace(/lit/g, r)                      s.replace('lit', r)   for a regex literal without metacharacters, flag g
  `...${e}...`                              '...' + e + '...'
  xs.push(e)                                xs.append(e)
  new RegExp(<string expr>[, 'g'])          re.compile(<string expr>)
  r.exec(s)  (r anchored with ^, no g flag) r.match(s, 0)     match object: m[0] -> m.group(0), m[1] -> m.group(1),
                                                              m[0].length -> m.end() - m.start()
  while ((m = r.exec(s)) !== null) body     for m in r.finditer(s): body      (r has the g flag, is local, body does not touch r)
  x !== null / x === null                   x is not None / x is None
  null, true, false, numbers, strings
  for (let x of xs) body                    for x in xs: body
  throw new E(msg)                          raise E(msg)            (class E extends Error {} -> class E(Exception))
  assert(c)                                 assert c
  o.p  (p other than length)                o.p        (records with fixed fields: typed as named tuples in the contracts)
  xs.concat(ys)                             xs + ys    (a new list)
  'text' + (arithmetic with a number)       'text' + str(arithmetic)    (JS number-to-string of an integer)
Anything else raises Unsupported and the function is reported out of subset.
"""
import ast
import json
import os
import subprocess

HERE = os.path.dirname(os.path.abspath(__file__))


class Unsupported(Exception):
    pass


def estree(path):
    out = subprocess.run(['node', '--expose-internals', os.path.join(HERE, 'js', 'dump_ast.js'), path], capture_output=True, text=True, timeout=60)
    if out.returncode != 0:
        raise Unsupported('acorn failed on %s: %s' % (path, out.stderr[-300:]))
    return json.loads(out.stdout)


def _loc(py, js):
    py.lineno = js['loc']['start']['line']
    py.col_offset = js['loc']['start']['column']
    py.end_lineno = js['loc']['end']['line']
    py.end_col_offset = js['loc']['end']['column']
    return py


class Translator(object):
    def __init__(self, module_regexes=None):
        self.module_regexes = module_regexes or {}     # name -> (pattern text or None, global flag)
        self.local_regex = {}
        self.match_vars = set()
        self.tuple_vars = set()

    # ------------------------------------------------------------------ functions
    def function(self, fn):
        if fn.get('async') or fn.get('generator'):
            raise Unsupported('async / generator function')
        self.local_regex = {}
        self.match_vars = set()
        args = []
        defaults = []
        for p in fn['params']:
            if p['type'] == 'Identifier':
                if defaults:
                    raise Unsupported('parameter without default after one with default')
                args.append(ast.arg(arg=p['name']))
            elif p['type'] == 'AssignmentPattern' and p['left']['type'] == 'Identifier':
                args.append(ast.arg(arg=p['left']['name']))
                defaults.append(self.expr(p['right']))
            else:
                raise Unsupported('parameter pattern %s' % p['type'])
        body = self.block(fn['body'])
        node = ast.FunctionDef(name=fn['id']['name'], args=ast.arguments(posonlyargs=[], args=args, vararg=None, kwonlyargs=[], kw_defaults=[], kwarg=None, defaults=defaults),
                               body=body or [ast.Pass()], decorator_list=[], returns=None, type_comment=None)
        _loc(node, fn)
        ast.fix_missing_locations(node)
        return node

    def block(self, b):
        stmts = b['body'] if b['type'] == 'BlockStatement' else [b]
        out = []
        for s in stmts:
            out.extend(self.stmt(s))
        return out

    # ------------------------------------------------------------------ statements
    def stmt(self, s):
        t = s['type']
        if t == 'VariableDeclaration':
            out = []
            for d in s['declarations']:
                if d['id']['type'] != 'Identifier':
                    raise Unsupported('destructuring declaration')
                name = d['id']['name']
                if d['init'] is None:
                    raise Unsupported('declaration without initialiser')
                init = d['init']
                if init['type'] == 'ConditionalExpression' and all(x['type'] == 'NewExpression' for x in (init['consequent'], init['alternate'])):
                    # let r = c ? new RegExp(a, 'g') : new RegExp(b, 'g')
                    ga, gb = self._regex_flags(init['consequent']), self._regex_flags(init['alternate'])
                    if ga != gb:
                        raise Unsupported('regexes with different flags in one variable')
                    self.local_regex[name] = ga
                elif init['type'] == 'NewExpression':
                    self.local_regex[name] = self._regex_flags(init)
                elif init['type'] == 'ConditionalExpression' and all(x['type'] == 'Identifier' and x['name'] in self.module_regexes for x in (init['consequent'], init['alternate'])):
                    self.local_regex[name] = self.module_regexes[init['consequent']['name']][1]
                if init['type'] == 'CallExpression' and self._is_exec(init):
                    self.match_vars.add(name)
                out.append(_loc(ast.Assign(targets=[ast.Name(id=name, ctx=ast.Store())], value=self.expr(init), type_comment=None), s))
            return out
        if t == 'ExpressionStatement':
            e = s['expression']
            if e['type'] == 'AssignmentExpression':
                return [self.assign(e, s)]
            if e['type'] == 'UpdateExpression':
                return [self.update(e, s)]
            if e['type'] == 'CallExpression' and e['callee']['type'] == 'Identifier' and e['callee']['name'] == 'assert' and 1 <= len(e['arguments']) <= 2:
                return [_loc(ast.Assert(test=self.expr(e['arguments'][0]), msg=None), s)]
            return [_loc(ast.Expr(value=self.expr(e)), s)]
        if t == 'ReturnStatement':
            return [_loc(ast.Return(value=None if s['argument'] is None else self.expr(s['argument'])), s)]
        if t == 'IfStatement':
            node = ast.If(test=self.cond(s['test']), body=self.block(s['consequent']) or [ast.Pass()],
                          orelse=[] if s.get('alternate') is None else self.block(s['alternate']))
            return [_loc(node, s)]
        if t == 'WhileStatement':
            test = s['test']
            # while ((m = r.exec(src)) !== null) body   ->   for m in r.finditer(src): body
            if (test['type'] == 'BinaryExpression' and test['operator'] in ('!==', '!=') and test['right']['type'] == 'Literal' and test['right']['value'] is None
                    and test['left']['type'] == 'AssignmentExpression' and test['left']['left']['type'] == 'Identifier' and self._is_exec(test['left']['right'])):
                m = test['left']['left']['name']
                call = test['left']['right']
                rname = call['callee']['object']['name']
                if not self.local_regex.get(rname):
                    raise Unsupported('exec loop over a regex that is not a local regex with the g flag')
                self.match_vars.add(m)
                body = self.block(s['body'])
                for n in ast.walk(ast.Module(body=body, type_ignores=[])):
                    if isinstance(n, ast.Name) and n.id == rname:
                        raise Unsupported('exec loop body touches the regex')
                it = ast.Call(func=ast.Attribute(value=ast.Name(id=rname, ctx=ast.Load()), attr='finditer', ctx=ast.Load()), args=[self.expr(call['arguments'][0])], keywords=[])
                return [_loc(ast.For(target=ast.Name(id=m, ctx=ast.Store()), iter=it, body=body or [ast.Pass()], orelse=[], type_comment=None), s)]
            return [_loc(ast.While(test=self.cond(test), body=self.block(s['body']) or [ast.Pass()], orelse=[]), s)]
        if t == 'ForStatement':
            init, test, upd = s['init'], s['test'], s['update']
            if init is None or test is None or upd is None:
                raise Unsupported('for statement without init/test/update')
            pre = self.stmt(init) if init['type'] == 'VariableDeclaration' else [self.assign(init, s)]
            body = self.block(s['body'])
            for n in ast.walk(ast.Module(body=body, type_ignores=[])):
                if isinstance(n, ast.Continue):
                    raise Unsupported('continue inside a for statement')
            step = self.update(upd, s) if upd['type'] == 'UpdateExpression' else self.assign(upd, s)
            return pre + [_loc(ast.While(test=self.cond(test), body=body + [step], orelse=[]), s)]
        if t == 'ForOfStatement':
            left = s['left']
            if left['type'] == 'VariableDeclaration' and len(left['declarations']) == 1 and left['declarations'][0]['id']['type'] == 'Identifier':
                tgt = ast.Name(id=left['declarations'][0]['id']['name'], ctx=ast.Store())
            elif left['type'] == 'Identifier':
                tgt = ast.Name(id=left['name'], ctx=ast.Store())
            else:
                raise Unsupported('for-of with a destructuring target')
            return [_loc(ast.For(target=tgt, iter=self.expr(s['right']), body=self.block(s['body']) or [ast.Pass()], orelse=[], type_comment=None), s)]
        if t == 'ThrowStatement':
            a = s['argument']
            if a['type'] == 'NewExpression' and a['callee']['type'] == 'Identifier':
                call = ast.Call(func=ast.Name(id=a['callee']['name'], ctx=ast.Load()), args=[self.expr(x) for x in a['arguments']], keywords=[])
                return [_loc(ast.Raise(exc=call, cause=None), s)]
            raise Unsupported('throw of something other than new E(...)')
        if t == 'BlockStatement':
            return self.block(s)
        if t == 'EmptyStatement':
            return []
        raise Unsupported('statement %s at line %d' % (t, s['loc']['start']['line']))

    def assign(self, e, s):
        if e['operator'] == '=':
            tgt = self.lvalue(e['left'])
            if e['right']['type'] == 'CallExpression' and self._is_exec(e['right']) and e['left']['type'] == 'Identifier':
                self.match_vars.add(e['left']['name'])
            return _loc(ast.Assign(targets=[tgt], value=self.expr(e['right']), type_comment=None), s)
        ops = {'+=': ast.Add(), '-=': ast.Sub()}
        if e['operator'] in ops:
            return _loc(ast.AugAssign(target=self.lvalue(e['left']), op=ops[e['operator']], value=self.expr(e['right'])), s)
        raise Unsupported('assignment operator %s' % e['operator'])

    def update(self, e, s):
        if e['argument']['type'] != 'Identifier':
            raise Unsupported('update of a non-variable')
        op = ast.Add() if e['operator'] == '++' else ast.Sub()
        return _loc(ast.AugAssign(target=ast.Name(id=e['argument']['name'], ctx=ast.Store()), op=op, value=ast.Constant(value=1)), s)

    def lvalue(self, e):
        if e['type'] == 'Identifier':
            return ast.Name(id=e['name'], ctx=ast.Store())
        if e['type'] == 'MemberExpression' and e['computed']:
            return ast.Subscript(value=self.expr(e['object']), slice=self.expr(e['property']), ctx=ast.Store())
        raise Unsupported('assignment target %s' % e['type'])

    # ------------------------------------------------------------------ expressions
    def cond(self, e):
        return self.expr(e)

    def _is_exec(self, e):
        return (e['type'] == 'CallExpression' and e['callee']['type'] == 'MemberExpression' and not e['callee']['computed']
                and e['callee']['property']['name'] == 'exec' and e['callee']['object']['type'] == 'Identifier')

    def _regex_flags(self, new):
        if new['callee']['type'] != 'Identifier' or new['callee']['name'] != 'RegExp':
            raise Unsupported('new %s' % new['callee'].get('name'))
        if len(new['arguments']) == 1:
            return False
        f = new['arguments'][1]
        if f['type'] == 'Literal' and f['value'] == 'g':
            return True
        raise Unsupported('regex flags')

    def expr(self, e):
        t = e['type']
        if t == 'Identifier':
            if e['name'] == 'undefined':
                raise Unsupported('undefined')
            return _loc(ast.Name(id=e['name'], ctx=ast.Load()), e)
        if t == 'Literal':
            if 'regex' in e:
                raise Unsupported('regex literal outside replace()')
            v = e['value']
            if isinstance(v, float) and v == int(v):
                v = int(v)
            return _loc(ast.Constant(value=v), e)
        if t == 'TemplateLiteral':
            parts = []
            for i, q in enumerate(e['quasis']):
                if q['value']['cooked']:
                    parts.append(ast.Constant(value=q['value']['cooked']))
                if i < len(e['expressions']):
                    parts.append(self.expr(e['expressions'][i]))
            if not parts:
                return ast.Constant(value='')
            r = parts[0]
            for p in parts[1:]:
                r = ast.BinOp(left=r, op=ast.Add(), right=p)
            return _loc(r, e)
        if t == 'ArrayExpression':
            elts = [self.expr(x) for x in e['elements']]
            if len(elts) == 0:
                return _loc(ast.List(elts=[], ctx=ast.Load()), e)
            if len(elts) == 1:
                return _loc(ast.List(elts=elts, ctx=ast.Load()), e)
            return _loc(ast.Tuple(elts=elts, ctx=ast.Load()), e)
        if t == 'UnaryExpression':
            if e['operator'] == '!':
                return _loc(ast.UnaryOp(op=ast.Not(), operand=self.expr(e['argument'])), e)
            if e['operator'] == '-':
                return _loc(ast.UnaryOp(op=ast.USub(), operand=self.expr(e['argument'])), e)
            raise Unsupported('unary %s' % e['operator'])
        if t == 'LogicalExpression':
            op = {'||': ast.Or(), '&&': ast.And()}.get(e['operator'])
            if op is None:
                raise Unsupported('logical %s' % e['operator'])
            return _loc(ast.BoolOp(op=op, values=[self.expr(e['left']), self.expr(e['right'])]), e)
        if t == 'ConditionalExpression':
            return _loc(ast.IfExp(test=self.expr(e['test']), body=self.expr(e['consequent']), orelse=self.expr(e['alternate'])), e)
        if t == 'BinaryExpression':
            o = e['operator']
            l, r = e['left'], e['right']
            if o in ('===', '==', '!==', '!='):
                isnull = lambda x: x['type'] == 'Literal' and x['value'] is None and 'regex' not in x
                if isnull(r) or isnull(l):
                    other = l if isnull(r) else r
                    op = ast.Is() if o in ('===', '==') else ast.IsNot()
                    return _loc(ast.Compare(left=self.expr(other), ops=[op], comparators=[ast.Constant(value=None)]), e)
                op = ast.Eq() if o in ('===', '==') else ast.NotEq()
                return _loc(ast.Compare(left=self.expr(l), ops=[op], comparators=[self.expr(r)]), e)
            cmp = {'<': ast.Lt(), '<=': ast.LtE(), '>': ast.Gt(), '>=': ast.GtE()}
            if o in cmp:
                return _loc(ast.Compare(left=self.expr(l), ops=[cmp[o]], comparators=[self.expr(r)]), e)
            ar = {'+': ast.Add(), '-': ast.Sub(), '*': ast.Mult()}
            if o == '+':
                is_text = lambda x: (x['type'] == 'Literal' and isinstance(x.get('value'), str)) or x['type'] == 'TemplateLiteral'

                def is_arith(x):
                    if x['type'] != 'BinaryExpression' or x['operator'] not in ('+', '-', '*'):
                        return False
                    has_num = lambda y: (y['type'] == 'Literal' and isinstance(y.get('value'), (int, float)) and not isinstance(y.get('value'), bool)) or (y['type'] == 'BinaryExpression' and (has_num(y['left']) or has_num(y['right'])))
                    return has_num(x) and not is_text(x['left']) and not is_text(x['right'])
                if is_text(l) and is_arith(r):
                    return _loc(ast.BinOp(left=self.expr(l), op=ast.Add(), right=ast.Call(func=ast.Name(id='str', ctx=ast.Load()), args=[self.expr(r)], keywords=[])), e)
                if is_text(r) and is_arith(l):
                    return _loc(ast.BinOp(left=ast.Call(func=ast.Name(id='str', ctx=ast.Load()), args=[self.expr(l)], keywords=[]), op=ast.Add(), right=self.expr(r)), e)
            if o in ar:
                return _loc(ast.BinOp(left=self.expr(l), op=ar[o], right=self.expr(r)), e)
            raise Unsupported('binary %s' % o)
        if t == 'NewExpression':
            self._regex_flags(e)
            return _loc(ast.Call(func=ast.Attribute(value=ast.Name(id='re', ctx=ast.Load()), attr='compile', ctx=ast.Load()), args=[self.expr(e['arguments'][0])], keywords=[]), e)
        if t == 'MemberExpression':
            obj = e['object']
            if not e['computed']:
                name = e['property']['name']
                if name == 'length':
                    # m[0].length of a match object -> m.end() - m.start()
                    if obj['type'] == 'MemberExpression' and obj['computed'] and obj['object']['type'] == 'Identifier' and obj['object']['name'] in self.match_vars \
                            and obj['property']['type'] == 'Literal' and obj['property']['value'] == 0:
                        m = obj['object']['name']
                        call = lambda a: ast.Call(func=ast.Attribute(value=ast.Name(id=m, ctx=ast.Load()), attr=a, ctx=ast.Load()), args=[], keywords=[])
                        return _loc(ast.BinOp(left=call('end'), op=ast.Sub(), right=call('start')), e)
                    return _loc(ast.Call(func=ast.Name(id='len', ctx=ast.Load()), args=[self.expr(obj)], keywords=[]), e)
                if obj['type'] == 'Identifier' and obj['name'] not in self.match_vars and name not in ('prototype', 'constructor', '__proto__'):
                    return _loc(ast.Attribute(value=self.expr(obj), attr=name, ctx=ast.Load()), e)
                raise Unsupported('property .%s' % name)
            if obj['type'] == 'Identifier' and obj['name'] in self.match_vars:
                if e['property']['type'] == 'Literal' and e['property']['value'] in (0, 1):
                    return _loc(ast.Call(func=ast.Attribute(value=ast.Name(id=obj['name'], ctx=ast.Load()), attr='group', ctx=ast.Load()),
                                         args=[ast.Constant(value=int(e['property']['value']))], keywords=[]), e)
                raise Unsupported('match object index')
            return _loc(ast.Subscript(value=self.expr(obj), slice=self.expr(e['property']), ctx=ast.Load()), e)
        if t == 'CallExpression':
            c = e['callee']
            args = e['arguments']
            if c['type'] == 'Identifier':
                return _loc(ast.Call(func=ast.Name(id=c['name'], ctx=ast.Load()), args=[self.expr(a) for a in args], keywords=[]), e)
            if c['type'] == 'MemberExpression' and not c['computed']:
                m = c['property']['name']
                o = c['object']
                if m == 'exec' and o['type'] == 'Identifier':
                    glob = self.local_regex.get(o['name'], self.module_regexes.get(o['name'], (None, None))[1] if o['name'] in self.module_regexes else None)
                    if glob:
                        raise Unsupported('exec on a regex with the g flag outside the while-exec idiom')
                    return _loc(ast.Call(func=ast.Attribute(value=ast.Name(id=o['name'], ctx=ast.Load()), attr='match', ctx=ast.Load()),
                                         args=[self.expr(args[0]), ast.Constant(value=0)], keywords=[]), e)
                if m == 'concat' and len(args) == 1:
                    return _loc(ast.BinOp(left=self.expr(o), op=ast.Add(), right=self.expr(args[0])), e)
                if m == 'push' and len(args) == 1:
                    return _loc(ast.Call(func=ast.Attribute(value=self.expr(o), attr='append', ctx=ast.Load()), args=[self.expr(args[0])], keywords=[]), e)
                if m == 'indexOf' and len(args) in (1, 2):
                    return _loc(ast.Call(func=ast.Attribute(value=self.expr(o), attr='find', ctx=ast.Load()), args=[self.expr(a) for a in args], keywords=[]), e)
                if m == 'split' and len(args) == 1 and 'regex' not in args[0]:
                    return _loc(ast.Call(func=ast.Attribute(value=self.expr(o), attr='split', ctx=ast.Load()), args=[self.expr(args[0])], keywords=[]), e)
                if m == 'charAt' and len(args) == 1:
                    return _loc(ast.Subscript(value=self.expr(o), slice=self.expr(args[0]), ctx=ast.Load()), e)
                if m == 'substring' and len(args) in (1, 2):
                    lo = self.expr(args[0])
                    hi = self.expr(args[1]) if len(args) == 2 else None
                    return _loc(ast.Subscript(value=self.expr(o), slice=ast.Slice(lower=lo, upper=hi, step=None), ctx=ast.Load()), e)
                if m == 'slice' and len(args) == 2:
                    return _loc(ast.Subscript(value=self.expr(o), slice=ast.Slice(lower=self.expr(args[0]), upper=self.expr(args[1]), step=None), ctx=ast.Load()), e)
                if m == 'replace' and len(args) == 2 and 'regex' in args[0]:
                    rx = args[0]['regex']
                    if rx['flags'] != 'g' or any(ch in rx['pattern'] for ch in '\\^$.|?*+()[]{}'):
                        raise Unsupported('replace with a regex that is not a plain global literal')
                    return _loc(ast.Call(func=ast.Attribute(value=self.expr(o), attr='replace', ctx=ast.Load()),
                                         args=[ast.Constant(value=rx['pattern']), self.expr(args[1])], keywords=[]), e)
                raise Unsupported('method .%s/%d at line %d' % (m, len(args), e['loc']['start']['line']))
            raise Unsupported('call form')
        if t == 'AssignmentExpression':
            raise Unsupported('assignment used as an expression (outside the while-exec idiom)')
        raise Unsupported('expression %s at line %d' % (t, e['loc']['start']['line']))


def translate_file(path, module_name):
    """-> (ast.Module with the translatable top-level functions and regex constants, {function name: reason} for the rest)"""
    tree = estree(path)
    # (function(exports){ ... }(...));  -- the module wrapper idiom: its body is the module
    if (len(tree['body']) == 1 and tree['body'][0]['type'] == 'ExpressionStatement' and tree['body'][0]['expression']['type'] == 'CallExpression'
            and tree['body'][0]['expression']['callee']['type'] == 'FunctionExpression'):
        tree = {'type': 'Program', 'body': tree['body'][0]['expression']['callee']['body']['body']}
    tr = Translator()
    body = []
    skipped = {}
    # module-level constants first: string constants and `new RegExp(<string expr>)`
    for n in tree['body']:
        if n['type'] == 'VariableDeclaration':
            for d in n['declarations']:
                try:
                    if d['init'] is not None and d['init']['type'] == 'NewExpression':
                        tr.module_regexes[d['id']['name']] = (None, tr._regex_flags(d['init']))
                    stmts = tr.stmt({'type': 'VariableDeclaration', 'declarations': [d], 'loc': n['loc'], 'kind': n['kind']})
                    body.extend(stmts)
                except Unsupported as e:
                    skipped[d['id'].get('name', '?')] = str(e)
    for n in tree['body']:
        if n['type'] == 'ClassDeclaration' and n.get('superClass') and n['superClass'].get('name') == 'Error' and not n['body']['body']:
            # class E extends Error {}  ->  class E(Exception): pass
            body.append(_loc(ast.ClassDef(name=n['id']['name'], bases=[ast.Name(id='Exception', ctx=ast.Load())], keywords=[], body=[ast.Pass()], decorator_list=[]), n))
    for n in tree['body']:
        if n['type'] == 'FunctionDeclaration':
            try:
                body.append(tr.function(n))
            except Unsupported as e:
                skipped[n['id']['name']] = str(e)
    mod = ast.Module(body=body, type_ignores=[])
    ast.fix_missing_locations(mod)
    return mod, skipped
