"""Names used by spec files when they are *executed* (replay / bounded jobs).  Contract files are
only parsed.  Spec files use `from __future__ import annotations`, so type names are never evaluated."""


def spec(f=None, **kw):
    if f is None:
        return lambda g: g
    return f


lemma = spec
pred = spec


def namedtuple_types(*a, **kw):
    return None


def classdef(*a, **kw):
    return None
