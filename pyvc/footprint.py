"""Footprint (frame) obligations for query isolation (C16) -- DESIGN 5/C16 `C16.frame.module`.

For EVERY function of the modules (re-read from /repo on every run) the obligation is: the function writes only to
locals, to objects reachable from its parameters, or to fresh objects -- never to state that outlives the call and is
shared between queries.  Python has exactly these kinds of such state, and each becomes one named obligation per
function (or per module for the inventory clauses):

  global_rebind     no `global`/`nonlocal`-to-module rebinding, except ALLOWED_GLOBALS (debug_mode in set_debug_mode)
  store_through     no `X[...] = v`, `X.attr = v`, `del X[...]`, `X[...] += v`, `X.attr += v` where X is a module-level
                    name (module object, function, class, constant container) that is not shadowed by a local/parameter
  mutator_call      no call of a mutating method (append, extend, remove, ...) directly on a module-level container
  escape            a module-level MUTABLE container is only used in ways that cannot lead to its mutation:
                    copied (`X[:]`, list(X), dict(X), set(X), sorted(X), X.copy()), iterated, tested (`in`), measured,
                    indexed / .get()-ed when its elements are immutable, joined, or passed to re/str builtins
  mutable_default   no parameter whose default value is a mutable object is mutated or escapes
  class_attr        no class-body attribute holds a mutable container that methods mutate; no `Class.attr = v` stores
  dynamic           no globals()/setattr()/vars()/__dict__/sys.modules/importlib use that could write module state
                    (exec is allowed only in ALLOWED_EXEC with the A-EXEC assumption)

The obligations are decided syntactically over the AST with a conservative name resolution (a name is module-level
unless the function binds it: parameters, assignment/for/with/except/comprehension/import targets).  A discharged
obligation is a proof of the stated frame condition under A-PY-NAMES: name resolution is Python's static scoping and
no code outside the five modules rebinds their globals.  Separation implies isolation (not the converse): see DESIGN.
"""
import ast

MUTATORS = set(['append', 'extend', 'insert', 'remove', 'pop', 'clear', 'sort', 'reverse', 'update', 'add', 'discard',
                'setdefault', 'popitem', '__setitem__', '__delitem__', 'appendleft', 'popleft', 'difference_update',
                'intersection_update', 'symmetric_difference_update'])
COPIERS = set(['list', 'dict', 'set', 'tuple', 'sorted', 'frozenset', 'len', 'enumerate', 'reversed', 'min', 'max', 'sum', 'any', 'all', 'str', 'repr', 'iter', 'zip'])
ALLOWED_GLOBALS = {('rbql_engine.set_debug_mode', 'debug_mode'), ('rbql_csv.set_debug_mode', 'debug_mode')}
ALLOWED_EXEC = {'rbql_engine.compile_and_run', 'rbql_engine.exec_user_init_code'}
DYNAMIC_NAMES = set(['globals', 'setattr', 'delattr', 'vars', '__import__'])


def _is_mutable_value(node):
    """does this module-level initialiser build a mutable container?"""
    if isinstance(node, (ast.List, ast.Dict, ast.Set, ast.ListComp, ast.DictComp, ast.SetComp)):
        return True
    if isinstance(node, ast.Call):
        f = node.func
        name = f.id if isinstance(f, ast.Name) else (f.attr if isinstance(f, ast.Attribute) else None)
        if name in ('list', 'dict', 'set', 'defaultdict', 'OrderedDict', 'deque', 'bytearray', 'Counter'):
            return True
    if isinstance(node, ast.BinOp):
        return _is_mutable_value(node.left) or _is_mutable_value(node.right)
    return False


IMMUTABLE_CALLS = set(['tuple', 'frozenset', 'str', 'int', 'float', 'bool', 'bytes', 'compile', 'namedtuple', 'object'])


def _is_shared_default(node):
    """a default argument value evaluated once at definition time that is (or may be) a mutable object: containers and
    instances built by any constructor call other than the known immutable ones"""
    if _is_mutable_value(node):
        return True
    if isinstance(node, ast.Call):
        f = node.func
        name = f.id if isinstance(f, ast.Name) else (f.attr if isinstance(f, ast.Attribute) else None)
        return name not in IMMUTABLE_CALLS
    return False


def _elements_immutable(node):
    """elements (list) / values (dict) of a literal container are all immutable constants or tuples of them"""
    def imm(n):
        if isinstance(n, ast.Constant):
            return True
        if isinstance(n, ast.Name):
            return True          # a name of a module constant (checked to be immutable by the inventory when it is a container)
        if isinstance(n, ast.Tuple):
            return all(imm(e) for e in n.elts)
        if isinstance(n, ast.Attribute):
            return True          # e.g. re.IGNORECASE / class references
        if isinstance(n, ast.BinOp):
            return imm(n.left) and imm(n.right)
        return False
    if isinstance(node, (ast.List, ast.Set)):
        return all(imm(e) for e in node.elts)
    if isinstance(node, ast.Dict):
        return all(imm(v) for v in node.values)
    return False


class ModuleFacts(object):
    def __init__(self, mi):
        self.name = mi.name
        self.level_names = set()       # every name bound at module level
        self.mutable = {}              # name -> initialiser node (module-level mutable containers)
        self.classes = {}              # class name -> {attr: node} for class-body mutable attributes
        for node in self._walk_toplevel(mi.tree.body):
            if isinstance(node, (ast.FunctionDef, ast.ClassDef)):
                self.level_names.add(node.name)
                if isinstance(node, ast.ClassDef):
                    attrs = {}
                    for s in node.body:
                        if isinstance(s, ast.Assign):
                            for t in s.targets:
                                if isinstance(t, ast.Name) and _is_mutable_value(s.value):
                                    attrs[t.id] = s.value
                    self.classes[node.name] = attrs
            elif isinstance(node, (ast.Import, ast.ImportFrom)):
                for a in node.names:
                    self.level_names.add((a.asname or a.name).split('.')[0])
            elif isinstance(node, (ast.Assign, ast.AugAssign, ast.AnnAssign)):
                targets = node.targets if isinstance(node, ast.Assign) else [node.target]
                for t in targets:
                    for n in ast.walk(t):
                        if isinstance(n, ast.Name):
                            self.level_names.add(n.id)
                            if isinstance(node, ast.Assign) and node.value is not None and _is_mutable_value(node.value):
                                self.mutable[n.id] = node.value

    def _walk_toplevel(self, body):
        for node in body:
            yield node
            if isinstance(node, (ast.If, ast.Try, ast.With, ast.For, ast.While)):
                for fld in ('body', 'orelse', 'finalbody'):
                    for x in self._walk_toplevel(getattr(node, fld, []) or []):
                        yield x
                for h in getattr(node, 'handlers', []) or []:
                    for x in self._walk_toplevel(h.body):
                        yield x


def _bound_names(fn):
    """names the function binds itself (so they are NOT module-level inside it), not descending into nested defs"""
    out = set()
    args = fn.args
    for a in list(args.args) + list(args.kwonlyargs) + list(getattr(args, 'posonlyargs', [])):
        out.add(a.arg)
    if args.vararg:
        out.add(args.vararg.arg)
    if args.kwarg:
        out.add(args.kwarg.arg)
    declared_global = set()
    stack = list(fn.body)
    while stack:
        n = stack.pop()
        if isinstance(n, (ast.FunctionDef, ast.ClassDef)):
            out.add(n.name)
            continue
        if isinstance(n, ast.Lambda):
            continue
        if isinstance(n, ast.Global):
            declared_global.update(n.names)
        if isinstance(n, ast.Name) and isinstance(n.ctx, (ast.Store, ast.Del)):
            out.add(n.id)
        if isinstance(n, ast.ExceptHandler) and n.name:
            out.add(n.name)
        if isinstance(n, (ast.Import, ast.ImportFrom)):
            for a in n.names:
                out.add((a.asname or a.name).split('.')[0])
        stack.extend(ast.iter_child_nodes(n))
    return out - declared_global, declared_global


def _own_nodes(fn):
    """all nodes of the function body, not descending into nested function/class definitions (they are functions of
    their own and get their own obligations); lambdas are included (they cannot bind names other than their params)"""
    stack = list(fn.body)
    while stack:
        n = stack.pop()
        yield n
        if isinstance(n, (ast.FunctionDef, ast.ClassDef)):
            continue
        stack.extend(ast.iter_child_nodes(n))


def _root_name(node):
    """X for X[...]...[...] / X.attr.attr chains"""
    while isinstance(node, (ast.Subscript, ast.Attribute)):
        node = node.value
    return node.id if isinstance(node, ast.Name) else None


def analyze(program, modules=None):
    """-> list of obligations: dict(name, function, status 'discharged'|'refuted', lines, note)"""
    obs = []
    facts = dict((m, ModuleFacts(mi)) for m, mi in program.modules.items())
    for q in sorted(program.functions):
        mi, fn, parent = program.functions[q]
        if modules and mi.name not in modules:
            continue
        mf = facts[mi.name]
        bound, declared_global = _bound_names(fn)
        # names bound by enclosing functions are locals of those (closures): not module-level either
        p = parent
        while p is not None:
            pb, _ = _bound_names(program.functions[p][1])
            bound = bound | pb
            p = program.functions[p][2]
        def is_module_level(name):
            return name not in bound and name in mf.level_names
        found = dict((k, []) for k in ('global_rebind', 'store_through', 'mutator_call', 'escape', 'mutable_default', 'class_attr', 'dynamic'))
        # global_rebind
        for g in sorted(declared_global):
            if (q, g) not in ALLOWED_GLOBALS:
                found['global_rebind'].append((fn.lineno, 'declares `global %s`' % g))
        # parents map for context classification
        parents = {}
        for n in _own_nodes(fn):
            for c in ast.iter_child_nodes(n):
                parents[id(c)] = n
        mutable_defaults = {}
        posargs = list(getattr(fn.args, 'posonlyargs', [])) + list(fn.args.args)
        for a, d in zip(posargs[len(posargs) - len(fn.args.defaults):], fn.args.defaults):
            if _is_shared_default(d):
                mutable_defaults[a.arg] = d
        for a, d in zip(fn.args.kwonlyargs, fn.args.kw_defaults):
            if d is not None and _is_shared_default(d):
                mutable_defaults[a.arg] = d
        for n in _own_nodes(fn):
            # stores / deletes through a module-level name
            tgt_nodes = []
            if isinstance(n, ast.Assign):
                tgt_nodes = list(n.targets)
            elif isinstance(n, (ast.AugAssign, ast.AnnAssign)):
                tgt_nodes = [n.target]
            elif isinstance(n, ast.Delete):
                tgt_nodes = list(n.targets)
            elif isinstance(n, (ast.For, ast.AsyncFor)):
                tgt_nodes = [n.target]
            for t in tgt_nodes:
                for sub in ([t] if not isinstance(t, (ast.Tuple, ast.List)) else list(ast.walk(t))):
                    if isinstance(sub, (ast.Subscript, ast.Attribute)):
                        r = _root_name(sub)
                        if r is not None and is_module_level(r):
                            found['store_through'].append((n.lineno, 'stores through module-level name `%s`' % r))
                        if r in mutable_defaults:
                            found['mutable_default'].append((n.lineno, 'stores into parameter `%s` whose default is a shared mutable object' % r))
                        # Class.attr = v on a class of this module
                        if isinstance(sub, ast.Attribute) and isinstance(sub.value, ast.Name) and sub.value.id in mf.classes and sub.value.id not in bound:
                            found['class_attr'].append((n.lineno, 'stores to class attribute %s.%s' % (sub.value.id, sub.attr)))
                        # self.X[...] = v / self.X.y = v where X is a class-body container never rebound per instance
                        inner = sub.value
                        while isinstance(inner, (ast.Subscript, ast.Attribute)) and not (isinstance(inner, ast.Attribute) and isinstance(inner.value, ast.Name)):
                            inner = inner.value
                        if isinstance(inner, ast.Attribute) and isinstance(inner.value, ast.Name) and inner.value.id in ('self', 'cls'):
                            for cname, attrs in mf.classes.items():
                                if inner.attr in attrs and q.startswith('%s.%s.' % (mi.name, cname)) and not _instance_rebinds(program, mi.name, cname, inner.attr):
                                    found['class_attr'].append((n.lineno, 'stores into class-level container %s.%s shared by all instances' % (cname, inner.attr)))
            if isinstance(n, ast.Call):
                f = n.func
                # mutating method called directly on a module-level object / mutable-default parameter / class attribute
                if isinstance(f, ast.Attribute) and f.attr in MUTATORS:
                    r = _root_name(f.value)
                    if r is not None and is_module_level(r) and (r in mf.mutable or isinstance(f.value, (ast.Subscript, ast.Attribute))):
                        found['mutator_call'].append((n.lineno, 'calls .%s() on module-level object `%s`' % (f.attr, r)))
                    if r in mutable_defaults and isinstance(f.value, ast.Name):
                        found['mutable_default'].append((n.lineno, 'calls .%s() on parameter `%s` whose default is a shared mutable object' % (f.attr, r)))
                    # self.X.append where X is a class-body mutable attribute that is never rebound per instance
                    if isinstance(f.value, ast.Attribute) and isinstance(f.value.value, ast.Name) and f.value.value.id in ('self', 'cls'):
                        for cname, attrs in mf.classes.items():
                            if f.value.attr in attrs and q.startswith('%s.%s.' % (mi.name, cname)):
                                if not _instance_rebinds(program, mi.name, cname, f.value.attr):
                                    found['class_attr'].append((n.lineno, 'mutates class-level container %s.%s shared by all instances' % (cname, f.value.attr)))
                # dynamic access to module state
                if isinstance(f, ast.Name) and f.id in DYNAMIC_NAMES and f.id not in bound:
                    if not (f.id == 'globals' and q in ALLOWED_EXEC):
                        found['dynamic'].append((n.lineno, 'calls %s()' % f.id))
                if isinstance(f, ast.Name) and f.id in ('exec', 'eval') and f.id not in bound and q not in ALLOWED_EXEC:
                    found['dynamic'].append((n.lineno, 'calls %s() outside the functions covered by A-EXEC' % f.id))
            if isinstance(n, ast.Attribute) and n.attr in ('__dict__', 'modules') and not (n.attr == 'modules' and _root_name(n) != 'sys'):
                found['dynamic'].append((n.lineno, 'touches .%s' % n.attr))
            # escape of a module-level mutable container
            if isinstance(n, ast.Name) and isinstance(n.ctx, ast.Load) and (n.id in mf.mutable and is_module_level(n.id) or n.id in mutable_defaults):
                par = parents.get(id(n))
                ok = _use_is_harmless(n, par, parents, mf.mutable.get(n.id) if n.id in mf.mutable else mutable_defaults.get(n.id))
                if not ok:
                    kind = 'escape' if n.id in mf.mutable and is_module_level(n.id) else 'mutable_default'
                    found[kind].append((n.lineno, 'shared mutable object `%s` is used in a way that may let it be modified or retained' % n.id))
        for kind in sorted(found):
            items = found[kind]
            obs.append({'name': 'C16.footprint.%s.%s' % (q, kind), 'function': q, 'kind': 'footprint',
                        'status': 'refuted' if items else 'discharged', 'lines': sorted(set(l for l, _ in items)) or [fn.lineno],
                        'note': '; '.join('line %d: %s' % it for it in items)})
    # module inventory: the complete list of module-level mutable containers is reported (evidence), and each must have
    # immutable elements if it is ever indexed
    for m, mf in sorted(facts.items()):
        if modules and m not in modules:
            continue
        obs.append({'name': 'C16.footprint.%s.<module>.inventory' % m, 'function': m, 'kind': 'footprint', 'status': 'discharged',
                    'lines': [1], 'note': 'module-level mutable containers: %s' % (', '.join(sorted(mf.mutable)) or 'none')})
    return obs


def _instance_rebinds(program, module, cname, attr):
    """does __init__ (or any method) assign self.<attr> = ..., giving each instance its own object?"""
    q = '%s.%s.__init__' % (module, cname)
    if q not in program.functions:
        return False
    for n in ast.walk(program.functions[q][1]):
        if isinstance(n, ast.Assign):
            for t in n.targets:
                if isinstance(t, ast.Attribute) and t.attr == attr and isinstance(t.value, ast.Name) and t.value.id == 'self':
                    return True
    return False


def _use_is_harmless(name_node, par, parents, init):
    """classify the syntactic context of a load of a shared mutable container"""
    if par is None:
        return False
    # X[:]  (copy)  /  X[k] load with immutable elements
    if isinstance(par, ast.Subscript) and par.value is name_node and isinstance(par.ctx, ast.Load):
        if isinstance(par.slice, ast.Slice):
            return True
        return init is not None and _elements_immutable(init)
    # for v in X / comprehension over X
    if isinstance(par, (ast.For, ast.comprehension)) and par.iter is name_node:
        return init is not None and _elements_immutable(init)
    # k in X / k not in X
    if isinstance(par, ast.Compare) and name_node in par.comparators and all(isinstance(o, (ast.In, ast.NotIn)) for o in par.ops):
        return True
    # list(X), len(X), sorted(X), '|'.join(X) ...
    if isinstance(par, ast.Call) and name_node in par.args:
        f = par.func
        if isinstance(f, ast.Name) and f.id in COPIERS:
            return True
        if isinstance(f, ast.Attribute) and f.attr == 'join':
            return True
        return False
    # X.get(k) / X.items() / X.keys() / X.values() / X.copy() / X.index(v) / X.count(v) with immutable elements
    if isinstance(par, ast.Attribute) and par.value is name_node:
        if par.attr in ('copy', 'index', 'count', 'keys'):
            return True
        if par.attr in ('get', 'items', 'values'):
            return init is not None and _elements_immutable(init)
        return False
    # X + [...] builds a new list
    if isinstance(par, ast.BinOp) and isinstance(par.op, ast.Add):
        return init is not None and _elements_immutable(init)
    return False


# ---------------------------------------------------------------------------------------------------------------------
# Source-frame obligations of the front-end adapters (C06): a function of rbql_pandas / rbql_sqlite never writes THROUGH a
# handle to a caller-owned source (dataframe, connection, table): no `h.attr = v`, `h[...] = v`, `del h[...]`, `h.attr += v`,
# no call of a mutating method on h, no pandas call with inplace=True on h.  Handles are: every parameter other than self,
# `self.<f>` for every field that some method assigns directly from a parameter, and a local bound directly to a handle.
# Every flagged statement is a definite write to the source object (deny-list), so a refutation is never a guess; what the
# rule cannot see is a write inside a library call (A-DEP: pandas / sqlite3 read paths do not modify their object).
SOURCE_ADAPTER_MODULES = ('rbql_pandas', 'rbql_sqlite')
PANDAS_MUTATORS = set(['drop_duplicates', 'dropna', 'fillna', 'rename', 'reset_index', 'set_index', 'sort_values', 'sort_index', 'replace',
                       'drop', 'set_axis', 'rename_axis', 'interpolate', 'clip', 'where', 'mask', 'eval', 'query'])      # mutate only with inplace=True
DEFINITE_MUTATORS = MUTATORS | set(['insert', 'update', 'commit', 'rollback', 'executescript', 'executemany', 'create_function', 'set_trace_callback'])


def source_frames(program, modules=SOURCE_ADAPTER_MODULES):
    obs = []
    for m in modules:
        mi = program.modules.get(m)
        if mi is None:
            continue
        # fields assigned directly from a parameter anywhere in the class: self.f = <param>
        handle_fields = {}
        for q in sorted(program.functions):
            fmi, fn, parent = program.functions[q]
            if fmi.name != m:
                continue
            params = set(a.arg for a in list(getattr(fn.args, 'posonlyargs', [])) + list(fn.args.args) + list(fn.args.kwonlyargs)) - set(['self'])
            cls = q.rsplit('.', 1)[0]
            for n in _own_nodes(fn):
                if isinstance(n, ast.Assign) and isinstance(n.value, ast.Name) and n.value.id in params:
                    for t in n.targets:
                        if isinstance(t, ast.Attribute) and isinstance(t.value, ast.Name) and t.value.id == 'self':
                            handle_fields.setdefault(cls, set()).add(t.attr)
        for q in sorted(program.functions):
            fmi, fn, parent = program.functions[q]
            if fmi.name != m:
                continue
            cls = q.rsplit('.', 1)[0]
            params = set(a.arg for a in list(getattr(fn.args, 'posonlyargs', [])) + list(fn.args.args) + list(fn.args.kwonlyargs)) - set(['self'])
            fields = handle_fields.get(cls, set())
            aliases = set()

            def is_handle(e):
                if isinstance(e, ast.Name):
                    return e.id in params or e.id in aliases
                if isinstance(e, ast.Attribute) and isinstance(e.value, ast.Name) and e.value.id == 'self':
                    return e.attr in fields
                return False
            nodes = list(_own_nodes(fn))
            for n in nodes:         # locals bound directly to a handle
                if isinstance(n, ast.Assign) and is_handle(n.value):
                    for t in n.targets:
                        if isinstance(t, ast.Name):
                            aliases.add(t.id)
            found = []
            for n in nodes:
                targets = []
                if isinstance(n, ast.Assign):
                    targets = n.targets
                elif isinstance(n, (ast.AugAssign, ast.AnnAssign)):
                    targets = [n.target]
                elif isinstance(n, ast.Delete):
                    targets = n.targets
                for t in targets:
                    for tt in (t.elts if isinstance(t, (ast.Tuple, ast.List)) else [t]):
                        if isinstance(tt, (ast.Attribute, ast.Subscript)) and is_handle(tt.value):
                            if isinstance(tt.value, ast.Name) and tt.value.id == 'self':
                                continue
                            found.append((n.lineno, 'stores through the source handle `%s`' % ast.unparse(tt)))
                if isinstance(n, ast.Call) and isinstance(n.func, ast.Attribute) and is_handle(n.func.value):
                    meth = n.func.attr
                    inplace = any(kw.arg == 'inplace' and not (isinstance(kw.value, ast.Constant) and kw.value.value is False) for kw in n.keywords)
                    if meth in DEFINITE_MUTATORS or (meth in PANDAS_MUTATORS and inplace) or inplace:
                        found.append((n.lineno, 'calls the mutating method `%s` on a source handle' % ast.unparse(n.func)))
            loc = [fn.lineno, fn.end_lineno]
            obs.append({'name': 'C06.source_frame.%s' % q, 'function': q, 'status': 'refuted' if found else 'discharged', 'lines': loc,
                        'note': '; '.join('line %d: %s' % f for f in found) if found else 'no store, delete, augmented store or mutating call through a parameter, a field holding one, or a local alias of one'})
    return obs
