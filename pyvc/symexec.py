"""PyVC symbolic executor: forward symbolic execution of the real Python AST, one path at a time
(path enumeration by a decision script, DFS), loops cut at invariants, calls by contract.

Outcome signalling uses Python exceptions: PyExc (a symbolic Python exception), _Return, _Break,
_Continue, PathEnd (path abandoned: infeasible or finished at a loop back-edge).
Unsupported constructs raise OutOfSubset (the function becomes UNDECIDED, never skipped silently).
"""
import ast
import itertools
from . import smt, ptypes
from .smt import (INT, BOOL, STR, REAL, SeqS, ArrS, Var, BVar, IntC, BoolC, StrC, RealC, App, And, Or, Not, Ite, Eq, Neq,
                  Implies, Add, Sub, Mul, Lt, Le, Gt, Ge, Select, Store, Len, Concat, Unit, Empty, Nth, Extract, TRUE, FALSE)
from .ptypes import (SV, PT, TInt, TBool, TStr, TFloat, TNone, TCell, TKey, TList, TSeq, TTuple, TOpt, TObj, TSet, NONE,
                     sort_of, coerce, CoerceError, truthy, CELL)


class OutOfSubset(Exception):
    pass


class ContractMismatch(Exception):
    pass


class PathEnd(Exception):
    pass


class PyExc(Exception):
    def __init__(self, exc):
        Exception.__init__(self, exc.cls)
        self.exc = exc


class _Return(Exception):
    def __init__(self, value):
        self.value = value


class _Break(Exception):
    pass


class _Continue(Exception):
    pass


class ExcV(object):
    """a raised Python exception: concrete class name, symbolic payload"""

    def __init__(self, cls, msg=None, fields=None):
        self.cls = cls
        self.msg = msg              # SV str or None
        self.fields = fields or {}

    def __repr__(self):
        return 'ExcV(%s)' % self.cls


_uid = itertools.count()


def fresh(name, sort):
    return Var('%s!%d' % (name, next(_uid)), sort)


BUILTIN_EXC = {
    'Exception': ['BaseException'], 'IndexError': ['LookupError'], 'KeyError': ['LookupError'], 'LookupError': ['Exception'],
    'ValueError': ['Exception'], 'TypeError': ['Exception'], 'AssertionError': ['Exception'], 'RuntimeError': ['Exception'],
    'NotImplementedError': ['RuntimeError'], 'UnicodeDecodeError': ['ValueError'], 'OSError': ['Exception'],
    'IOError': ['Exception'], 'BrokenPipeError': ['OSError'], 'StopIteration': ['Exception'], 'SyntaxError': ['Exception'],
    'AttributeError': ['Exception'], 'NameError': ['Exception'], 'BaseException': [],
}


class Obligation(object):
    hide = ()

    def __init__(self, name, kind, pc, goal, func, lineno, path, note=''):
        self.name = name
        self.kind = kind
        self.pc = pc
        self.goal = goal
        self.func = func
        self.lineno = lineno
        self.path = path
        self.note = note


class State(object):
    def __init__(self):
        self.locals = {}
        self.heap = {}
        self.pc = []
        self.handlers = []      # stack of sets of exception class names caught by enclosing try blocks
        self.assumed = []       # labels of assumptions used on this path

    def copy(self):
        s = State()
        s.locals = dict(self.locals)
        s.heap = dict(self.heap)
        s.pc = list(self.pc)
        s.handlers = list(self.handlers)
        s.assumed = list(self.assumed)
        return s


class FuncInfo(object):
    def __init__(self, qualname, node, module, parent=None):
        self.qualname = qualname
        self.node = node
        self.module = module
        self.parent = parent


class Executor(object):
    """verifies one function (or generated code block) against its contract; holds the registry."""

    def __init__(self, reg, program):
        self.reg = reg
        self.program = program      # extract.Program: modules, functions, classes, constants
        self.obligations = []
        self.script = []
        self.pos = 0
        self.widths = []
        self.func = None
        self.contract = None
        self.entry = None
        self.path_no = 0
        self.loop_ord = {}
        self.notes = []
        self.max_paths = 4000
        self.trusted_used = set()
        self.assumptions_used = set()
        self.inline_depth = 0
        self.cur_module = None
        self.locals_stack = []
        self.pure = False
        self.lemmas_used = set()

    # ------------------------------------------------------------ decisions
    def decide(self, k, what=''):
        if k <= 1:
            return 0
        if self.pos < len(self.script):
            c = self.script[self.pos]
        else:
            c = 0
            self.script.append(0)
        if self.pos < len(self.widths):
            self.widths[self.pos] = k
        else:
            self.widths.append(k)
        self.pos += 1
        return c

    def next_script(self):
        self.script = self.script[:self.pos]
        self.widths = self.widths[:self.pos]
        while self.script:
            if self.script[-1] + 1 < self.widths[-1]:
                self.script[-1] += 1
                return True
            self.script.pop()
            self.widths.pop()
        return False

    # ------------------------------------------------------------ heap access
    def harr(self, st, name, sort):
        a = st.heap.get(name)
        if a is None:
            a = Var('H0!' + name, sort)
            st.heap[name] = a
        return a

    def alloc_term(self, st):
        a = st.heap.get('$alloc')
        if a is None:
            a = Var('H0!$alloc', INT)
            st.heap['$alloc'] = a
        return a

    def new_ref(self, st, pt=None):
        a = self.alloc_term(st)
        st.heap['$alloc'] = Add(a, IntC(1))
        if pt is not None:
            st.pc.append(Eq(Select(self.kind_arr(), a), self.kind_id(pt)))
        return a

    def list_arr_name(self, elem_pt):
        return 'L:' + sort_of(elem_pt)

    def list_content(self, st, sv):
        assert sv.pt.kind == 'list', sv.pt
        es = sort_of(sv.pt.args[0])
        arr = self.harr(st, 'L:' + es, ArrS(INT, SeqS(es)))
        return Select(arr, sv.t)

    def set_list_content(self, st, sv, content, node=None, check=True):
        es = sort_of(sv.pt.args[0])
        name = 'L:' + es
        arr = self.harr(st, name, ArrS(INT, SeqS(es)))
        if check:
            self.store_permission(st, sv.t, node)
        st.heap[name] = Store(arr, sv.t, content)

    def new_list(self, st, elem_pt, content):
        r = self.new_ref(st, TList(elem_pt))
        es = sort_of(elem_pt)
        name = 'L:' + es
        arr = self.harr(st, name, ArrS(INT, SeqS(es)))
        st.heap[name] = Store(arr, r, content)
        return SV(TList(elem_pt), r)

    def ghost_set(self, st, name):
        return self.harr(st, name, ArrS(INT, BOOL))

    def store_permission(self, st, ref, node):
        pol = self.contract.options.get('store_policy', 'engine') if self.contract is not None else 'engine'
        if pol == 'none':
            return
        srcs = self.ghost_set(st, '$srcs')
        self.oblige(st, 'store.src', Not(Select(srcs, ref)), node, kind='store',
                    note='store into a list that is a source row (C06)')
        if pol == 'engine':
            wo = self.ghost_set(st, '$wowned')
            held = self.ghost_set(st, '$held')
            self.oblige(st, 'store.offered', And(Not(Select(wo, ref)), Not(Select(held, ref))), node, kind='store',
                        note='store into a record already handed to a writer')

    def field_arr(self, st, cls, field):
        home = self.reg.field_home(cls, field)
        if home is None:
            down = self.reg.field_home_down(cls, field)
            if down is not None:
                home = (down[1], down[2], down[3])
        if home is None:
            raise OutOfSubset('unknown field %s.%s (declare it with classdef)' % (cls, field))
        root, pt, ghost = home
        name = 'F:%s.%s' % (root, field)
        return name, pt, self.harr(st, name, ArrS(INT, sort_of(pt)))

    def get_field(self, st, obj, field):
        name, pt, arr = self.field_arr(st, obj.pt.args[0], field)
        v = SV(pt, Select(arr, obj.t))
        self.assume_wf(st, v)
        return v

    def set_field(self, st, obj, field, val):
        name, pt, arr = self.field_arr(st, obj.pt.args[0], field)
        if val.pt.kind == 'opt' and pt.kind not in ('opt', 'cell') and val.pt.args[0] == pt:
            val = self.unwrap_opt(st, val, None)
        val = self.coerce(val, pt, st)
        arr = st.heap[name]
        st.heap[name] = Store(arr, obj.t, val.t)

    KIND_IDS = {}

    def kind_id(self, pt):
        k = pt.kind
        key = 'obj' if k == 'obj' else ('dict' if k in ('dict', 'ddict') else repr(pt))
        if key not in self.KIND_IDS:
            self.KIND_IDS[key] = len(self.KIND_IDS) + 1
        return IntC(self.KIND_IDS[key])

    def cls_arr(self):
        return Var('H0!$cls', ArrS(INT, INT))       # immutable: dynamic class of an object reference

    def kind_arr(self):
        return Var('H0!$kind', ArrS(INT, INT))      # immutable: the run-time type of a reference never changes

    def assume_wf(self, st, v):
        """every reference read from the heap / passed in is allocated and has its static kind
        (sound: language invariants; references of different kinds are therefore distinct)"""
        if v.pt.is_ref():
            st.pc.append(And(Gt(v.t, IntC(0)), Lt(v.t, self.alloc_term(st)), Eq(Select(self.kind_arr(), v.t), self.kind_id(v.pt))))
        elif v.pt.kind == 'opt' and v.pt.args[0].is_ref():
            st.pc.append(And(Ge(v.t, IntC(0)), Lt(v.t, self.alloc_term(st)),
                             Or(Eq(v.t, IntC(0)), Eq(Select(self.kind_arr(), v.t), self.kind_id(v.pt.args[0])))))

    def alloc_empty(self, st, pt):
        """allocate an empty container of static type pt"""
        k = pt.kind
        if k == 'list':
            return self.new_list(st, pt.args[0], Empty(SeqS(sort_of(pt.args[0]))))
        ref = self.new_ref(st, pt)
        v = SV(pt, ref)
        if k in ('dict', 'ddict'):
            mname, kname, m, korder, opt = self._dict_arrs(st, v)
            inner_sort = smt.arr_parts(m.sort)[1]
            none = IntC(0) if pt.args[1].is_ref() else ptypes.opt_none(opt)
            st.heap[mname] = Store(m, ref, smt.ConstArr(inner_sort, none))
            st.heap[kname] = Store(korder, ref, Empty(SeqS(sort_of(pt.args[0]))))
            return v
        if k == 'set':
            mname, nname, m, n = self._set_arrs(st, v)
            st.heap[mname] = Store(m, ref, smt.ConstArr(smt.arr_parts(m.sort)[1], FALSE))
            st.heap[nname] = Store(n, ref, IntC(0))
            return v
        raise OutOfSubset('cannot allocate empty %r' % (pt,))

    def coerce(self, v, pt, st=None):
        if v.pt.kind == 'pylistlit' and pt.kind == 'list':
            if st is None:
                raise OutOfSubset('list literal of tuples needs a typed destination')
            elems = [self.coerce(e, pt.args[0], st) for e in v.py]
            return self.new_list(st, pt.args[0], Concat(*[Unit(e.t) for e in elems]))
        if v.pt.kind in ('emptylist', 'emptydict', 'emptyset', 'pylistlit') and pt.kind == 'opt' and pt.args[0].is_ref():
            inner = self.coerce(v, pt.args[0], st)
            return SV(pt, inner.t)
        if v.pt.kind in ('emptylist', 'emptydict', 'emptyset') and pt.is_ref():
            want = {'emptylist': ('list',), 'emptydict': ('dict', 'ddict'), 'emptyset': ('set',)}[v.pt.kind]
            if pt.kind in want:
                if st is None:
                    raise OutOfSubset('empty container needs a typed destination (declare local_types / field type)')
                return self.alloc_empty(st, pt)
        if v.pt.kind == 'setof' and pt.kind == 'set' and st is not None and v.py.pt.kind in ('list', 'seq') and v.py.pt.args[0] == pt.args[0]:
            # set(xs): a new set whose members are exactly the elements of xs (its size is left unspecified: between 0 and len(xs))
            content = self.list_content(st, v.py) if v.py.pt.kind == 'list' else v.py.t
            ref = self.new_ref(st, pt)
            sv = SV(pt, ref)
            mname, nname, m, nn = self._set_arrs(st, sv)
            inner_sort = smt.arr_parts(m.sort)[1]
            mem = fresh('setof', inner_sort)
            bx = smt.BVar('sx%d' % len(st.pc), sort_of(pt.args[0]))
            st.pc.append(smt.ForAll([bx], Eq(Select(mem, bx), smt.Contains(content, Unit(bx)))))
            cnt = fresh('setn', INT)
            st.pc.append(And(Ge(cnt, IntC(0)), Le(cnt, Len(content))))
            st.heap[mname] = Store(m, ref, mem)
            st.heap[nname] = Store(nn, ref, cnt)
            return sv
        if pt.kind == 'opt' and pt.args[0].kind == 'mtag':
            if v.pt.kind == 'none':
                return SV(pt, IntC(0))
            inner = self.coerce(v, pt.args[0], st)
            return SV(pt, inner.t)
        if pt.kind == 'mtag':
            if v.pt.kind == 'method':
                from .calls import method_tag
                return SV(pt, IntC(method_tag(v.py[1])))
            if v.pt.kind == 'mtag':
                return v
            if v.pt.kind == 'none':
                return SV(pt, IntC(0))
        try:
            if v.pt.kind == 'obj' and pt.kind == 'obj' and v.pt != pt:
                if self.reg.is_subclass(v.pt.args[0], pt.args[0]) or self.reg.is_subclass(pt.args[0], v.pt.args[0]):
                    return SV(pt, v.t)
                raise CoerceError('%r -> %r' % (v.pt, pt))
            if v.pt.kind == 'obj' and pt.kind == 'opt' and pt.args[0].kind == 'obj':
                return SV(pt, v.t)
            if v.pt.kind == 'opt' and pt.kind == 'opt' and v.pt.args[0].kind == 'obj' and pt.args[0].kind == 'obj':
                return SV(pt, v.t)
            return coerce(v, pt)
        except CoerceError as e:
            raise OutOfSubset('cannot coerce: %s' % e)

    # ------------------------------------------------------------ obligations
    def oblige(self, st, label, goal, node=None, kind='assert', note='', nosplit=False):
        if goal.op == 'const' and goal.val:
            return
        if goal.op == 'and' and len(goal.args) > 1 and not nosplit:
            # one query per conjunct (same clause name): smaller queries, better diagnostics
            for g in goal.args:
                self.oblige(st, label, g, node, kind, note)
            return
        name = '%s.%s' % (self.contract.name if self.contract else self.func.qualname, label)
        ln = getattr(node, 'lineno', 0) if node is not None else 0
        pc = list(st.pc)
        if getattr(node, 'local', False) and label.endswith('.keep') and getattr(self, '_loop_pc_mark', None) is not None and self.entry is not None:
            # local=True on an invariant: its preservation is proved from the entry facts and what is known since the loop head only
            # (invariants assumed at the iteration start, the path through the body) -- fewer premises, hence sound; keeps facts about
            # what happened before the loop out of the query
            pc = list(st.pc[:len(self.entry.pc)]) + list(st.pc[self._loop_pc_mark:])
        ob = Obligation(name, kind, pc, goal, self.func.qualname if self.func else '?', ln, self.path_no, note)
        ob.hide = tuple('sp_' + h for h in getattr(node, 'hide', ()) or ())
        self.obligations.append(ob)

    def assume(self, st, t):
        if t.op == 'const':
            if not t.val:
                raise PathEnd()
            return
        st.pc.append(t)

    # ------------------------------------------------------------ verification of one function
    def verify(self, finfo, contract):
        self.func = finfo
        self.contract = contract
        self.cur_module = finfo.module
        self.obligations = []
        self.script = []
        self.widths = []
        self.path_no = 0
        self.paths_done = 0
        self._cut_owner = {}
        node = finfo.node
        self._number_loops(node)
        nloops = len(self.loop_ord)
        for n in contract.invariants:
            if n >= nloops:
                raise ContractMismatch('%s: invariant for loop %d but the function has %d loops' % (contract.target, n, nloops))
        while True:
            self.pos = 0
            self.path_no += 1
            global _uid
            # _uid = itertools.count()        # fresh names only need to be unique within one path (deterministic replays)
            if self.path_no > self.max_paths:
                raise OutOfSubset('more than %d paths in %s' % (self.max_paths, finfo.qualname))
            try:
                self._run_path(finfo, contract)
                self.paths_done += 1
            except PathEnd:
                pass
            if not self.next_script():
                break
        return self.obligations

    def _number_loops(self, node):
        self.loop_ord = {}
        self.site_ord = {}
        self._site_counts = {}
        k = 0
        c = 0
        for n in self._walk_own(node):
            if isinstance(n, (ast.For, ast.While)):
                self.loop_ord[id(n)] = k
                k += 1
            if isinstance(n, (ast.Call, ast.Subscript, ast.BinOp, ast.Assert, ast.Compare, ast.Attribute)):
                if isinstance(n, ast.Call):
                    f = n.func
                    key = f.id if isinstance(f, ast.Name) else (f.attr if isinstance(f, ast.Attribute) else 'call')
                else:
                    key = type(n).__name__.lower()
                cnt = self._site_counts.get(key, 0)
                self._site_counts[key] = cnt + 1
                self.site_ord[id(n)] = '%s%d' % (key, cnt)

    def site(self, node):
        """stable name of a program point: ordinal of the node in the verified function (not its line number)"""
        o = self.site_ord.get(id(node))
        if o is not None:
            return o
        return 'l%d' % getattr(node, 'lineno', 0)

    def _walk_own(self, node):
        """preorder walk that does not descend into nested function/class definitions"""
        body = node.body if isinstance(node, (ast.FunctionDef, ast.Module)) else [node]
        stack = list(reversed(body))
        while stack:
            n = stack.pop()
            yield n
            if isinstance(n, (ast.FunctionDef, ast.ClassDef, ast.Lambda)):
                continue
            stack.extend(reversed(list(ast.iter_child_nodes(n))))

    def initial_state(self, finfo, contract):
        st = State()
        params = list(contract.params) + list(contract.free)
        argnames = [a.arg for a in finfo.node.args.args] if isinstance(finfo.node, ast.FunctionDef) else []
        cnames = [p for p, _ in contract.params]
        if isinstance(finfo.node, ast.FunctionDef) and cnames != argnames:
            raise ContractMismatch('%s: contract parameters %s differ from the function\'s %s' % (contract.target, cnames, argnames))
        self.alloc_term(st)
        st.pc.append(Gt(st.heap['$alloc'], IntC(0)))
        r = BVar('gr', INT)
        srcs, wo, held = self.ghost_set(st, '$srcs'), self.ghost_set(st, '$wowned'), self.ghost_set(st, '$held')
        st.pc.append(smt.ForAll([r], Implies(Or(Select(srcs, r), Select(wo, r), Select(held, r)), And(Gt(r, IntC(0)), Lt(r, st.heap['$alloc'])))))
        st.pc.append(smt.ForAll([r], Not(And(Select(srcs, r), Or(Select(wo, r), Select(held, r))))))
        for name, pt in params:
            if pt is None:
                raise ContractMismatch('%s: parameter %s has no type' % (contract.target, name))
            if pt.kind == 'fnref':
                q = pt.args[0]
                if q in self.program.functions and self.program.functions[q][2] is not None:
                    st.locals[name] = SV(PT('func'), py=('closure', self.program.functions[q][1], q))
                else:
                    st.locals[name] = SV(PT('func'), py=('func', q))
                continue
            if pt.kind == 'clsref':
                st.locals[name] = SV(PT('class'), py=pt.args[0])
                continue
            if pt.kind == 'opaque':
                st.locals[name] = SV(PT('opaque'), py=name)
                continue
            v = SV(pt, Var('p!' + name, sort_of(pt)))
            st.locals[name] = v
            self.assume_wf(st, v)
        return st

    def _run_path(self, finfo, contract):
        self.iter_start = None
        st = self.initial_state(finfo, contract)
        entry = st.copy()
        self.entry = entry
        # preconditions
        for cl in contract.requires:
            self.assume(st, self.ceval(cl.expr, st, entry, None))
        for cl in contract.assumes:
            self.assumptions_used.add('%s: %s' % (contract.name, cl.label))
            self.assume(st, self.ceval(cl.expr, st, entry, None))
        for ln in contract.uses:
            from . import lemmas
            if ln not in self.reg.lemmas:
                raise ContractMismatch('unknown lemma %s' % ln)
            st.pc.append(lemmas.statement(self, self.reg.lemmas[ln]))
            self.lemmas_used.add(ln)
        for call in contract.uses_at:
            from . import lemmas
            ln = call.func.id
            if ln not in self.reg.lemmas:
                raise ContractMismatch('unknown lemma %s' % ln)
            args = [self.cvalue(a, st, entry, None) for a in call.args]
            st.pc.append(lemmas.instance_at(self, self.reg.lemmas[ln], args))
            self.lemmas_used.add(ln)
        entry.pc = list(st.pc)
        result = NONE
        try:
            try:
                self.exec_block(finfo.node.body, st)
            except _Return as r:
                result = r.value
        except PyExc as pe:
            self._check_exceptional(st, entry, contract, pe.exc)
            return
        self._check_normal(st, entry, contract, result)

    def _apply_ghost_updates(self, st, entry, contract, result):
        if not contract.ghost_updates:
            return
        pre = st.copy()
        for tgt, val in contract.ghost_updates:
            v = self.cvalue(val, pre, entry, result)
            self._ghost_assign(st, pre, entry, tgt, v, result)

    def _ghost_assign(self, st, evalst, entry, tgt, v, result):
        if isinstance(tgt, ast.Attribute):
            obj = self.cvalue(tgt.value, evalst, entry, result)
            self.set_field(st, obj, tgt.attr, v)
        elif isinstance(tgt, ast.Call) and isinstance(tgt.func, ast.Name) and tgt.func.id in ('is_held', 'is_owned_below'):
            x = self.cvalue(tgt.args[0], evalst, entry, result)
            gname = '$held' if tgt.func.id == 'is_held' else '$wowned'
            arr = self.ghost_set(st, gname)
            st.heap[gname] = Store(arr, x.t, v.t)
        else:
            raise OutOfSubset('ghost_update target')

    def _check_normal(self, st, entry, contract, result):
        if contract.ret is not None and contract.ret.kind != 'none':
            if result.pt.kind == 'none' and contract.ret.kind not in ('opt', 'cell'):
                self.oblige(st, 'returns.value', FALSE, self.func.node, kind='post', note='path returns None but contract promises %r' % (contract.ret,))
                return
            if result.pt.kind == 'cell' and contract.ret.kind in ('str', 'int', 'list'):
                from .calls import downcast_cell
                result = downcast_cell(self, st, result, contract.ret, self.func.node)
            result = self.coerce(result, contract.ret, st)
        # in postconditions parameter names denote the values passed in (parameters are not l-values of the spec)
        for pn, _ in list(contract.params) + list(contract.free):
            st.locals[pn] = entry.locals[pn]
        self._apply_ghost_updates(st, entry, contract, result)
        for cl in contract.exit_hints:
            try:
                t = self.ceval(cl.expr, st, entry, result)
            except OutOfSubset:
                continue        # the hint refers to a loop iteration this path never started

            self.oblige(st, cl.label, t, cl, kind='hint', note='proof hint at exit (proved, then assumed)')
            self.assume(st, t)
        for call in getattr(contract, 'uses_exit', ()):
            from . import lemmas
            ln = call.func.id
            if ln not in self.reg.lemmas:
                raise ContractMismatch('unknown lemma %s' % ln)
            try:
                args = [self.cvalue(a, st, entry, result) for a in call.args]
            except OutOfSubset:
                continue        # the instance mentions a local this path never assigned
            st.pc.append(lemmas.instance_at(self, self.reg.lemmas[ln], args))
            self.lemmas_used.add(ln)
        for cl in contract.ensures:
            self.oblige(st, cl.label, self.ceval(cl.expr, st, entry, result), cl, kind='post')
        self._check_frame(st, entry, contract, result)

    def _check_exceptional(self, st, entry, contract, exc):
        matching = [cl for cl in contract.raises if self.exc_subclass(exc.cls, cl.extra)]
        if not matching:
            self.oblige(st, 'raises.unexpected.%s' % exc.cls, FALSE, self.func.node, kind='raises',
                        note='an exception of class %s can escape but no raises clause allows it' % exc.cls)
            return
        for pn, _ in list(contract.params) + list(contract.free):
            st.locals[pn] = entry.locals[pn]
        st.locals['__exc_msg'] = exc.msg if exc.msg is not None else SV(TStr, fresh('msg', STR))
        for k, v in exc.fields.items():
            st.locals['__exc_' + k] = v
        for call in getattr(contract, 'uses_exit', ()):
            # lemma instances at exit also serve the exceptional exits (a proved lemma: adding an instance is sound on every path)
            from . import lemmas
            ln = call.func.id
            if ln not in self.reg.lemmas:
                raise ContractMismatch('unknown lemma %s' % ln)
            try:
                args = [self.cvalue(a, st, entry, None) for a in call.args]
            except OutOfSubset:
                continue
            st.pc.append(lemmas.instance_at(self, self.reg.lemmas[ln], args))
            self.lemmas_used.add(ln)
        conds = [self.ceval(cl.expr, st, entry, None) for cl in matching]
        self.oblige(st, 'raises.%s' % matching[0].label, Or(*conds), matching[0], kind='raises')
        self._check_frame(st, entry, contract, None)

    # frames ------------------------------------------------------------
    def _modset(self, contract, st, entry, result):
        items = []
        for m in contract.modifies:
            items.append(self._mod_item(m, st, entry, result))
        return items

    def _mod_item(self, m, st, entry, result):
        if isinstance(m, ast.Call) and isinstance(m.func, ast.Name):
            f = m.func.id
            if f == 'contents':
                v = self.cvalue(m.args[0], entry, entry, None)
                return ('ref', v)
            if f == 'region':
                v = self.cvalue(m.args[0], entry, entry, None)
                return ('region', v)
            if f == 'field':
                v = self.cvalue(m.args[0], entry, entry, None)
                return ('field', (v, ast.literal_eval(m.args[1])))
            if f == 'family':
                return ('family', ast.literal_eval(m.args[0]))
            if f == 'anything':
                return ('any', None)
            if f == 'anylist':
                return ('anylist', None)
            if f == 'fresh_only':
                return ('none', None)
        v = self.cvalue(m, entry, entry, None)
        return ('ref', v)

    def _in_modset(self, name, r, items, st_final, entry):
        """Bool term: may location r of heap array `name` be modified?"""
        out = []
        for kind, v in items:
            if kind == 'any':
                return TRUE
            if kind == 'none':
                continue
            if kind == 'anylist':
                if name.startswith('L:'):
                    return TRUE
                continue
            if kind == 'family':
                if self._family_array(name, v) and name.split('.')[-1] not in ('hist', 'finalv'):
                    return TRUE
                continue
            if kind == 'field':
                obj, fname = v
                home = self.reg.field_home(obj.pt.args[0], fname)
                if home is not None and name == 'F:%s.%s' % (home[0], fname):
                    out.append(Eq(r, obj.t))
                continue
            if kind == 'ref':
                if v.pt.kind == 'none':
                    continue
                if v.pt.kind == 'opt':
                    out.append(Eq(r, v.t))
                    continue
                if not v.pt.is_ref():
                    raise OutOfSubset('modifies item is not a reference: %r' % (v.pt,))
                if self._arr_applies(name, v.pt):
                    out.append(Eq(r, v.t))
            elif kind == 'region':
                if name.startswith('F:'):
                    cls = name[2:].rsplit('.', 1)[0]
                    ci = self.reg.classes.get(cls)
                    if ci is not None and self._family(cls) == 'writer' and self._family_root(cls) == self._family_root(self._obj_class(v.pt)):
                        lvl = self.harr(entry, 'F:%s.level' % self._family_root(cls), ArrS(INT, INT))
                        out.append(Le(Select(lvl, r), Select(lvl, v.t)))
                elif name.startswith('L:'):
                    wo = self.ghost_set(st_final, '$wowned')
                    out.append(Select(wo, r))
                elif name == '$wowned':
                    out.append(TRUE)
        return Or(*out) if out else FALSE

    def _family_array(self, name, fam):
        """arrays belonging to an object family: its classes' fields, plus (joiner) the JKey-keyed dicts and match lists"""
        if name.startswith('F:'):
            cls = name[2:].rsplit('.', 1)[0]
            return self._family(cls) == fam
        if fam == 'joiner':
            return 'JKey' in name or name == 'L:Tup_Int_Int_Int'
        if fam == 'aggregator':
            return name.startswith('D:Key:') or name.startswith('DK:Key:')
        return False

    def _obj_class(self, pt):
        if pt.kind == 'opt':
            pt = pt.args[0]
        return pt.args[0] if pt.kind == 'obj' else None

    def _family_root(self, cls):
        """the class that declares the family of cls (each root has its own `level` ghost array: Python and JavaScript writers are separate families)"""
        seen = set()
        work = [cls]
        while work:
            c = work.pop()
            if c in seen or c is None:
                continue
            seen.add(c)
            ci = self.reg.classes.get(c)
            if ci is None:
                continue
            if ci.family:
                return c
            work.extend(ci.bases)
        return None

    def _family(self, cls):
        seen = set()
        work = [cls]
        while work:
            c = work.pop()
            if c in seen:
                continue
            seen.add(c)
            ci = self.reg.classes.get(c)
            if ci is None:
                continue
            if ci.family:
                return ci.family
            work.extend(ci.bases)
        return None

    def _arr_applies(self, name, pt):
        k = pt.kind
        if k == 'obj':
            if not name.startswith('F:'):
                return False
            cls = name[2:].rsplit('.', 1)[0]
            c0 = pt.args[0]
            return self.reg.is_subclass(cls, c0) or self.reg.is_subclass(c0, cls)
        if k == 'list':
            return name.startswith('L:')
        if k in ('dict', 'ddict'):
            return name.startswith('D')
        if k == 'set':
            return name.startswith('S')
        return False

    def _check_frame(self, st, entry, contract, result):
        if contract.options.get('frame') == 'off':
            return
        items = self._modset(contract, st, entry, result)
        alloc0 = entry.heap['$alloc']
        frame_goals = []
        frame_names = []
        for name in sorted(st.heap):
            if name in ('$alloc',):
                continue
            cur = st.heap[name]
            init = Var('H0!' + name, cur.sort)
            if cur == init:
                continue
            if name in ('$wowned', '$held'):
                continue
            if not cur.sort.startswith('(Array Int'):
                continue
            r = fresh('fr', INT)
            inm = self._in_modset(name, r, items, st, entry)
            if inm.op == 'const' and inm.val:
                continue
            goal = Implies(And(Gt(r, IntC(0)), Lt(r, alloc0), Not(inm)), Eq(Select(cur, r), Select(init, r)))
            frame_goals.append(goal)
            frame_names.append(name)
        if frame_goals:
            self.oblige(st, 'frame', And(*frame_goals), self.func.node, kind='frame', nosplit=True,
                        note='only the modifies set may change (heap arrays: %s)' % ', '.join(frame_names))

    # ------------------------------------------------------------ statements
    def exec_block(self, stmts, st):
        top = (self.func is not None and self.inline_depth == 0 and self.contract is not None and getattr(self.contract, 'cuts', None)
               and (stmts is self.func.node.body
                    # ... or the body of a try statement that is itself a top-level statement (entry points wrap everything in try/finally)
                    or any(isinstance(t, ast.Try) and stmts is t.body for t in self.func.node.body)))
        for s in stmts:
            if top:
                self._maybe_cut(s, st)
            self.exec_stmt(s, st)

    def _maybe_cut(self, s, st):
        """block contract at a top-level statement of the verified function: the cut invariant is an obligation of every
        incoming path; the code after it is verified once, from a state about which only the invariant (and the entry
        facts) is known.  Incoming paths other than the first end here -- the continuation does not depend on them."""
        src = ast.unparse(s)
        for pat, clauses in self.contract.cuts.items():
            if not src.startswith(pat):
                continue
            for cl in clauses:
                self.oblige(st, 'cut.%s.established' % cl.label, self.ceval(cl.expr, st, self.entry, None), cl, kind='cut')
            owner = self._cut_owner.get(pat)
            here = tuple(self.script[:self.pos])
            if owner is None:
                self._cut_owner[pat] = here
            elif owner != here:
                raise PathEnd()
            from . import calls
            items = self._modset(self.contract, st, self.entry, None)
            calls.havoc_for_call(self, st, st, items)
            params = set(pn for pn, _ in list(self.contract.params) + list(self.contract.free))
            for name, v in list(st.locals.items()):
                if name in params or name.startswith('__') or v.t is None:
                    continue
                pt = self.contract.local_types.get(name, v.pt)
                try:
                    nv = SV(pt, fresh('cut_' + name, sort_of(pt)))
                except TypeError:
                    continue
                self.assume_wf(st, nv)
                st.locals[name] = nv
            for cl in clauses:
                self.assume(st, self.ceval(cl.expr, st, self.entry, None))
            return

    def exec_stmt(self, s, st):
        m = getattr(self, 'st_' + type(s).__name__, None)
        if m is None:
            raise OutOfSubset('statement %s at line %d' % (type(s).__name__, s.lineno))
        m(s, st)

    def st_Pass(self, s, st):
        pass

    def st_Expr(self, s, st):
        if isinstance(s.value, ast.Constant):
            return
        self.ev(s.value, st)

    def st_Global(self, s, st):
        raise OutOfSubset('global statement at line %d' % s.lineno)

    def st_Import(self, s, st):
        for a in s.names:
            st.locals[a.asname or a.name] = SV(PT('module'), py=a.name)

    def st_ImportFrom(self, s, st):
        pass

    def st_FunctionDef(self, s, st):
        st.locals[s.name] = SV(PT('func'), py=('closure', s, self.func.qualname + '.' + s.name))

    def st_ClassDef(self, s, st):
        st.locals[s.name] = SV(PT('class'), py=self.func.qualname + '.' + s.name)

    def st_Return(self, s, st):
        v = NONE if s.value is None else self.ev(s.value, st)
        raise _Return(v)

    def st_Break(self, s, st):
        raise _Break()

    def st_Continue(self, s, st):
        raise _Continue()

    def st_Assert(self, s, st):
        c = self.cond(s.test, st)
        mode = self.contract.options.get('asserts', 'raise') if self.contract else 'raise'
        if mode == 'oblige':
            self.oblige(st, 'assert.%s' % self.site(s), c, s, kind='assert')
            self.assume(st, c)
            return
        k = self.branch(st, c)
        if not k:
            raise PyExc(ExcV('AssertionError'))

    def st_Assign(self, s, st):
        if (isinstance(s.value, ast.List) and len(s.targets) == 1 and isinstance(s.targets[0], ast.Name) and self.contract is not None
                and self.inline_depth == 0 and s.targets[0].id in self.contract.local_types
                and self.contract.local_types[s.targets[0].id].kind == 'list'
                and not any(isinstance(e, ast.Starred) for e in s.value.elts) and s.value.elts):
            lt = self.contract.local_types[s.targets[0].id]
            ept = lt.args[0]
            parts = []
            for e in s.value.elts:
                ev = self.ev(e, st)
                if ev.pt.kind == 'opt' and ept.kind not in ('opt', 'cell') and ev.pt.args[0] == ept:
                    ev = self.unwrap_opt(st, ev, e)
                parts.append(Unit(self.coerce(ev, ept, st).t))
            st.locals[s.targets[0].id] = self.new_list(st, ept, Concat(*parts))
            return
        v = self.ev(s.value, st)
        for tgt in s.targets:
            self.assign(tgt, v, st)

    def st_AnnAssign(self, s, st):
        if s.value is not None:
            self.assign(s.target, self.ev(s.value, st), st)

    def st_AugAssign(self, s, st):
        tgt = s.target
        if isinstance(tgt, ast.Name):
            cur = self.ev(ast.Name(id=tgt.id, ctx=ast.Load(), lineno=s.lineno, col_offset=0), st)
            rhs = self.ev(s.value, st)
            if cur.pt.kind == 'list' and isinstance(s.op, ast.Add):
                # in-place extend
                r = self.as_seq(st, rhs, cur.pt.args[0])
                self.set_list_content(st, cur, Concat(self.list_content(st, cur), r), s)
                return
            st.locals[tgt.id] = self.binop(s.op, cur, rhs, st, s)
            return
        if isinstance(tgt, ast.Attribute):
            obj = self.ev(tgt.value, st)
            obj = self.unwrap_opt(st, obj, s)
            cur = self.get_field(st, obj, tgt.attr)
            rhs = self.ev(s.value, st)
            if cur.pt.kind == 'list' and isinstance(s.op, ast.Add):
                r = self.as_seq(st, rhs, cur.pt.args[0])
                self.set_list_content(st, cur, Concat(self.list_content(st, cur), r), s)
                return
            self.set_field(st, obj, tgt.attr, self.binop(s.op, cur, rhs, st, s))
            return
        if isinstance(tgt, ast.Subscript):
            base = self.ev(tgt.value, st)
            idx = self.ev(tgt.slice, st)
            cur = self.subscript_load(st, base, idx, tgt)
            rhs = self.ev(s.value, st)
            self.subscript_store(st, base, idx, self.binop(s.op, cur, rhs, st, s), tgt)
            return
        raise OutOfSubset('augmented assignment target at line %d' % s.lineno)

    def assign(self, tgt, v, st):
        if isinstance(tgt, ast.Name):
            lt = self.contract.local_types.get(tgt.id) if self.contract is not None and self.inline_depth == 0 else None
            if lt is not None and v.pt.kind == 'list' and lt.kind == 'list' and v.pt != lt:
                # a local that is re-bound to a list of another element type (xs = [str(v) for v in xs]): the value keeps its own static
                # type; the declared type only says what an empty literal bound to this name is
                pass
            elif lt is not None:
                v = self.coerce(v, lt, st)
            elif v.pt.kind in ('emptylist', 'emptydict', 'emptyset'):
                raise OutOfSubset('local %s is assigned an empty container: declare its type with local_types (line %d)' % (tgt.id, tgt.lineno))
            st.locals[tgt.id] = v
        elif isinstance(tgt, (ast.Tuple, ast.List)):
            parts = self.unpack(st, v, len(tgt.elts), tgt)
            for t, p in zip(tgt.elts, parts):
                self.assign(t, p, st)
        elif isinstance(tgt, ast.Attribute):
            obj = self.ev(tgt.value, st)
            obj = self.unwrap_opt(st, obj, tgt)
            if obj.pt.kind != 'obj':
                raise OutOfSubset('attribute store on %r at line %d' % (obj.pt, tgt.lineno))
            self.set_field(st, obj, tgt.attr, v)
        elif isinstance(tgt, ast.Subscript):
            base = self.ev(tgt.value, st)
            idx = self.ev(tgt.slice, st)
            self.subscript_store(st, base, idx, v, tgt)
        else:
            raise OutOfSubset('assignment target %s' % type(tgt).__name__)

    def unpack(self, st, v, n, node):
        if v.pt.kind == 'pytuple':
            if len(v.py) != n:
                raise PyExc(ExcV('ValueError'))
            return list(v.py)
        if v.pt.kind == 'tuple':
            if len(v.pt.args) != n:
                raise PyExc(ExcV('ValueError'))
            return [SV(v.pt.args[i], ptypes.tuple_get(v.pt, v.t, i)) for i in range(n)]
        if v.pt.kind == 'opt' and v.pt.args[0].kind == 'tuple':
            v = self.unwrap_opt(st, v, node)
            return self.unpack(st, v, n, node)
        if v.pt.kind in ('seq', 'list'):
            seq = v.t if v.pt.kind == 'seq' else self.list_content(st, v)
            ok = Eq(Len(seq), IntC(n))
            if not self.branch(st, ok, raising='ValueError', node=node):
                raise PyExc(ExcV('ValueError'))
            return [self.wf(st, SV(v.pt.args[0], Nth(seq, IntC(i)))) for i in range(n)]
        raise OutOfSubset('unpacking %r at line %d' % (v.pt, getattr(node, 'lineno', 0)))

    def wf(self, st, v):
        self.assume_wf(st, v)
        return v

    def st_If(self, s, st):
        c = self.cond(s.test, st)
        if self.branch(st, c):
            self._narrow(s.test, True, st)
            self.exec_block(s.body, st)
        else:
            self._narrow(s.test, False, st)
            self.exec_block(s.orelse, st)

    def _narrow(self, test, outcome, st):
        """flow typing: after `x is None` / `x is not None` on a local of optional type was decided, the local is known
        to hold a value on the not-None side (its static type loses the Opt)"""
        if not (isinstance(test, ast.Compare) and len(test.ops) == 1 and isinstance(test.left, ast.Name)
                and isinstance(test.comparators[0], ast.Constant) and test.comparators[0].value is None):
            return
        is_none_side = outcome if isinstance(test.ops[0], ast.Is) else (not outcome if isinstance(test.ops[0], ast.IsNot) else None)
        if is_none_side is None or is_none_side:
            return
        v = st.locals.get(test.left.id)
        if v is not None and v.pt.kind == 'opt':
            st.locals[test.left.id] = self.unwrap_opt(st, v, test)

    def branch(self, st, c, raising=None, node=None):
        """fork on a Bool term; returns True/False and records it in the path condition.
        raising: class name of the exception the False side would raise; if no enclosing handler or
        raises clause can observe it, the False side becomes a safety obligation instead of a path."""
        if c.op == 'const':
            return bool(c.val)
        if self.pure:
            if raising is not None:
                return True
            raise OutOfSubset('fork inside a pure (contract/spec) expression')
        if raising is not None and not self.exc_observable(st, raising):
            self.oblige(st, 'safety.%s.%s' % (raising, self.site(node)), c, node, kind='safety',
                        note='%s would be raised here and nothing handles it' % raising)
            st.pc.append(c)
            return True
        # infeasible sides are not explored: a side is dropped only when the quantifier-free part of the path condition,
        # with spec functions uninterpreted, refutes it (z3, deterministic resource limit) -- a weaker premise, so sound
        from . import prune
        if prune.ENABLED and self.contract is not None and self.contract.options.get('prune'):
            if prune.refuted(st.pc, c):
                st.pc.append(Not(c))
                return False
            if prune.refuted(st.pc, Not(c)):
                st.pc.append(c)
                return True
        k = self.decide(2)
        if k == 0:
            st.pc.append(c)
            return True
        st.pc.append(Not(c))
        return False

    def exc_observable(self, st, cls):
        for hs in st.handlers:
            for h in hs:
                if self.exc_subclass(cls, h):
                    return True
        if self.contract is not None and self.inline_depth == 0:
            for cl in self.contract.raises:
                if self.exc_subclass(cls, cl.extra):
                    return True
        return False

    def exc_subclass(self, c, base):
        c = c.split('.')[-1] if c.split('.')[-1] in BUILTIN_EXC else c
        base = base.split('.')[-1] if base.split('.')[-1] in BUILTIN_EXC else base
        if c == base:
            return True
        if c in BUILTIN_EXC:
            return any(self.exc_subclass(b, base) for b in BUILTIN_EXC[c])
        bases = self.program.class_bases(c)
        return any(self.exc_subclass(b, base) for b in bases)

    def cond(self, node, st):
        v = self.ev(node, st)
        return self.truth(st, v)

    def truth(self, st, v):
        if v.pt.kind in ('list',):
            return Not(Eq(Len(self.list_content(st, v)), IntC(0)))
        if v.pt.kind == 'opt' and v.pt.args[0].kind == 'list':
            inner = SV(v.pt.args[0], v.t)
            return And(Not(Eq(v.t, IntC(0))), Not(Eq(Len(self.list_content(st, inner)), IntC(0))))
        if v.pt.kind in ('dict', 'ddict'):
            return Not(Eq(Len(self.dict_keys(st, v)), IntC(0)))
        if v.pt.kind == 'opt' and v.pt.args[0].kind in ('dict', 'ddict'):
            inner = SV(v.pt.args[0], v.t)
            return And(Not(Eq(v.t, IntC(0))), Not(Eq(Len(self.dict_keys(st, inner)), IntC(0))))
        if v.pt.kind == 'pytuple':
            return BoolC(len(v.py) > 0)
        if v.pt.kind in ('func', 'class', 'module'):
            return TRUE
        try:
            return truthy(v)
        except CoerceError as e:
            raise OutOfSubset(str(e))

    # loops -------------------------------------------------------------
    def st_While(self, s, st):
        self._loop(s, st, None)

    def st_For(self, s, st):
        self._loop(s, st, 'for')

    def _assigned_names(self, stmts):
        out = set()
        for s in stmts:
            for n in ast.walk(s):
                if isinstance(n, ast.Name) and isinstance(n.ctx, ast.Store):
                    out.add(n.id)
                elif isinstance(n, ast.ExceptHandler) and n.name:
                    out.add(n.name)
        return out

    def _loop(self, s, st, kind):
        ordn = self.loop_ord.get(id(s))
        c = self.contract
        invs = c.invariants.get(ordn, []) if (c is not None and self.inline_depth == 0 and ordn is not None) else None
        ivar = '__i%d' % ordn if ordn is not None else '__i'
        if kind == 'for':
            itv = self.ev(s.iter, st)
            seq_of = self._iter_seq(st, itv, s)
            st.locals[ivar] = SV(TInt, IntC(0))
        else:
            seq_of = None
        if invs is None:
            if self.inline_depth > 0:
                raise OutOfSubset('loop inside an inlined function (line %d): give the callee a contract' % s.lineno)
            raise ContractMismatch('loop %r at line %d has no invariant' % (ordn, s.lineno))
        entry_loop = st.copy()
        st.locals['__i'] = st.locals.get(ivar, SV(TInt, IntC(0)))

        def check_inv(state, tag):
            state.locals['__i'] = state.locals.get(ivar, SV(TInt, IntC(0)))
            for cl in invs:
                self.oblige(state, 'loop%d.%s.%s' % (ordn, cl.label, tag), self.ceval(cl.expr, state, self.entry, None, loop_entry=entry_loop), cl, kind='inv')

        auto_frame = (self.contract is not None and self.contract.options.get('frame') != 'off')
        frame_items = self._modset(self.contract, st, self.entry, None) if auto_frame else None
        may_mod = sorted(n2 for n2 in self._mod_arrays(s.body, st) if n2 not in ('$alloc', '$srcs', '$wowned', '$cls', '$held'))

        def frame_goal(state, name, r):
            cur = state.heap.get(name)
            if cur is None:
                return None
            init = Var('H0!' + name, cur.sort)
            if cur == init or not cur.sort.startswith('(Array Int'):
                return None
            inm = self._in_modset(name, r, frame_items, state, self.entry)
            if inm.op == 'const' and inm.val:
                return None
            return Implies(And(Gt(r, IntC(0)), Lt(r, self.entry.heap['$alloc']), Not(inm)), Eq(Select(cur, r), Select(init, r)))

        def check_frame_inv(state, tag):
            if not auto_frame:
                return
            gs = []
            for name in may_mod:
                r = fresh('fr', INT)
                g = frame_goal(state, name, r)
                if g is not None:
                    gs.append(g)
            if gs:
                self.oblige(state, 'loop%d.frame.%s' % (ordn, tag), And(*gs), s, kind='frame', note='loop frame invariant', nosplit=True)

        check_inv(st, 'init')
        check_frame_inv(st, 'init')
        # havoc
        mod_names = self._assigned_names(s.body) | set([ivar])
        ltypes = c.loop_types.get(ordn, {})
        for n in sorted(mod_names):
            cur = st.locals.get(n)
            pt = ltypes.get(n) or (cur.pt if cur is not None else None)
            if pt is None:
                st.locals.pop(n, None)
                continue
            if pt.kind in ('none', 'func', 'class', 'module', 'pytuple', 'opaque', 'fnref', 'clsref', 'excv'):
                if pt.kind == 'none':
                    raise ContractMismatch('loop %d: local %s is None before the loop and assigned inside; declare loop_types' % (ordn, n))
                continue
            v = SV(pt, fresh('lv_' + n, sort_of(pt)))
            st.locals[n] = v
            self.assume_wf(st, v)
        self._loop_pc_mark = len(st.pc)
        havoced = self._havoc_heap_for_loop(st, s)
        if auto_frame:
            for name in havoced:
                if name in ('$wowned', '$cls', '$held'):
                    continue
                r = BVar('fr', INT)
                g = frame_goal(st, name, r)
                if g is not None:
                    st.pc.append(smt.ForAll([r], g))
        st.locals['__i'] = st.locals.get(ivar, SV(TInt, IntC(0)))
        if kind == 'for':
            self.assume(st, Ge(st.locals[ivar].t, IntC(0)))
        for cl in invs:
            self.assume(st, self.ceval(cl.expr, st, self.entry, None, loop_entry=entry_loop))
        # loop condition
        if kind == 'for':
            seq = seq_of(st)
            i = st.locals[ivar].t
            self.assume(st, Le(i, Len(seq)))
            cterm = Lt(i, Len(seq))
        else:
            cterm = self.cond(s.test, st)
        which = self.decide(2)
        if which == 1:
            # exit
            self.assume(st, Not(cterm))
            self.exec_block(s.orelse, st)
            return
        self.assume(st, cterm)
        self.iter_start = st.copy()
        if kind == 'for':
            elem = seq_elem_sv(self, st, itv, seq, i)
            self.assign(s.target, elem, st)
        def apply_hints(tag):
            for cl in (c.loop_hints.get(ordn, []) if c is not None else []):
                st.locals['__i'] = st.locals.get(ivar, SV(TInt, IntC(0)))
                try:
                    t = self.ceval(cl.expr, st, self.entry, None, loop_entry=entry_loop)
                except OutOfSubset:
                    if tag == 'break':
                        continue        # the hint mentions a local that this early exit never assigned
                    raise
                self.oblige(st, 'loop%d.%s' % (ordn, cl.label), t, cl, kind='hint', note='proof hint (proved, then assumed)')
                self.assume(st, t)
        try:
            try:
                self.exec_block(s.body, st)
            except _Continue:
                pass
        except _Break:
            apply_hints('break')
            return
        if kind == 'for':
            st.locals[ivar] = SV(TInt, Add(st.locals[ivar].t, IntC(1)))
        apply_hints('keep')
        check_inv(st, 'keep')
        check_frame_inv(st, 'keep')
        raise PathEnd()

    def _havoc_heap_for_loop(self, st, s):
        names = self._mod_arrays(s.body, st)
        alloc_old = self.alloc_term(st)
        havoced = []
        for name in sorted(names):
            if name in ('$alloc', '$srcs'):
                continue
            cur = st.heap.get(name)
            if cur is None:
                if name == '$held':
                    cur = self.ghost_set(st, '$held')
                else:
                    continue
            st.heap[name] = fresh('hv_' + name, cur.sort)
            havoced.append(name)
        a = fresh('alloc', INT)
        st.heap['$alloc'] = a
        st.pc.append(Ge(a, alloc_old))
        if '$wowned' in havoced or '$held' in havoced:
            self.assume_ghost_sets_wf(st)
        return havoced

    def assume_ghost_sets_wf(self, st):
        """global ghost invariant: the ownership sets contain only allocated references and are disjoint"""
        r = BVar('gr', INT)
        srcs, wo, held = self.ghost_set(st, '$srcs'), self.ghost_set(st, '$wowned'), self.ghost_set(st, '$held')
        st.pc.append(smt.ForAll([r], Implies(Or(Select(wo, r), Select(held, r)), And(Gt(r, IntC(0)), Lt(r, st.heap['$alloc']), Not(Select(srcs, r))))))

    PURE_METHODS = set(['find', 'startswith', 'endswith', 'count', 'replace', 'strip', 'lstrip', 'rstrip', 'split', 'join',
                        'format', 'lower', 'upper', 'get', 'items', 'keys', 'values', 'span', 'group', 'start', 'end',
                        'match', 'search', 'finditer', 'decode', 'encode'])
    LIST_MUTATORS = set(['append', 'insert', 'extend', 'reverse', 'remove', 'pop', 'sort'])
    SET_MUTATORS = set(['add'])
    PURE_BUILTINS = set(['len', 'isinstance', 'int', 'float', 'str', 'tuple', 'enumerate', 'range', 'xrange', 'min', 'max',
                         'type', 'abs', 'bool', 'ord', 'sorted', 'list', 'set', 'dict', 'sum', 'defaultdict', 'OrderedDict', '__js_map_get', '__js_math_min', '__js_math_max', '__js_str'])

    def _all_array_names(self, st):
        out = set(st.heap)
        for cname, ci in self.reg.classes.items():
            for f in list(ci.fields) + list(ci.ghost):
                out.add('F:%s.%s' % (cname, f))
        return out

    def _contract_mod_patterns(self, c):
        pats = set()
        ptypes_of = dict((p, t) for p, t in list(c.params) + list(c.free))

        def static_type(e):
            if isinstance(e, ast.Name):
                return ptypes_of.get(e.id)
            if isinstance(e, ast.Attribute):
                bt = static_type(e.value)
                if bt is None:
                    return None
                if bt.kind == 'opt':
                    bt = bt.args[0]
                if bt.kind != 'obj':
                    return None
                home = self.reg.field_home(bt.args[0], e.attr)
                return home[1] if home else None
            return None
        for tgt, _ in c.ghost_updates:
            if isinstance(tgt, ast.Call) and isinstance(tgt.func, ast.Name) and tgt.func.id == 'is_held':
                pats.add('held')
        for m in c.modifies:
            if isinstance(m, ast.Call) and isinstance(m.func, ast.Name):
                f = m.func.id
                if f == 'contents':
                    pats.add('L')
                    continue
                if f == 'region':
                    pats.add('region')
                    continue
                if f == 'anything':
                    pats.add('*')
                    continue
                if f == 'anylist':
                    pats.add('L')
                    continue
                if f == 'fresh_only':
                    continue
                if f == 'family':
                    pats.add(('family', ast.literal_eval(m.args[0])))
                    continue
                if f == 'field':
                    t = static_type(m.args[0])
                    if t is not None and t.kind == 'obj':
                        home = self.reg.field_home(t.args[0], ast.literal_eval(m.args[1]))
                        if home is not None:
                            pats.add(('arr', 'F:%s.%s' % (home[0], ast.literal_eval(m.args[1]))))
                            continue
                    pats.add('*')
                    continue
            t = static_type(m)
            if t is None:
                pats.add('*')
                continue
            if t.kind == 'opt':
                t = t.args[0]
            if t.kind == 'obj':
                pats.add(('obj', t.args[0]))
            elif t.kind == 'list':
                pats.add('L')
            elif t.kind in ('dict', 'ddict'):
                pats.add('D')
            elif t.kind == 'set':
                pats.add('S')
        return pats

    def _pattern_arrays(self, pats, st):
        names = self._all_array_names(st)
        out = set()
        for p in pats:
            if p == '*':
                return set(n for n in names if n != '$srcs' and not n.endswith('.level') and not n.endswith('.sorted_iface'))
            if isinstance(p, tuple) and p[0] == 'family':
                out |= set(n for n in names if self._family_array(n, p[1]) and n.split('.')[-1] not in ('kind', 'jmv', 'nullw', 'kidx', 'hist', 'finalv'))
            elif isinstance(p, tuple) and p[0] == 'arr':
                out.add(p[1])
            elif p == 'held':
                out.add('$held')
            elif p == 'L':
                out |= set(n for n in names if n.startswith('L:'))
            elif p == 'D':
                out |= set(n for n in names if n.startswith('D'))
            elif p == 'S':
                out |= set(n for n in names if n.startswith('S'))
            elif p == 'region':
                out |= set(n for n in names if n.startswith('L:'))
                out.add('$wowned')
                for cname, ci in self.reg.classes.items():
                    if self._family(cname) == 'writer':
                        for f in list(ci.fields) + list(ci.ghost):
                            if f not in ('level', 'sorted_iface'):
                                out.add('F:%s.%s' % (cname, f))
            elif isinstance(p, tuple) and p[0] == 'obj':
                for root, f, fpt in self.reg.all_fields_of_family(p[1]):
                    if f not in ('level', 'sorted_iface'):
                        out.add('F:%s.%s' % (root, f))
        return out

    def _static_type(self, e, st):
        if isinstance(e, ast.Name):
            v = st.locals.get(e.id)
            return v.pt if v is not None else None
        if isinstance(e, ast.Attribute):
            bt = self._static_type(e.value, st)
            if bt is None:
                return None
            if bt.kind == 'opt':
                bt = bt.args[0]
            if bt.kind != 'obj':
                return None
            home = self.reg.field_home(bt.args[0], e.attr)
            return home[1] if home else None
        return None

    def _callee_candidates(self, call, st=None):
        """contracts / program functions a call node may refer to (receiver type if known, else by name)"""
        f = call.func
        if st is not None and isinstance(f, ast.Attribute):
            rt = self._static_type(f.value, st)
            if rt is not None and rt.kind == 'opt':
                rt = rt.args[0]
            if rt is not None and rt.kind == 'obj':
                from .calls import find_method
                q = find_method(self, rt.args[0], f.attr)
                if q is not None:
                    if q in self.reg.contracts:
                        return [('contract', self.reg.contracts[q])]
                    if q in self.program.functions:
                        return [('func', q, self.program.functions[q][1])]
        if isinstance(f, ast.Name):
            nm = f.id
        elif isinstance(f, ast.Attribute):
            nm = f.attr
        else:
            return None
        out = []
        for q in self.program.classes:
            if q.split('.')[-1] == nm:
                iq = q + '.__init__'
                if iq in self.reg.contracts:
                    return [('contract', self.reg.contracts[iq])]
                if iq in self.program.functions:
                    return [('func', iq, self.program.functions[iq][1])]
                return [('none',)]
        for tgt, c in self.reg.contracts.items():
            if tgt.split('.')[-1] == nm:
                out.append(('contract', c))
        if not out:
            for q, (mi, node, parent) in self.program.functions.items():
                if q.split('.')[-1] == nm:
                    out.append(('func', q, node))
        return out

    def _mod_arrays(self, stmts, st, depth=0):
        """conservative set of heap arrays a block may modify (syntactic inspection + callee contracts)"""
        out = set()
        names = self._all_array_names(st)
        for s in stmts:
            for n in ast.walk(s):
                if isinstance(n, ast.Attribute) and isinstance(n.ctx, ast.Store):
                    out |= set(k for k in names if k.startswith('F:') and k.endswith('.' + n.attr) and n.attr not in ('level', 'sorted_iface'))
                elif isinstance(n, ast.Subscript) and isinstance(n.ctx, (ast.Store, ast.Del)):
                    out |= set(k for k in names if k.startswith('L:') or k.startswith('D:') or k.startswith('DK:'))
                elif isinstance(n, ast.AugAssign) and isinstance(n.op, ast.Add):
                    out |= set(k for k in names if k.startswith('L:'))
                elif isinstance(n, ast.Call):
                    f = n.func
                    nm = f.id if isinstance(f, ast.Name) else (f.attr if isinstance(f, ast.Attribute) else None)
                    if isinstance(f, ast.Name) and nm in self.PURE_BUILTINS:
                        continue
                    if isinstance(f, ast.Attribute) and nm in self.PURE_METHODS:
                        continue
                    if isinstance(f, ast.Attribute) and nm in self.LIST_MUTATORS:
                        out |= set(k for k in names if k.startswith('L:'))
                        continue
                    if isinstance(f, ast.Attribute) and nm in self.SET_MUTATORS:
                        out |= set(k for k in names if k.startswith('S:') or k.startswith('SN:'))
                        continue
                    if nm is not None and (nm in BUILTIN_EXC or nm.endswith('Error') or nm.startswith('__H_')):
                        continue
                    cands = self._callee_candidates(n, st)
                    if not cands or depth > 3:
                        out |= set(k for k in names if k != '$srcs' and not k.endswith('.level') and not k.endswith('.sorted_iface'))
                        continue
                    for cand in cands:
                        if cand[0] == 'none':
                            continue
                        if cand[0] == 'contract':
                            c = cand[1]
                            if c.inline and c.target in self.program.functions:
                                out |= self._mod_arrays(self.program.functions[c.target][1].body, st, depth + 1)
                            else:
                                out |= self._pattern_arrays(self._contract_mod_patterns(c), st)
                        else:
                            out |= self._mod_arrays(cand[2].body, st, depth + 1)
        return out

    def _iter_seq(self, st, itv, s):
        """returns a function state -> Seq term being iterated (live for lists)"""
        k = itv.pt.kind
        if k == 'list':
            return lambda state: self.list_content(state, itv)
        if k == 'opt' and itv.pt.args[0].kind == 'list':
            inner = self.unwrap_opt(st, itv, s)
            return lambda state: self.list_content(state, inner)
        if k == 'seq':
            return lambda state: itv.t
        if k == 'range':
            return lambda state: itv.t
        if k == 'enumerate':
            inner = itv.py
            if inner.pt.kind == 'list':
                return lambda state: self.list_content(state, inner)
            if inner.pt.kind == 'seq':
                return lambda state: inner.t
        if k == 'str':
            return lambda state: itv.t
        if k == 'dictitems':
            d = itv.py
            return lambda state: self.dict_keys(state, d)
        if k == 'matchseq':
            return lambda state: itv.py[0].t
        raise OutOfSubset('iteration over %r at line %d' % (itv.pt, s.lineno))

    # try/raise -------------------------------------------------------------
    def st_Raise(self, s, st):
        if s.exc is None:
            cur = st.locals.get('__current_exc')
            if cur is None:
                raise OutOfSubset('bare raise outside handler')
            raise PyExc(cur.py)
        v = self.ev(s.exc, st)
        if v.pt.kind == 'excv':
            raise PyExc(v.py)
        if v.pt.kind == 'class':
            raise PyExc(ExcV(v.py))
        raise OutOfSubset('raise of %r' % (v.pt,))

    def st_Try(self, s, st):
        caught = set()
        for h in s.handlers:
            if h.type is None:
                caught.add('BaseException')
            else:
                for cn in self._handler_classes(h.type, st):
                    caught.add(cn)
        try:
            try:
                st.handlers.append(caught)
                try:
                    self.exec_block(s.body, st)
                finally:
                    st.handlers.pop()
            except PyExc as pe:
                exc = pe.exc
                handled = False
                for h in s.handlers:
                    classes = ['BaseException'] if h.type is None else self._handler_classes(h.type, st)
                    if any(self.exc_subclass(exc.cls, c) for c in classes):
                        handled = True
                        if h.name:
                            st.locals[h.name] = SV(PT('excv'), py=exc)
                        saved = st.locals.get('__current_exc')
                        st.locals['__current_exc'] = SV(PT('excv'), py=exc)
                        self.exec_block(h.body, st)
                        if saved is not None:
                            st.locals['__current_exc'] = saved
                        else:
                            st.locals.pop('__current_exc', None)
                        break
                if not handled:
                    raise
            else:
                self.exec_block(s.orelse, st)
        except (PyExc, _Return, _Break, _Continue):
            if s.finalbody:
                self.exec_block(s.finalbody, st)
            raise
        if s.finalbody:
            self.exec_block(s.finalbody, st)

    def _handler_classes(self, tnode, st):
        if isinstance(tnode, ast.Tuple):
            out = []
            for e in tnode.elts:
                out.extend(self._handler_classes(e, st))
            return out
        v = self.ev(tnode, st)
        if v.pt.kind == 'class':
            return [v.py]
        raise OutOfSubset('except clause type')

    # ------------------------------------------------------------ expressions
    def ev(self, node, st):
        m = getattr(self, 'ex_' + type(node).__name__, None)
        if m is None:
            raise OutOfSubset('expression %s at line %d' % (type(node).__name__, getattr(node, 'lineno', 0)))
        return m(node, st)

    def ex_Constant(self, n, st):
        v = n.value
        if v is None:
            return NONE
        if isinstance(v, bool):
            return SV(TBool, BoolC(v))
        if isinstance(v, int):
            return SV(TInt, IntC(v))
        if isinstance(v, float):
            return SV(TFloat, RealC(v))
        if isinstance(v, str):
            return SV(TStr, StrC(v))
        raise OutOfSubset('constant %r' % (v,))

    def ex_Name(self, n, st):
        v = st.locals.get(n.id)
        if v is not None:
            return v
        g = self.program.lookup_global(self.cur_module, n.id)
        if g is not None:
            if g.pt.kind == 'globalexpr':
                module, gname, node = g.py
                is_special = isinstance(node, ast.Call) and isinstance(node.func, (ast.Name, ast.Attribute)) and \
                    (getattr(node.func, 'id', None) == 'namedtuple' or getattr(node.func, 'attr', None) == 'compile')
                if not is_special and isinstance(node, (ast.IfExp, ast.Name, ast.BoolOp, ast.Compare)):
                    saved = self.cur_module
                    self.cur_module = module
                    try:
                        return self.ev(node, st)
                    finally:
                        self.cur_module = saved
            return g
        b = self.builtin_name(n.id)
        if b is not None:
            return b
        if n.id.startswith('__H_'):
            return SV(PT('func'), py=('oracle', n.id))
        # sibling closures / local classes of the enclosing function (the verified function is nested)
        q = self.func.qualname if self.func is not None else ''
        while '.' in q:
            q = q.rsplit('.', 1)[0]
            cand = q + '.' + n.id
            if cand in self.program.functions:
                return SV(PT('func'), py=('closure', self.program.functions[cand][1], cand))
            if cand in self.program.classes:
                return SV(PT('class'), py=cand)
        cand = '%s.%s' % (self.cur_module, n.id)
        c = self.reg.contracts.get(cand)
        if c is not None and c.trusted and cand not in self.program.functions:
            # a function of the module that is outside the subset (not extracted / translated) but has an ASSUMED contract: call by that contract
            return SV(PT('func'), py=('func', cand))
        raise OutOfSubset('unknown name %s at line %d' % (n.id, getattr(n, 'lineno', 0)))

    def builtin_name(self, name):
        if name in BUILTIN_EXC:
            return SV(PT('class'), py=name)
        if name in ('len', 'isinstance', 'int', 'float', 'str', 'list', 'tuple', 'sorted', 'enumerate', 'range', 'min', 'max',
                    'sum', 'dict', 'set', 'type', 'abs', 'bool', 'ord', 'all', 'any', 'next', 'compile', 'exec', 'open', 'print',
                    'basestring', 'xrange', 'unicode', '__js_map_get', '__js_math_min', '__js_math_max', '__js_str'):
            return SV(PT('func'), py=('builtin', name))
        return None

    def ex_Tuple(self, n, st):
        parts = [self.ev(e, st) for e in n.elts]
        return SV(PT('pytuple'), py=tuple(parts))

    def ex_List(self, n, st):
        parts = []
        star = None
        for e in n.elts:
            if isinstance(e, ast.Starred):
                parts.append(('*', self.ev(e.value, st)))
            else:
                parts.append(('1', self.ev(e, st)))
        if not parts:
            return SV(PT('emptylist'), py=None)
        ept = None
        for tag, p in parts:
            t = p.pt if tag == '1' else p.pt.args[0]
            ept = t if ept is None else ptypes.join_types(ept, t)
        if ept.kind == 'none':
            ept = TCell
        if ept.kind in ('pytuple',):
            if any(tag != '1' for tag, _ in parts):
                raise OutOfSubset('starred list of python tuples at line %d' % n.lineno)
            return SV(PT('pylistlit'), py=tuple(p for _, p in parts))
        segs = []
        for tag, p in parts:
            if tag == '1':
                segs.append(Unit(self.coerce(p, ept).t))
            else:
                segs.append(self.as_seq(st, p, ept))
        return self.new_list(st, ept, Concat(*segs) if segs else Empty(SeqS(sort_of(ept))))

    def as_seq(self, st, v, elem_pt):
        """content of list/seq value as Seq term of elem sort (coercing element type only when identical)"""
        if v.pt.kind == 'emptylist':
            return Empty(SeqS(sort_of(elem_pt)))
        if v.pt.kind == 'opt' and v.pt.args[0].kind == 'list':
            v = self.unwrap_opt(st, v, None)
        if v.pt.kind == 'list':
            if v.pt.args[0] != elem_pt:
                raise OutOfSubset('list element type %r vs %r' % (v.pt.args[0], elem_pt))
            return self.list_content(st, v)
        if v.pt.kind == 'seq':
            if v.pt.args[0] != elem_pt:
                raise OutOfSubset('seq element type %r vs %r' % (v.pt.args[0], elem_pt))
            return v.t
        if v.pt.kind == 'pytuple':
            return Concat(*[Unit(self.coerce(p, elem_pt).t) for p in v.py]) if v.py else Empty(SeqS(sort_of(elem_pt)))
        raise OutOfSubset('expected a sequence, got %r' % (v.pt,))

    def ex_Dict(self, n, st):
        if n.keys:
            keys = []
            for k in n.keys:
                kv = self.ev(k, st) if k is not None else None
                if kv is None or kv.t is None or kv.t.op != 'const':
                    raise OutOfSubset('dict display with a non-constant key at line %d' % n.lineno)
                keys.append(kv.t.val)
            return SV(PT('pydict'), py=dict((k, self.ev(v, st)) for k, v in zip(keys, n.values)))
        return SV(PT('emptydict'), py=None)

    def ex_IfExp(self, n, st):
        c = self.cond(n.test, st)
        if self.branch(st, c):
            return self.ev(n.body, st)
        return self.ev(n.orelse, st)

    def ex_BoolOp(self, n, st):
        is_and = isinstance(n.op, ast.And)
        # value semantics only needed for bool contexts in this code base: evaluate with short-circuit forks
        last = None
        for i, e in enumerate(n.values):
            v = self.ev(e, st)
            last = v
            if i == len(n.values) - 1:
                break
            c = self.truth(st, v)
            if c.op == 'const':
                if bool(c.val) != is_and:
                    return v if v.pt.kind != 'bool' else SV(TBool, BoolC(not is_and))
                continue
            if self._pure(n.values[i + 1:]):
                # no side effects ahead: build a term instead of forking
                rest = [c]
                npc = len(st.pc)
                # later operands are only evaluated when the earlier ones did not decide the result:
                # obligations raised while evaluating them carry that guard
                guard = c if is_and else Not(c)
                st.pc.append(guard)
                for e2 in n.values[i + 1:]:
                    v2 = self.ev(e2, st)
                    t2 = self.truth(st, v2)
                    rest.append(t2)
                    st.pc.append(t2 if is_and else Not(t2))
                del st.pc[npc:]
                return SV(TBool, And(*rest) if is_and else Or(*rest))
            k = self.branch(st, c)
            if k != is_and:
                return SV(TBool, BoolC(not is_and)) if v.pt.kind == 'bool' else v
        return last

    def _pure(self, nodes):
        for e in nodes:
            for x in ast.walk(e):
                if isinstance(x, ast.Call):
                    f = x.func
                    nm = f.id if isinstance(f, ast.Name) else (f.attr if isinstance(f, ast.Attribute) else None)
                    if nm not in ('len', 'isinstance', 'find', 'startswith', 'count', 'is_str6', 'type', 'old', 'contents'):
                        return False
                if isinstance(x, ast.Subscript):
                    return False
                if isinstance(x, (ast.IfExp,)):
                    return False
        return True

    def ex_UnaryOp(self, n, st):
        v = self.ev(n.operand, st)
        if isinstance(n.op, ast.Not):
            return SV(TBool, Not(self.truth(st, v)))
        if isinstance(n.op, ast.USub):
            if v.pt.kind == 'int':
                return SV(TInt, smt.Neg(v.t))
            if v.pt.kind == 'float':
                return SV(TFloat, smt.Neg(v.t))
        raise OutOfSubset('unary op at line %d' % n.lineno)

    def ex_BinOp(self, n, st):
        a = self.ev(n.left, st)
        b = self.ev(n.right, st)
        return self.binop(n.op, a, b, st, n)

    def binop(self, op, a, b, st, node):
        ka, kb = a.pt.kind, b.pt.kind
        if ka == 'opt':
            a = self.unwrap_opt(st, a, node)
            ka = a.pt.kind
        if kb == 'opt':
            b = self.unwrap_opt(st, b, node)
            kb = b.pt.kind
        if isinstance(op, ast.Add):
            if ka == 'int' and kb == 'int':
                return SV(TInt, Add(a.t, b.t))
            if ka in ('int', 'float') and kb in ('int', 'float'):
                return SV(TFloat, Add(smt.ToReal(a.t), smt.ToReal(b.t)))
            if ka == 'str' and kb == 'str':
                return SV(TStr, Concat(a.t, b.t))
            if ka in ('list', 'emptylist') and kb in ('list', 'emptylist'):
                ept = a.pt.args[0] if ka == 'list' else (b.pt.args[0] if kb == 'list' else TCell)
                return self.new_list(st, ept, Concat(self.as_seq(st, a, ept), self.as_seq(st, b, ept)))
            if ka == 'seq' and kb in ('seq', 'pytuple', 'emptylist', 'list'):
                return SV(a.pt, Concat(a.t, self.as_seq(st, b, a.pt.args[0])))
            if ka in ('pytuple', 'emptylist') and kb == 'seq':
                return SV(b.pt, Concat(self.as_seq(st, a, b.pt.args[0]), b.t))
            if (ka == 'str' and kb == 'cell') or (ka == 'cell' and kb == 'str'):
                # str + cell: concatenation when the cell holds text, TypeError otherwise
                c = b.t if kb == 'cell' else a.t
                if not self.branch(st, ptypes.cell_is_str(c), raising='TypeError', node=node):
                    raise PyExc(ExcV('TypeError'))
                sa = a.t if ka == 'str' else ptypes.cell_sval(a.t)
                sb = b.t if kb == 'str' else ptypes.cell_sval(b.t)
                return SV(TStr, Concat(sa, sb))
            if ka == 'cell' or kb == 'cell':
                ca, cb = self.coerce(a, TCell).t, self.coerce(b, TCell).t
                self.num_guard(st, ca, cb, node)
                return SV(TCell, ptypes.cell_arith('+', ca, cb))
        if isinstance(op, (ast.Sub, ast.Mult)):
            sym = '-' if isinstance(op, ast.Sub) else '*'
            f = Sub if sym == '-' else Mul
            if ka == 'int' and kb == 'int':
                return SV(TInt, f(a.t, b.t))
            if ka in ('int', 'float') and kb in ('int', 'float'):
                return SV(TFloat, f(smt.ToReal(a.t), smt.ToReal(b.t)))
            if sym == '*' and ka == 'list' and kb == 'int':
                return self.list_repeat(st, a, b, node)
            if sym == '*' and ka == 'str' and kb == 'int':
                return SV(TStr, self.str_repeat(st, a.t, b.t))
            if ka == 'cell' or kb == 'cell':
                ca, cb = self.coerce(a, TCell).t, self.coerce(b, TCell).t
                self.num_guard(st, ca, cb, node)
                return SV(TCell, ptypes.cell_arith(sym, ca, cb))
        if isinstance(op, ast.Div):
            if ka in ('int', 'float') and kb in ('int', 'float'):
                nz = Not(Eq(smt.ToReal(b.t), RealC(0.0)))
                if not self.branch(st, nz, raising='ZeroDivisionError', node=node):
                    raise PyExc(ExcV('ZeroDivisionError'))
                return SV(TFloat, smt.RDiv(smt.ToReal(a.t), smt.ToReal(b.t)))
            if ka == 'cell' or kb == 'cell':
                ca, cb = self.coerce(a, TCell).t, self.coerce(b, TCell).t
                self.num_guard(st, ca, cb, node)
                nz = Not(Eq(ptypes.cell_num(cb), RealC(0.0)))
                if not self.branch(st, nz, raising='ZeroDivisionError', node=node):
                    raise PyExc(ExcV('ZeroDivisionError'))
                return SV(TFloat, smt.RDiv(ptypes.cell_num(ca), ptypes.cell_num(cb)))
        if isinstance(op, ast.FloorDiv) and ka == 'int' and kb == 'int':
            return SV(TInt, smt.Div(a.t, b.t))
        if isinstance(op, ast.Mod) and ka == 'int' and kb == 'int':
            if b.t.op == 'const' and b.t.val > 0:
                return SV(TInt, smt.Mod(a.t, b.t))
            # symbolic divisor: ZeroDivisionError on 0; for a positive divisor only the range of the result is kept
            # (a weaker, linear fact: the solvers do not cope with mod by a variable); negative divisors: no fact at all
            if not self.branch(st, Not(Eq(b.t, IntC(0))), raising='ZeroDivisionError', node=node):
                raise PyExc(ExcV('ZeroDivisionError'))
            r = fresh('mod', INT)
            st.pc.append(Implies(Gt(b.t, IntC(0)), And(Ge(r, IntC(0)), Lt(r, b.t))))
            return SV(TInt, r)
        if isinstance(op, ast.Pow):
            if isinstance(node, ast.BinOp) and isinstance(node.right, ast.Constant) and node.right.value == 2:
                return self.binop(ast.Mult(), a, a, st, node)
        raise OutOfSubset('binary op %s on %r, %r at line %d' % (type(op).__name__, a.pt, b.pt, getattr(node, 'lineno', 0)))

    def num_guard(self, st, ca, cb, node):
        ok = And(ptypes.cell_is_num(ca), ptypes.cell_is_num(cb))
        if not self.branch(st, ok, raising='TypeError', node=node):
            raise PyExc(ExcV('TypeError'))

    def list_repeat(self, st, a, n, node):
        seq = self.list_content(st, a)
        if not (seq.op == 'seq.unit'):
            raise OutOfSubset('list repeat of non-singleton')
        if a.pt.args[0].kind == 'cell':
            from . import speclib
            r = speclib.spec_app(self, 'rep_cells', [SV(TCell, seq.args[0]), n], None)
            return self.new_list(st, TCell, r.t)
        s = fresh('rep', seq.sort)
        i = BVar('i', INT)
        st.pc.append(Eq(Len(s), Ite(Ge(n.t, IntC(0)), n.t, IntC(0))))
        st.pc.append(smt.ForAll([i], Implies(And(Ge(i, IntC(0)), Lt(i, Len(s))), Eq(Nth(s, i), seq.args[0]))))
        return self.new_list(st, a.pt.args[0], s)

    def str_repeat(self, st, s, n):
        if s.op == 'const' and len(s.val) == 1:
            r = fresh('srep', STR)
            i = BVar('i', INT)
            st.pc.append(Eq(Len(r), Ite(Ge(n, IntC(0)), n, IntC(0))))
            st.pc.append(smt.ForAll([i], Implies(And(Ge(i, IntC(0)), Lt(i, Len(r))), Eq(Nth(r, i), s))))
            return r
        raise OutOfSubset('string repeat')

    def ex_Compare(self, n, st):
        left = self.ev(n.left, st)
        res = []
        for op, rn in zip(n.ops, n.comparators):
            right = self.ev(rn, st)
            res.append(self.compare(op, left, right, st, n))
            left = right
        return SV(TBool, And(*res))

    def compare(self, op, a, b, st, node):
        if isinstance(op, (ast.Is, ast.IsNot)):
            t = self.is_same(a, b, st, node)
            return t if isinstance(op, ast.Is) else Not(t)
        if isinstance(op, (ast.Eq, ast.NotEq)):
            t = self.py_eq(a, b, st, node)
            return t if isinstance(op, ast.Eq) else Not(t)
        if isinstance(op, (ast.In, ast.NotIn)):
            t = self.contains(b, a, st, node)
            return t if isinstance(op, ast.In) else Not(t)
        ka, kb = a.pt.kind, b.pt.kind
        f = {ast.Lt: Lt, ast.LtE: Le, ast.Gt: Gt, ast.GtE: Ge}[type(op)]
        if ka == 'opt':
            a = self.unwrap_opt(st, a, node)
            ka = a.pt.kind
        if kb == 'opt':
            b = self.unwrap_opt(st, b, node)
            kb = b.pt.kind
        if ka == 'int' and kb == 'int':
            return f(a.t, b.t)
        if ka in ('int', 'float') and kb in ('int', 'float'):
            return f(smt.ToReal(a.t), smt.ToReal(b.t))
        if ka == 'cell' or kb == 'cell':
            ca, cb = self.coerce(a, TCell).t, self.coerce(b, TCell).t
            self.num_guard(st, ca, cb, node)
            return f(ptypes.cell_num(ca), ptypes.cell_num(cb))
        raise OutOfSubset('ordering comparison on %r, %r at line %d' % (a.pt, b.pt, node.lineno))

    def is_same(self, a, b, st, node):
        ka, kb = a.pt.kind, b.pt.kind
        if kb == 'none':
            if ka == 'none':
                return TRUE
            if ka == 'optmatch':
                r = a.py[0]
                return ptypes.opt_is_none(r.pt, r.t)
            if ka == 'opt':
                return ptypes.opt_is_none(a.pt, a.t)
            if ka == 'cell':
                return ptypes.cell_is_none(a.t)
            return FALSE
        if ka == 'none':
            return self.is_same(b, a, st, node)
        if ka == 'class' and kb == 'class':
            return BoolC(a.py == b.py)
        if ka == 'clsid' or kb == 'clsid':
            return self.clsid_eq(a, b)
        if a.pt.is_ref() and b.pt.is_ref():
            return Eq(a.t, b.t)
        if ka == 'opt' and kb == 'opt' and a.pt.args[0].is_ref():
            return Eq(a.t, b.t)
        if ka == 'bool' and kb == 'bool':
            return Eq(a.t, b.t)
        raise OutOfSubset('`is` on %r, %r at line %d' % (a.pt, b.pt, getattr(node, 'lineno', 0)))

    def clsid_eq(self, a, b):
        def cid(v):
            if v.pt.kind == 'clsid':
                return v.t
            if v.pt.kind == 'class':
                return IntC(self.program.class_id(v.py))
            raise OutOfSubset('type() comparison')
        return Eq(cid(a), cid(b))

    def py_eq(self, a, b, st, node):
        ka, kb = a.pt.kind, b.pt.kind
        if ka == 'none' or kb == 'none':
            return self.is_same(a, b, st, node)
        if ka == 'clsid' or kb == 'clsid' or (ka == 'class' and kb == 'class'):
            return self.clsid_eq(a, b) if 'clsid' in (ka, kb) else BoolC(a.py == b.py)
        if a.pt == b.pt:
            if ka == 'cell':
                return ptypes.cell_eq(a.t, b.t)
            if ka in ('int', 'bool', 'str', 'float', 'key', 'seq', 'tuple', 'jkey', 'map', 'mtag'):
                return Eq(a.t, b.t)
            if ka == 'opt' and not a.pt.args[0].is_ref():
                return Eq(a.t, b.t)
            if ka == 'list':
                # list equality compares contents
                if a.pt.args[0].kind in ('cell', 'str', 'int'):
                    ca, cb = self.list_content(st, a), self.list_content(st, b)
                    if a.pt.args[0].kind == 'cell':
                        raise OutOfSubset('== on lists of cells')
                    return Eq(ca, cb)
            if ka == 'pytuple' and len(a.py) == len(b.py):
                return And(*[self.py_eq(x, y, st, node) for x, y in zip(a.py, b.py)])
        if ka in ('int', 'float') and kb in ('int', 'float'):
            return Eq(smt.ToReal(a.t), smt.ToReal(b.t))
        if 'cell' in (ka, kb):
            try:
                ca, cb = self.coerce(a, TCell), self.coerce(b, TCell)
            except OutOfSubset:
                raise
            return ptypes.cell_eq(ca.t, cb.t)
        if ka == 'opt' and a.pt.args[0] == b.pt:
            return And(Not(ptypes.opt_is_none(a.pt, a.t)), self.py_eq(SV(b.pt, ptypes.opt_val(a.pt, a.t)), b, st, node))
        if kb == 'opt' and b.pt.args[0] == a.pt:
            return self.py_eq(b, a, st, node)
        if ka == 'seq' and kb in ('pytuple', 'emptylist'):
            return Eq(a.t, self.as_seq(st, b, a.pt.args[0]))
        if kb == 'seq' and ka in ('pytuple', 'emptylist'):
            return Eq(b.t, self.as_seq(st, a, b.pt.args[0]))
        if ka == 'seq' and kb == 'list' and a.pt.args[0] == b.pt.args[0]:
            return Eq(a.t, self.list_content(st, b))
        if set((ka, kb)) <= set(('int', 'str', 'bool', 'float')) and ka != kb:
            return FALSE
        raise OutOfSubset('== on %r, %r at line %d' % (a.pt, b.pt, getattr(node, 'lineno', 0)))

    def contains(self, cont, x, st, node):
        k = cont.pt.kind
        if k == 'pylist' or k == 'pytuple':
            return Or(*[self.py_eq(x, e, st, node) for e in cont.py])
        if k == 'list' and cont.t is not None:
            seq = self.list_content(st, cont)
            if seq.op in ('seq.++', 'seq.unit', 'seq.empty'):
                parts = seq.args if seq.op == 'seq.++' else ([seq] if seq.op == 'seq.unit' else [])
                if all(p.op == 'seq.unit' for p in parts):
                    return Or(*[self.py_eq(x, SV(cont.pt.args[0], p.args[0]), st, node) for p in parts])
            xe = self.coerce(x, cont.pt.args[0])
            if cont.pt.args[0].kind == 'cell':
                raise OutOfSubset('`in` on list of cells')
            return smt.Contains(seq, Unit(xe.t))
        if k == 'seq':
            xe = self.coerce(x, cont.pt.args[0])
            return smt.Contains(cont.t, Unit(xe.t))
        if k == 'str':
            if x.pt.kind != 'str':
                raise OutOfSubset('in str')
            return smt.Contains(cont.t, x.t)
        if k in ('dict', 'ddict'):
            return self.dict_has(st, cont, x)
        if k == 'set':
            return self.set_has(st, cont, x)
        if k == 'emptylist':
            return FALSE
        if k == 'recdict':
            if x.t is None or x.t.op != 'const':
                raise OutOfSubset('`in` on a record dict with a non-constant key at line %d' % getattr(node, 'lineno', 0))
            f = ptypes.recdict_field(cont.pt, cont.t, x.t.val)
            if f is None:
                raise OutOfSubset('key %r is not declared for this record dict (line %d)' % (x.t.val, getattr(node, 'lineno', 0)))
            return f[0]
        raise OutOfSubset('`in` on %r at line %d' % (cont.pt, getattr(node, 'lineno', 0)))

    # optional ----------------------------------------------------------
    def unwrap_opt(self, st, v, node):
        if v.pt.kind != 'opt':
            if v.pt.kind == 'none':
                raise PyExc(ExcV('TypeError'))
            return v
        isn = ptypes.opt_is_none(v.pt, v.t)
        ok = self.branch(st, Not(isn), raising='TypeError', node=node)
        if not ok:
            raise PyExc(ExcV('TypeError'))
        return SV(v.pt.args[0], ptypes.opt_val(v.pt, v.t))

    # attribute / subscript ------------------------------------------------
    def ex_Attribute(self, n, st):
        base = self.ev(n.value, st)
        k = base.pt.kind
        if k == 'module' and base.py == 'sys' and n.attr in ('stdout', 'stderr', 'stdin'):
            v = SV(TObj('io.OutStream' if n.attr != 'stdin' else 'io.TextStream'), Var('G!sys.' + n.attr, INT))
            self.assume_wf(st, v)
            return v
        if k == 'module':
            g = self.program.lookup_module_attr(base.py, n.attr)
            if g is None:
                if '%s.%s' % (base.py, n.attr) in self.reg.classes:
                    return SV(PT('class'), py='%s.%s' % (base.py, n.attr))      # a class of a dependency declared in the contracts
                if base.py == 'os' and n.attr == 'path':
                    return SV(PT('module'), py='os.path')      # a submodule: its functions are known by assumed contracts only
                return SV(PT('func'), py=('modfunc', base.py, n.attr))
            return g
        if k == 'opt' and base.pt.args[0].kind == 'obj':
            base = self.unwrap_opt(st, base, n)
            k = 'obj'
        if k == 'cell':
            owners = [c for c, ci in self.reg.classes.items() if n.attr in ci.fields]
            if len(owners) == 1:
                c = base.t
                ok = And(ptypes.dt_test('CObj', c), Eq(Select(self.cls_arr(), ptypes.dt_sel('oid', c, INT, 'CObj')), IntC(self.program.class_id(owners[0]))))
                if not self.branch(st, ok, raising='AttributeError', node=n):
                    raise PyExc(ExcV('AttributeError'))
                return self.get_field(st, SV(TObj(owners[0]), ptypes.dt_sel('oid', c, INT, 'CObj')), n.attr)
            raise OutOfSubset('attribute %s of a cell at line %d' % (n.attr, n.lineno))
        if k == 'obj':
            home = self.reg.field_home(base.pt.args[0], n.attr)
            if home is not None:
                return self.get_field(st, base, n.attr)
            down = self.reg.field_home_down(base.pt.args[0], n.attr)
            if down is not None:
                ok = Eq(Select(self.cls_arr(), base.t), IntC(self.program.class_id(down[0])))
                if not self.branch(st, ok, raising='AttributeError', node=n):
                    raise PyExc(ExcV('AttributeError'))
                return self.get_field(st, SV(TObj(down[0]), base.t), n.attr)
            return SV(PT('method'), py=(base, n.attr))
        if k == 'opt' and base.pt.args[0].kind == 'tuple':
            base = self.unwrap_opt(st, base, n)
            k = 'tuple'
        if k == 'tuple':
            from .cexpr import NAMED_TUPLES
            names = NAMED_TUPLES.get(base.pt)
            if names is not None and n.attr in names:
                i = names.index(n.attr)
                return self.wf(st, SV(base.pt.args[i], ptypes.tuple_get(base.pt, base.t, i)))
        if k == 'excv':
            exc = base.py
            if n.attr in exc.fields:
                return exc.fields[n.attr]
            if n.attr == 'errno':
                return SV(TInt, fresh('errno', INT))
            raise OutOfSubset('exception attribute %s' % n.attr)
        if k == 'class':
            return SV(PT('method'), py=(base, n.attr))
        return SV(PT('method'), py=(base, n.attr))

    def ex_Subscript(self, n, st):
        base = self.ev(n.value, st)
        if isinstance(n.slice, ast.Slice):
            return self.slice_load(st, base, n.slice, n)
        idx = self.ev(n.slice, st)
        return self.subscript_load(st, base, idx, n)

    def norm_index(self, i, ln, st=None):
        if i.op == 'const':
            return i if i.val >= 0 else Add(ln, i)
        if st is not None:
            # a syntactic `i >= 0` fact on the path (loop counters) makes the wrap-around case dead
            nonneg = Ge(i, IntC(0))
            for f in reversed(st.pc[-400:]):
                if f is nonneg or f == nonneg:
                    return i
        return Ite(Lt(i, IntC(0)), Add(i, ln), i)

    def subscript_load(self, st, base, idx, node):
        k = base.pt.kind
        if k == 'opt':
            base = self.unwrap_opt(st, base, node)
            k = base.pt.kind
        if idx.pt.kind == 'opt' and k in ('list', 'seq', 'str'):
            idx = self.unwrap_opt(st, idx, node)
        if k in ('list', 'seq', 'str'):
            seq = self.list_content(st, base) if k == 'list' else base.t
            if idx.pt.kind != 'int':
                raise OutOfSubset('index type %r at line %d' % (idx.pt, node.lineno))
            ln = Len(seq)
            j = self.norm_index(idx.t, ln, st)
            ok = And(Ge(j, IntC(0)), Lt(j, ln))
            if not self.branch(st, ok, raising='IndexError', node=node):
                raise PyExc(ExcV('IndexError'))
            if k == 'str':
                return SV(TStr, Nth(seq, j))
            return self.wf(st, SV(base.pt.args[0], Nth(seq, j)))
        if k == 'pydict':
            # a literal {const: value, ...} indexed by a symbolic key: one path per entry, KeyError otherwise
            if idx.t is not None and idx.t.op == 'const':
                if idx.t.val in base.py:
                    return base.py[idx.t.val]
                raise PyExc(ExcV('KeyError'))
            for kc, v in base.py.items():
                kt = StrC(kc) if isinstance(kc, str) else IntC(kc)
                if self.branch(st, Eq(idx.t, kt)):
                    return v
            if not self.branch(st, FALSE, raising='KeyError', node=node):
                raise PyExc(ExcV('KeyError'))
        if k == 'recdict':
            if idx.t is None or idx.t.op != 'const':
                raise OutOfSubset('record dict indexed by a non-constant key at line %d' % node.lineno)
            f = ptypes.recdict_field(base.pt, base.t, idx.t.val)
            if f is None:
                raise OutOfSubset('key %r is not declared for this record dict (line %d)' % (idx.t.val, node.lineno))
            if not self.branch(st, f[0], raising='KeyError', node=node):
                raise PyExc(ExcV('KeyError'))
            return f[1]
        if k == 'pytuple':
            if idx.t is not None and idx.t.op == 'const':
                return base.py[idx.t.val]
            raise OutOfSubset('symbolic index into python tuple')
        if k == 'tuple':
            if idx.t.op == 'const':
                i = idx.t.val
                return self.wf(st, SV(base.pt.args[i], ptypes.tuple_get(base.pt, base.t, i)))
            raise OutOfSubset('symbolic index into tuple')
        if k == 'pydict':
            if idx.t is not None and idx.t.op == 'const':
                if idx.t.val in base.py:
                    return base.py[idx.t.val]
                raise PyExc(ExcV('KeyError'))
            # lookup of a symbolic key in a literal dict: if-chain
            keys = list(base.py)
            for kk in keys:
                c = Eq(idx.t, StrC(kk) if isinstance(kk, str) else IntC(kk))
                if self.branch(st, c):
                    return base.py[kk]
            raise PyExc(ExcV('KeyError'))
        if k in ('dict', 'ddict'):
            return self.dict_get_item(st, base, idx, node)
        raise OutOfSubset('subscript on %r at line %d' % (base.pt, node.lineno))

    def clampi(self, x, ln):
        if x.op == 'const' and x.val >= 0 and ln.op == 'const':
            return IntC(min(x.val, ln.val))
        if x.op == 'const' and x.val == 0:
            return x
        neg = Ite(Lt(Add(x, ln), IntC(0)), IntC(0), Add(x, ln))
        pos = Ite(Gt(x, ln), ln, x)
        if x.op == 'const':
            return neg if x.val < 0 else pos
        return Ite(Lt(x, IntC(0)), neg, pos)

    def slice_load(self, st, base, sl, node):
        if sl.step is not None:
            raise OutOfSubset('slice step')
        k = base.pt.kind
        if k == 'opt':
            base = self.unwrap_opt(st, base, node)
            k = base.pt.kind
        if k not in ('list', 'seq', 'str'):
            if base.pt.kind == 'globalexpr' and sl.lower is None and sl.upper is None:
                # X[:] of a module-level container: a private copy; only handed on as an opaque value
                return SV(PT('opaque'), py=('copy-of-global', base.py[1]))
            raise OutOfSubset('slice of %r' % (base.pt,))
        seq = self.list_content(st, base) if k == 'list' else base.t
        ln = Len(seq)
        lo_t = None if sl.lower is None else self._int(self.ev(sl.lower, st))
        hi_t = None if sl.upper is None else self._int(self.ev(sl.upper, st))
        res = slice_term(self, seq, lo_t, hi_t)
        if k == 'list':
            return self.new_list(st, base.pt.args[0], res)
        return SV(base.pt, res)

    def _int(self, v):
        if v.pt.kind != 'int':
            raise OutOfSubset('expected int, got %r' % (v.pt,))
        return v.t

    def subscript_store(self, st, base, idx, val, node):
        k = base.pt.kind
        if k == 'opt':
            base = self.unwrap_opt(st, base, node)
            k = base.pt.kind
        if idx.pt.kind == 'opt':
            idx = self.unwrap_opt(st, idx, node)
        if k == 'list':
            seq = self.list_content(st, base)
            ln = Len(seq)
            j = self.norm_index(self._int(idx), ln, st)
            ok = And(Ge(j, IntC(0)), Lt(j, ln))
            if not self.branch(st, ok, raising='IndexError', node=node):
                raise PyExc(ExcV('IndexError'))
            v = self.coerce(val, base.pt.args[0])
            if j.op == 'const' and j.val == 0:
                new = Concat(Unit(v.t), Extract(seq, IntC(1), Sub(ln, IntC(1))))       # xs[0] = v: same value, no empty prefix for the solver to get lost in
            else:
                new = Concat(Extract(seq, IntC(0), j), Unit(v.t), Extract(seq, Add(j, IntC(1)), Sub(Sub(ln, j), IntC(1))))
            self.set_list_content(st, base, new, node)
            return
        if k in ('dict', 'ddict'):
            self.dict_set_item(st, base, idx, val, node)
            return
        raise OutOfSubset('subscript store on %r at line %d' % (base.pt, node.lineno))

    # dict / set models ---------------------------------------------------
    def _dict_arrs(self, st, d):
        kpt, vpt = d.pt.args
        ks, vs = sort_of(kpt), sort_of(vpt)
        opt = TOpt(vpt) if vpt.kind not in ('opt', 'cell', 'none') else PT('opt', vpt)
        osort = sort_of(PT('opt', vpt)) if not vpt.is_ref() else None
        if vpt.is_ref():
            msort = ArrS(ks, INT)
        else:
            msort = ArrS(ks, sort_of(PT('opt', vpt)))
        mname = 'D:%s:%s' % (ks, vs)
        kname = 'DK:%s:%s' % (ks, vs)
        m = self.harr(st, mname, ArrS(INT, msort))
        korder = self.harr(st, kname, ArrS(INT, SeqS(ks)))
        return mname, kname, m, korder, PT('opt', vpt)

    def dict_keys(self, st, d):
        mname, kname, m, korder, opt = self._dict_arrs(st, d)
        return Select(korder, d.t)

    def dict_has(self, st, d, key):
        mname, kname, m, korder, opt = self._dict_arrs(st, d)
        key = self.coerce(key, d.pt.args[0])
        return Not(ptypes.opt_is_none(opt, Select(Select(m, d.t), key.t)))

    def dict_lookup(self, st, d, key):
        """(present?, value SV)"""
        mname, kname, m, korder, opt = self._dict_arrs(st, d)
        key = self.coerce(key, d.pt.args[0])
        e = Select(Select(m, d.t), key.t)
        return Not(ptypes.opt_is_none(opt, e)), SV(d.pt.args[1], ptypes.opt_val(opt, e))

    def dict_put(self, st, d, key, val, node=None):
        mname, kname, m, korder, opt = self._dict_arrs(st, d)
        key = self.coerce(key, d.pt.args[0])
        val = self.coerce(val, d.pt.args[1])
        inner = Select(m, d.t)
        present = Not(ptypes.opt_is_none(opt, Select(inner, key.t)))
        st.heap[mname] = Store(m, d.t, Store(inner, key.t, ptypes.opt_some(opt, val.t)))
        ko = Select(korder, d.t)
        known = None
        npres = Not(present)
        for f in reversed(st.pc[-50:]):
            if f == present:
                known = True
                break
            if f == npres:
                known = False
                break
        if known is True:
            return
        newko = Concat(ko, Unit(key.t)) if known is False else Ite(present, ko, Concat(ko, Unit(key.t)))
        st.heap[kname] = Store(korder, d.t, newko)

    def dict_get_item(self, st, d, key, node):
        present, v = self.dict_lookup(st, d, key)
        if d.pt.kind == 'ddict':
            if self.branch(st, present):
                return self.wf(st, v)
            dv = self.default_value(st, d.pt.args[1])
            self.dict_put(st, d, key, dv, node)
            return dv
        if not self.branch(st, present, raising='KeyError', node=node):
            raise PyExc(ExcV('KeyError', fields={'key': key}))
        return self.wf(st, v)

    def default_value(self, st, pt):
        if pt.kind == 'int':
            return SV(TInt, IntC(0))
        if pt.kind == 'cell':
            return SV(TCell, ptypes.CI(IntC(0)))
        if pt.kind == 'list':
            return self.new_list(st, pt.args[0], Empty(SeqS(sort_of(pt.args[0]))))
        raise OutOfSubset('defaultdict of %r' % (pt,))

    def dict_set_item(self, st, d, key, val, node):
        self.dict_put(st, d, key, val, node)

    def _set_arrs(self, st, s):
        ks = sort_of(s.pt.args[0])
        mname, nname = 'S:' + ks, 'SN:' + ks
        return mname, nname, self.harr(st, mname, ArrS(INT, ArrS(ks, BOOL))), self.harr(st, nname, ArrS(INT, INT))

    def set_has(self, st, s, x):
        mname, nname, m, n = self._set_arrs(st, s)
        x = self.coerce(x, s.pt.args[0])
        return Select(Select(m, s.t), x.t)

    def set_add(self, st, s, x):
        mname, nname, m, n = self._set_arrs(st, s)
        x = self.coerce(x, s.pt.args[0])
        inner = Select(m, s.t)
        had = Select(inner, x.t)
        st.heap[mname] = Store(m, s.t, Store(inner, x.t, TRUE))
        st.heap[nname] = Store(n, s.t, Add(Select(n, s.t), Ite(had, IntC(0), IntC(1))))

    def set_len(self, st, s):
        mname, nname, m, n = self._set_arrs(st, s)
        st.pc.append(Ge(Select(n, s.t), IntC(0)))
        return Select(n, s.t)

    # ------------------------------------------------------------ calls
    def ex_Call(self, n, st):
        from . import calls
        return calls.do_call(self, n, st)

    def ex_JoinedStr(self, n, st):
        raise OutOfSubset('f-string')

    def ex_Lambda(self, n, st):
        return SV(PT('func'), py=('lambda', n))

    def ex_ListComp(self, n, st):
        from . import calls
        return calls.list_comp(self, n, st)

    def ex_Starred(self, n, st):
        raise OutOfSubset('starred expression')

    # ------------------------------------------------------------ contract expressions
    def ceval(self, expr, st, entry, result, loop_entry=None, owner=None):
        """evaluate a contract clause to a Bool term (pure: no forks, no obligations)"""
        v = self.cvalue(expr, st, entry, result, loop_entry, owner)
        if v.pt.kind != 'bool':
            return self.truth(st, v)
        return v.t

    def cvalue(self, expr, st, entry, result, loop_entry=None, owner=None):
        from . import cexpr
        ce = cexpr.CEval(self, st, entry, result, loop_entry, None, st.pc)
        ce.owner = owner if owner is not None else self.contract
        return ce.ev(expr)


def slice_term(ex, seq, lo_t, hi_t):
    """Python seq[lo:hi] (step 1) as an extract; SMT extract yields empty for negative length or an
    offset beyond the end, which coincides with Python for the cheap cases singled out here."""
    ln = Len(seq)
    if lo_t is None and hi_t is None:
        return seq
    if lo_t is None:
        if hi_t.op == 'const' and hi_t.val < 0:
            return Extract(seq, IntC(0), Add(ln, hi_t))
        if hi_t.op == 'const':
            return Extract(seq, IntC(0), hi_t)
        return Extract(seq, IntC(0), ex.clampi(hi_t, ln))
    if hi_t is None:
        if lo_t.op == 'const' and lo_t.val >= 0:
            return Extract(seq, lo_t, Sub(ln, lo_t))
        lo = ex.clampi(lo_t, ln)
        return Extract(seq, lo, Sub(ln, lo))
    lo = lo_t if (lo_t.op == 'const' and lo_t.val >= 0) else ex.clampi(lo_t, ln)
    hi = ex.clampi(hi_t, ln)
    return Extract(seq, lo, Sub(hi, lo))


def seq_elem_sv(ex, st, itv, seq, i):
    k = itv.pt.kind
    if k == 'range':
        return SV(TInt, Nth(seq, i)) if seq.op != 'range' else None
    if k == 'enumerate':
        inner = itv.py
        e = SV(inner.pt.args[0], Nth(seq, i))
        ex.assume_wf(st, e)
        return SV(PT('pytuple'), py=(SV(TInt, i), e))
    if k == 'str':
        return SV(TStr, Nth(seq, i))
    if k == 'matchseq':
        r, src = itv.py
        return SV(PT('match'), py=(SV(r.pt.args[0], Nth(seq, i)), src))
    if k == 'dictitems':
        d = itv.py
        key = SV(d.pt.args[0], Nth(seq, i))
        present, val = ex.dict_lookup(st, d, key)
        st.pc.append(present)
        return SV(PT('pytuple'), py=(key, val))
    pt = itv.pt.args[0].args[0] if k == 'opt' else itv.pt.args[0]
    if k == 'seq' and seq.op == "var" and seq.val in RANGE_SEQS:
        # range(n)[i] == i for 0 <= i < n (the loop body runs under that guard)
        return SV(TInt, i)
    e = SV(pt, Nth(seq, i))
    ex.assume_wf(st, e)
    return e


RANGE_SEQS = set()
