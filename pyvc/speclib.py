"""Spec functions: Python-executable definitions in /verif/specs/*.py translated to define-funs-rec,
plus the sorted() model (A-SORT)."""
import ast
from . import smt, ptypes
from .smt import (INT, BOOL, STR, REAL, SeqS, BVar, IntC, App, FunDef, FUNDEFS)
from .ptypes import SV, PT, TSeq, TStr, TInt, TCell, sort_of
from .symexec import OutOfSubset, State

_in_progress = set()


def spec_app(ex, name, args, ceval):
    sf = ex.reg.specs.get(name)
    if sf is None:
        raise OutOfSubset('unknown spec function %s' % name)
    ensure_def(ex, sf)
    if len(args) != len(sf.params):
        raise OutOfSubset('spec function %s expects %d arguments' % (name, len(sf.params)))
    ts = []
    for a, (pn, pt) in zip(args, sf.params):
        if a.pt != pt:
            if a.pt.kind in ('list', 'pytuple', 'emptylist') and pt.kind == 'seq':
                if ceval is not None:
                    if a.pt.kind == 'emptylist':
                        a = SV(pt, smt.Empty(sort_of(pt)))
                    else:
                        a = ceval.seq_of(a)
                        if a.pt != pt:
                            a = SV(pt, smt.Concat(*[smt.Unit(ex.coerce(SV(a.pt.args[0], u.args[0]), pt.args[0]).t) for u in (a.t.args if a.t.op == 'seq.++' else [a.t])])) if a.t.op in ('seq.++', 'seq.unit') else a
                else:
                    raise OutOfSubset('spec %s: list argument outside a contract' % name)
            if a.pt != pt:
                a = ex.coerce(a, pt)
        ts.append(a.t)
    return SV(sf.ret, App('sp_' + name, tuple(ts), sort_of(sf.ret)))


def ensure_def(ex, sf):
    fname = 'sp_' + sf.name
    if fname in FUNDEFS or fname in _in_progress:
        return
    if sf.ret is None:
        raise OutOfSubset('spec function %s needs a return annotation' % sf.name)
    params = [(p, sort_of(pt)) for p, pt in sf.params]
    fd = FunDef(fname, params, sort_of(sf.ret))
    FUNDEFS[fname] = fd
    if sf.opaque:
        return
    _in_progress.add(fname)
    try:
        from .cexpr import CEval
        st = State()
        loc = dict((p, SV(pt, BVar(p, sort_of(pt)))) for p, pt in sf.params)
        old_pure = ex.pure
        old_mod = ex.cur_module
        ex.pure = True
        try:
            ce = CEval(ex, st, None, None, None, loc)
            body = [s for s in sf.node.body if not (isinstance(s, ast.Expr) and isinstance(s.value, ast.Constant))]
            v = ce.eval_body(body)
            if v.pt != sf.ret:
                if v.pt.kind in ('list', 'pytuple', 'emptylist'):
                    if v.pt.kind == 'emptylist':
                        v = SV(sf.ret, smt.Empty(sort_of(sf.ret)))
                    else:
                        v = ce.seq_of(v)
                if v.pt != sf.ret:
                    v = ex.coerce(v, sf.ret)
            if st.pc:
                raise OutOfSubset('spec function %s has side conditions' % sf.name)
            fd.body = v.t
        finally:
            ex.pure = old_pure
            ex.cur_module = old_mod
    finally:
        _in_progress.discard(fname)


def seq_rev(ex, seq):
    es = smt.seq_elem(seq.sort)
    name = {'Cell': 'rev_cells', 'Int': 'rev_ints', 'String': 'rev_strs'}.get(es)
    if name is None:
        for nm, sf in ex.reg.specs.items():
            if nm.startswith('rev_') and len(sf.params) == 1 and sort_of(sf.params[0][1]) == seq.sort:
                name = nm
        if name is None:
            raise OutOfSubset('reverse of a sequence of %s' % es)
    sf = ex.reg.specs[name]
    ensure_def(ex, sf)
    return App('sp_' + name, (seq,), seq.sort)


def sorted_model(ex, args, kwargs, st, n):
    from .calls import call_external
    v = args[0]
    rev = kwargs.get('reverse')
    key = kwargs.get('key')
    if v.pt.kind == 'setaslist':
        v = v.py
    if v.pt.kind == 'set':
        tgt = 'builtins.sorted.keyset'
        return call_external(ex, tgt, [v], {}, st, n)
    if v.pt.kind == 'dictitems' and key is not None and rev is None:
        lam = key.py[1] if key.pt.kind == 'func' and key.py[0] == 'lambda' else None
        if lam is None or not (isinstance(lam.body, ast.Subscript) and isinstance(lam.body.value, ast.Name) and lam.body.value.id == lam.args.args[0].arg
                               and isinstance(lam.body.slice, ast.Constant) and lam.body.slice.value == 1):
            raise OutOfSubset('sorted(d.items()): only key=lambda v: v[1] is modelled (line %d)' % n.lineno)
        return call_external(ex, 'builtins.sorted.items_by_value', [v.py], {}, st, n)
    if v.pt.kind == 'list':
        ept = v.pt.args[0]
        if ept.kind == 'tuple' and key is not None:
            lam = key.py[1] if key.pt.kind == 'func' and key.py[0] == 'lambda' else None
            if lam is None or ast.unparse(lam).replace(' ', '') != 'lambdax:x[0]':
                raise OutOfSubset('sorted(): only key=lambda x: x[0] is modelled (line %d)' % n.lineno)
            tgt = 'builtins.sorted.entries'
            a = [v] + ([rev] if rev is not None else [SV(ptypes.TBool, smt.FALSE)])
            return call_external(ex, tgt, a, {}, st, n)
        if ept.kind == 'cell' and key is None and rev is None:
            return call_external(ex, 'builtins.sorted.cells', [v], {}, st, n)
        if ept.kind == 'int' and key is None and rev is None:
            return call_external(ex, 'builtins.sorted.ints', [v], {}, st, n)
        if ept.kind == 'key' and key is None and rev is None:
            return call_external(ex, 'builtins.sorted.keys', [v], {}, st, n)
    raise OutOfSubset('sorted() on %r at line %d' % (v.pt, n.lineno))
