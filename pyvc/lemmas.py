"""Lemmas: pure statements about spec functions, proved by induction on one Int parameter
(Dafny-style: the induction hypothesis is the statement itself at n-1, other parameters generalised)."""
from . import smt
from .smt import INT, BVar, Var, And, Implies, Not, IntC, Sub, Ge, ForAll
from .ptypes import SV, sort_of
from .symexec import State, Obligation, fresh, OutOfSubset
from .cexpr import CEval


def _instance(ex, lem, binding):
    """(requires_term, [ensures_terms]) with parameters bound to the given SVs"""
    st = State()
    old = ex.pure
    ex.pure = True
    try:
        ce = CEval(ex, st, None, None, None, dict(binding))
        req = And(*[ce.boolean(r) for r in lem.requires]) if lem.requires else smt.TRUE
        ens = [(cl.label, ce.boolean(cl.expr)) for cl in lem.ensures]
    finally:
        ex.pure = old
    if st.pc:
        raise OutOfSubset('lemma %s has side conditions' % lem.name)
    return req, ens


def statement(ex, lem):
    """forall params. requires => ensures  (used as a hypothesis where a contract says uses(lemma))"""
    bvs = dict((p, SV(pt, BVar('%s_%s' % (lem.name, p), sort_of(pt)))) for p, pt in lem.params)
    qvars = [bvs[p].t for p, _ in lem.params]
    if lem.measure is not None:
        mp, mexpr = lem.measure
        st = State()
        old = ex.pure
        ex.pure = True
        try:
            mv = CEval(ex, st, None, None, None, dict((k, v) for k, v in bvs.items() if k != mp)).ev(mexpr)
        finally:
            ex.pure = old
        qvars = [bvs[p].t for p, _ in lem.params if p != mp]
        bvs[mp] = SV(bvs[mp].pt, mv.t)
    req, ens = _instance(ex, lem, bvs)
    body = Implies(req, And(*[e for _, e in ens]))
    return ForAll(qvars, body)


def obligations(ex, lem):
    consts = dict((p, SV(pt, Var('lem!%s!%s' % (lem.name, p), sort_of(pt)))) for p, pt in lem.params)
    req, ens = _instance(ex, lem, consts)
    pc = [req]
    for u in lem.uses:
        pc.append(statement(ex, ex.reg.lemmas[u]))
    for call in lem.uses_at:
        st0 = State()
        oldp = ex.pure
        ex.pure = True
        try:
            ce0 = CEval(ex, st0, None, None, None, dict(consts))
            args = [ce0.ev(a) for a in call.args]
        finally:
            ex.pure = oldp
        pc.append(instance_at(ex, ex.reg.lemmas[call.func.id], args))
    out = []
    if lem.induct is not None:
        n = consts[lem.induct]
        if n.pt.kind != 'int':
            raise OutOfSubset('induction variable must be an Int')
        # hypothesis: the statement at n-1, every other parameter universally quantified
        others = [(p, pt) for p, pt in lem.params if p != lem.induct and p in getattr(lem, 'generalize', [])]
        b2 = dict(consts)
        b2.update(dict((p, SV(pt, BVar('ih_%s' % p, sort_of(pt)))) for p, pt in others))
        if getattr(lem, 'strong', False):
            # strong induction: the statement at every 0 <= k < n
            kv = BVar('ih_k', INT)
            b2[lem.induct] = SV(n.pt, kv)
            r2, e2 = _instance(ex, lem, b2)
            ih = Implies(And(Ge(kv, IntC(0)), smt.Lt(kv, n.t)), Implies(r2, And(*[e for _, e in e2])))
            ih = ForAll([kv] + [b2[p].t for p, _ in others], ih)
        else:
            b2[lem.induct] = SV(n.pt, Sub(n.t, IntC(1)))
            r2, e2 = _instance(ex, lem, b2)
            ih = Implies(r2, And(*[e for _, e in e2]))
            if others:
                ih = ForAll([b2[p].t for p, _ in others], ih)
        pc.append(ih)
        # well-foundedness: the precondition bounds the induction variable from below
        out.append(Obligation('LEMMA.%s.wellfounded' % lem.name, 'lemma', [req], Ge(n.t, IntC(0)), 'lemma:' + lem.name, lem.lineno, 1,
                              'requires must imply %s >= 0' % lem.induct))
    # hints: intermediate facts, each proved from what precedes it and then available (Dafny `assert`)
    st = State()
    old = ex.pure
    ex.pure = True
    try:
        ce = CEval(ex, st, None, None, None, dict(consts))
        for h in lem.hints:
            t = ce.boolean(h.expr)
            out.append(Obligation('LEMMA.%s.%s' % (lem.name, h.label), 'lemma', list(pc), t, 'lemma:' + lem.name, h.lineno, 1, 'proof hint'))
            pc.append(t)
    finally:
        ex.pure = old
    for label, e in ens:
        out.append(Obligation('LEMMA.%s.%s' % (lem.name, label), 'lemma', list(pc), e, 'lemma:' + lem.name, lem.lineno, 1, 'by induction on %s' % lem.induct))
    return out


def instance_at(ex, lem, args):
    """requires => ensures at concrete arguments (no quantifier)"""
    binding = dict((p, ex.coerce(a, pt)) for (p, pt), a in zip(lem.params, args))
    req, ens = _instance(ex, lem, binding)
    return Implies(req, And(*[e for _, e in ens]))
