"""Sidecar contract files: parsed (never executed).  See DESIGN 2.3 and the header of contracts/*.py."""
import ast
import os
from . import ptypes


class Clause(object):
    def __init__(self, kind, expr, label, lineno, extra=None):
        self.kind = kind
        self.expr = expr
        self.label = label
        self.lineno = lineno
        self.extra = extra
        self.hide = ()      # spec functions kept opaque (declared, not defined) in this clause's queries


class Contract(object):
    def __init__(self):
        self.target = None
        self.name = None
        self.props = []
        self.params = []        # [(name, PT)]
        self.ret = None
        self.free = []          # [(name, PT)] free variables of closures
        self.requires = []
        self.ensures = []
        self.raises = []        # Clause(extra=class name)
        self.modifies = []      # [ast expr]
        self.ghost_updates = [] # [(target ast, value ast)]
        self.invariants = {}    # ordinal -> [Clause]
        self.loop_types = {}    # ordinal -> {name: PT}
        self.local_types = {}
        self.trusted = None
        self.inline = False
        self.options = {}
        self.file = None
        self.lineno = 0
        self.generic = None
        self.assumes = []       # labelled assumptions (listed in evidence)
        self.subst = None
        self.like = None
        self.uses = []          # names of lemmas assumed (they are proved separately, by induction)
        self.loop_hints = {}    # ordinal -> [Clause]: facts proved, then assumed, at the end of each iteration
        self.uses_at = []
        self.uses_exit = []
        self.exit_hints = []
        self.cuts = {}


class ClassInfo(object):
    def __init__(self, name):
        self.name = name
        self.bases = []
        self.fields = {}
        self.ghost = {}
        self.family = None      # e.g. 'writer' : participates in region framing
        self.cid = None


class Pred(object):
    def __init__(self, name, node):
        self.name = name
        self.node = node
        self.params = [a.arg for a in node.args.args]


class SpecFn(object):
    def __init__(self, name, node, kind='spec'):
        self.name = name
        self.node = node
        self.kind = kind
        self.params = [(a.arg, ptypes.parse_type(a.annotation)) for a in node.args.args]
        self.ret = ptypes.parse_type(node.returns) if node.returns is not None else None
        self.opaque = False


class _Subst(ast.NodeTransformer):
    def __init__(self, m):
        self.m = m

    def visit_Name(self, node):
        if node.id in self.m:
            return ast.copy_location(ast.Constant(self.m[node.id]), node)
        return node


class Lemma(object):
    def __init__(self, name, node, path):
        self.name = name
        self.params = [(a.arg, ptypes.parse_type(a.annotation)) for a in node.args.args]
        self.requires = []
        self.ensures = []
        self.induct = None
        self.props = []
        self.uses = []
        self.hints = []
        self.generalize = []
        self.uses_at = []
        self.measure = None     # (param, expr): the induction variable is this function of the other parameters
        self.file = path
        self.lineno = node.lineno
        for st in node.body:
            if isinstance(st, ast.Expr) and isinstance(st.value, ast.Constant):
                continue
            call = st.value
            k = call.func.id
            if k == 'requires':
                self.requires.append(call.args[0])
            elif k == 'ensures':
                lab = call.args[1].value if len(call.args) > 1 else 'post%d' % len(self.ensures)
                self.ensures.append(Clause('ensures', call.args[0], lab, st.lineno))
            elif k == 'generalize':
                self.generalize = [a.id for a in call.args]
            elif k == 'measure':
                self.measure = (call.args[0].id, call.args[1])
            elif k == 'hint':
                self.hints.append(Clause('hint', call.args[0], 'hint%d' % len(self.hints), st.lineno))
            elif k == 'induct':
                self.induct = call.args[0].id
                self.strong = any(kw.arg == 'strong' and ast.literal_eval(kw.value) for kw in call.keywords)
            elif k == 'props':
                self.props = [a.value for a in call.args]
            elif k == 'uses':
                for a in call.args:
                    if isinstance(a, ast.Name):
                        self.uses.append(a.id)
                    else:
                        self.uses_at.append(a)
            else:
                raise SyntaxError('%s:%d: unknown lemma clause %s' % (path, st.lineno, k))


class Registry(object):
    def __init__(self):
        self.contracts = {}     # target qualname -> Contract
        self.classes = {}
        self.preds = {}
        self.specs = {}
        self.lemmas = {}
        self.files = []

    def load_dir(self, d):
        for fn in sorted(os.listdir(d)):
            if fn.endswith('.py') and not fn.startswith('_'):
                self.load_file(os.path.join(d, fn))
        self.finish_templates()

    def finish_templates(self):
        """`like=` clones the clauses of another contract; `subst=` replaces names by constants"""
        import copy
        for c in list(self.contracts.values()):
            if c.like is not None and not getattr(c, '_cloned', False):
                src = self.contracts[c.like]
                for attr in ('requires', 'ensures', 'raises', 'assumes'):
                    setattr(c, attr, copy.deepcopy(getattr(src, attr)) + getattr(c, attr))
                c.modifies = copy.deepcopy(src.modifies) + c.modifies
                c.ghost_updates = copy.deepcopy(src.ghost_updates) + c.ghost_updates
                for n, cls in src.invariants.items():
                    c.invariants.setdefault(n, [])
                    c.invariants[n] = copy.deepcopy(cls) + c.invariants[n]
                for n, cls in src.loop_hints.items():
                    c.loop_hints[n] = copy.deepcopy(cls) + c.loop_hints.get(n, [])
                for n, d in src.loop_types.items():
                    dd = dict(d)
                    dd.update(c.loop_types.get(n, {}))
                    c.loop_types[n] = dd
                lt = dict(src.local_types)
                lt.update(c.local_types)
                c.local_types = lt
                if not c.params:
                    c.params = list(src.params)
                    c.ret = src.ret
                    c.free = list(src.free)
                for k, v in src.options.items():
                    c.options.setdefault(k, v)
                c._cloned = True
        for c in self.contracts.values():
            if c.subst and not getattr(c, '_substituted', False):
                sub = _Subst(c.subst)
                for attr in ('requires', 'ensures', 'raises', 'assumes'):
                    for cl in getattr(c, attr):
                        cl.expr = sub.visit(cl.expr)
                c.modifies = [sub.visit(m) for m in c.modifies]
                c.ghost_updates = [(sub.visit(a), sub.visit(b)) for a, b in c.ghost_updates]
                for n, cls in c.invariants.items():
                    for cl in cls:
                        cl.expr = sub.visit(cl.expr)
                c._substituted = True

    def load_file(self, path):
        src = open(path).read()
        tree = ast.parse(src, path)
        self.files.append(path)
        for node in tree.body:
            if isinstance(node, ast.Assign) and len(node.targets) == 1 and isinstance(node.targets[0], ast.Name):
                # NAME = <type expression>: a type alias usable in the contracts that follow
                ptypes.TYPE_ALIASES[node.targets[0].id] = ptypes.parse_type(node.value)
                continue
            if isinstance(node, ast.Expr) and isinstance(node.value, ast.Call) and isinstance(node.value.func, ast.Name):
                fn = node.value.func.id
                if fn == 'classdef':
                    self._classdef(node.value)
                elif fn == 'namedtuple_types':
                    call = node.value
                    name = ast.literal_eval(call.args[0])
                    names = [kw.arg for kw in call.keywords]
                    pt = ptypes.PT('tuple', *[ptypes.parse_type(kw.value) for kw in call.keywords])
                    ptypes.NAMED_TUPLE_TYPES[name] = (pt, names)
                    from . import cexpr
                    cexpr.NAMED_TUPLES[pt] = names
                continue
            if isinstance(node, ast.FunctionDef):
                decs = node.decorator_list
                if not decs:
                    continue
                d = decs[0]
                dname = d.id if isinstance(d, ast.Name) else (d.func.id if isinstance(d, ast.Call) else None)
                if dname == 'pred':
                    self.preds[node.name] = Pred(node.name, node)
                elif dname == 'lemma':
                    self.lemmas[node.name] = Lemma(node.name, node, path)
                elif dname == 'spec':
                    sf = SpecFn(node.name, node, dname)
                    if isinstance(d, ast.Call):
                        for kw in d.keywords:
                            if kw.arg == 'opaque':
                                sf.opaque = ast.literal_eval(kw.value)
                    self.specs[node.name] = sf
                elif dname in ('contract', 'trusted'):
                    c = self._contract(node, d, path)
                    if dname == 'trusted' and c.trusted is None:
                        c.trusted = 'trusted'
                    if c.target in self.contracts:
                        raise ValueError('duplicate contract for %s' % c.target)
                    self.contracts[c.target] = c

    def _classdef(self, call):
        name = ast.literal_eval(call.args[0])
        ci = self.classes.setdefault(name, ClassInfo(name))
        for kw in call.keywords:
            if kw.arg == 'bases':
                ci.bases = ast.literal_eval(kw.value)
            elif kw.arg in ('fields', 'ghost'):
                tgt = ci.fields if kw.arg == 'fields' else ci.ghost
                for k2 in kw.value.keywords:
                    tgt[k2.arg] = ptypes.parse_type(k2.value)
            elif kw.arg == 'family':
                ci.family = ast.literal_eval(kw.value)
        ci.cid = len(self.classes)

    def _contract(self, node, dec, path):
        c = Contract()
        c.file = path
        c.lineno = node.lineno
        c.target = ast.literal_eval(dec.args[0])
        c.name = c.target
        for kw in dec.keywords:
            if kw.arg == 'name':
                c.name = ast.literal_eval(kw.value)
            elif kw.arg == 'props':
                c.props = ast.literal_eval(kw.value)
            elif kw.arg == 'inline':
                c.inline = ast.literal_eval(kw.value)
            elif kw.arg == 'trusted':
                c.trusted = ast.literal_eval(kw.value)
            elif kw.arg == 'subst':
                c.subst = ast.literal_eval(kw.value)
            elif kw.arg == 'like':
                c.like = ast.literal_eval(kw.value)
            else:
                c.options[kw.arg] = ast.literal_eval(kw.value)
        for a in node.args.args:
            c.params.append((a.arg, ptypes.parse_type(a.annotation) if a.annotation is not None else None))
        for a, dflt in zip(node.args.kwonlyargs, node.args.kw_defaults):
            c.free.append((a.arg, ptypes.parse_type(a.annotation)))
        c.ret = ptypes.parse_type(node.returns) if node.returns is not None else ptypes.TNone
        for st in node.body:
            if isinstance(st, ast.Expr) and isinstance(st.value, ast.Constant):
                continue
            if isinstance(st, ast.Pass):
                continue
            if not (isinstance(st, ast.Expr) and isinstance(st.value, ast.Call) and isinstance(st.value.func, ast.Name)):
                raise SyntaxError('%s:%d: contract bodies contain only clause calls' % (path, st.lineno))
            call = st.value
            k = call.func.id
            args = call.args

            def lab(i, default):
                if len(args) > i and isinstance(args[i], ast.Constant) and isinstance(args[i].value, str):
                    return args[i].value
                return default
            hide = ()
            local = False
            for kw in call.keywords:
                if kw.arg == 'hide':
                    hide = tuple(ast.literal_eval(kw.value))
                if kw.arg == 'local':
                    local = bool(ast.literal_eval(kw.value))
            n_before = sum(len(x) for x in (c.requires, c.ensures, c.raises, c.exit_hints)) + sum(len(v) for v in c.invariants.values()) + sum(len(v) for v in c.loop_hints.values())
            if k == 'requires':
                c.requires.append(Clause('requires', args[0], lab(1, 'pre%d' % len(c.requires)), st.lineno))
            elif k == 'ensures':
                c.ensures.append(Clause('ensures', args[0], lab(1, 'post%d' % len(c.ensures)), st.lineno))
            elif k == 'raises':
                cls = ast.literal_eval(args[0])
                cond = args[1] if len(args) > 1 else ast.Constant(True)
                c.raises.append(Clause('raises', cond, lab(2, 'raises%d' % len(c.raises)), st.lineno, extra=cls))
            elif k == 'modifies':
                c.modifies.extend(args)
            elif k == 'ghost_update':
                c.ghost_updates.append((args[0], args[1]))
            elif k == 'invariant':
                n = ast.literal_eval(args[0])
                c.invariants.setdefault(n, []).append(Clause('invariant', args[1], lab(2, 'inv%d_%d' % (n, len(c.invariants.get(n, [])))), st.lineno))
            elif k == 'loop_hint':
                n = ast.literal_eval(args[0])
                c.loop_hints.setdefault(n, []).append(Clause('hint', args[1], 'hint%d_%d' % (n, len(c.loop_hints.get(n, []))), st.lineno))
            elif k == 'loop_types':
                n = ast.literal_eval(args[0])
                for kw in call.keywords:
                    c.loop_types.setdefault(n, {})[kw.arg] = ptypes.parse_type(kw.value)
            elif k == 'local_types':
                for kw in call.keywords:
                    c.local_types[kw.arg] = ptypes.parse_type(kw.value)
            elif k == 'uses':
                for a in args:
                    if isinstance(a, ast.Name):
                        c.uses.append(a.id)
                    else:
                        c.uses_at.append(a)          # lemma(args): instance at the given arguments (evaluated at entry)
            elif k == 'uses_at_exit':
                for a in args:
                    c.uses_exit.append(a)                # lemma(args): instance at arguments evaluated in the exit state
            elif k == 'cut':
                # cut('<source prefix of a top-level statement>', invariant, 'label'): block contract -- every path reaching
                # the statement must establish the invariant; verification continues from it on one generic path
                pat = ast.literal_eval(args[0])
                c.cuts.setdefault(pat, []).append(Clause('cut', args[1], lab(2, 'cut%d' % sum(len(v) for v in c.cuts.values())), st.lineno))
            elif k == 'exit_hint':
                c.exit_hints.append(Clause('hint', args[0], lab(1, 'exit_hint%d' % len(c.exit_hints)), st.lineno))
            elif k == 'assumes':
                c.assumes.append(Clause('assumes', args[0], lab(1, 'assume%d' % len(c.assumes)), st.lineno))
            elif k == 'options':
                for kw in call.keywords:
                    c.options[kw.arg] = ast.literal_eval(kw.value)
            else:
                raise SyntaxError('%s:%d: unknown clause %s' % (path, st.lineno, k))
            if local:
                for lst in list(c.invariants.values()):
                    if lst and lst[-1].lineno == st.lineno:
                        lst[-1].local = True
            if hide:
                for lst in [c.requires, c.ensures, c.raises, c.exit_hints] + list(c.invariants.values()) + list(c.loop_hints.values()) + list(c.cuts.values()):
                    if lst and lst[-1].lineno == st.lineno:
                        lst[-1].hide = hide
        return c

    # class helpers
    def field_home(self, cls, field):
        """(root class declaring field, type, is_ghost) searching cls then its bases"""
        seen = set()
        work = [cls]
        while work:
            c = work.pop(0)
            if c in seen or c not in self.classes:
                continue
            seen.add(c)
            ci = self.classes[c]
            if field in ci.fields:
                return c, ci.fields[field], False
            if field in ci.ghost:
                return c, ci.ghost[field], True
            work.extend(ci.bases)
        return None

    def field_home_down(self, cls, field):
        """a field declared only on a (unique) subclass of cls: (subclass, root, type, ghost) or None"""
        hits = []
        for c in self.classes:
            if c != cls and self.is_subclass(c, cls):
                ci = self.classes[c]
                if field in ci.fields:
                    hits.append((c, c, ci.fields[field], False))
                elif field in ci.ghost:
                    hits.append((c, c, ci.ghost[field], True))
        return hits[0] if len(hits) == 1 else None

    def is_subclass(self, c, base):
        if c == base:
            return True
        ci = self.classes.get(c)
        if ci is None:
            return False
        return any(self.is_subclass(b, base) for b in ci.bases)

    def subclasses(self, base):
        return [c for c in self.classes if self.is_subclass(c, base)]

    def all_fields_of_family(self, cls):
        """every (root, field, type) of cls, its bases and its subclasses"""
        out = []
        names = set()
        for c in self.classes:
            if self.is_subclass(c, cls) or self.is_subclass(cls, c):
                ci = self.classes[c]
                for f, t in list(ci.fields.items()) + list(ci.ghost.items()):
                    if (c, f) not in names:
                        names.add((c, f))
                        out.append((c, f, t))
        return out
