"""User expressions as oracles (DESIGN 2.6): a hole `__H_NAME(args)` in generated code is an application of
the opaque spec function H_NAME (declared in specs/loops.py) to the *values* of its arguments, or an
exception whose kind is the value of the companion function H_NAME_fail (0 = no exception).
A-ORACLE: user expressions are pure functions of the values visible to them, apart from the RBQL-provided
callables (UNNEST, aggregates, LIKE), which appear explicitly in the hole text and are verified."""
from . import smt, ptypes
from .smt import INT, STR, IntC, Eq, App, Not, And
from .ptypes import SV, PT, TInt, TStr, TCell, TSeq, TList, sort_of
from .symexec import OutOfSubset, PyExc, ExcV, fresh

FAIL_KINDS = [(1, 'rbql_engine.InternalBadKeyError'), (2, 'rbql_engine.InternalBadFieldError'), (3, 'rbql_engine.RbqlParsingError'),
              (4, 'Exception')]


def call(ex, name, args, st, n):
    from . import speclib
    base = name[2:]          # '__H_WHERE' -> 'H_WHERE'
    sf = ex.reg.specs.get(base)
    if sf is None:
        raise OutOfSubset('oracle %s has no opaque spec declaration' % base)
    vals = []
    for a, (pn, pt) in zip(args, sf.params):
        if a.pt.kind == 'list' and pt.kind == 'seq':
            a = SV(pt, ex.list_content(st, a))
        elif a.pt.kind == 'opt' and a.pt.args[0].kind == 'list' and pt.kind == 'seq':
            inner = SV(a.pt.args[0], a.t)
            a = SV(pt, smt.Ite(Eq(a.t, IntC(0)), smt.Empty(sort_of(pt)), ex.list_content(st, inner)))
        elif a.pt.kind == 'opt' and pt.kind == 'int':
            a = SV(TInt, smt.Ite(ptypes.opt_is_none(a.pt, a.t), IntC(-1), ptypes.opt_val(a.pt, a.t)))
        elif a.pt.kind == 'none' and pt.kind == 'seq':
            a = SV(pt, smt.Empty(sort_of(pt)))
        elif a.pt.kind == 'none' and pt.kind == 'int':
            a = SV(TInt, IntC(-1))
        vals.append(a)
    if len(vals) != len(sf.params):
        raise OutOfSubset('oracle %s arity' % base)
    failf = ex.reg.specs.get(base + '_fail')
    if failf is not None:
        fk = speclib.spec_app(ex, base + '_fail', vals, None).t
        which = ex.decide(1 + len(FAIL_KINDS))
        if which > 0:
            code, cls = FAIL_KINDS[which - 1]
            ex.assume(st, Eq(fk, IntC(code)))
            msg = speclib.spec_app(ex, base + '_msg', vals, None) if (base + '_msg') in ex.reg.specs else SV(TStr, fresh('omsg', STR))
            fields = {}
            if code == 1:
                fields['bad_key'] = SV(TStr, fresh('bad_key', STR))
            if code == 2:
                idx = fresh('bad_idx', INT)
                st.pc.append(smt.Ge(idx, IntC(0)))
                fields['bad_idx'] = SV(TInt, idx)
            raise PyExc(ExcV(cls, msg=msg, fields=fields))
        ex.assume(st, Eq(fk, IntC(0)))
    r = speclib.spec_app(ex, base, vals, None)
    if r.pt.kind == 'seq' and base.endswith('_LIST'):
        # a user expression producing a list: a fresh list object with that content
        return ex.new_list(st, r.pt.args[0], r.t)
    return r
