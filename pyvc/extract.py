"""Mechanical extraction of the real source: every run re-reads /repo's working tree.

Dropped by extraction, exactly: comments and docstrings (ast does not keep comments; docstring
expression statements are no-ops), `from __future__` imports, and Python-2 branches by folding the
module constant PY3 to True.  Nothing else.
"""
import ast
import hashlib
import os
from . import ptypes
from .ptypes import SV, PT, TInt, TStr, TBool, TFloat
from .smt import IntC, StrC, BoolC, RealC

REPO = os.environ.get('RBQL_REPO', '/repo')
PY_DIR = os.path.join(REPO, 'rbql-py', 'rbql')
MODULES = ['rbql_engine', 'csv_utils', 'rbql_csv', 'rbql_pandas', 'rbql_sqlite', 'rbql_main']


class ModuleInfo(object):
    def __init__(self, name, path):
        self.name = name
        self.path = path
        self.src = open(path).read()
        self.tree = ast.parse(self.src, path)
        self.functions = {}
        self.classes = {}
        self.constants = {}
        self.imports = {}
        self.lines = self.src.split('\n')


JS_DIR = os.path.join(REPO, 'rbql-js')
JS_MODULES = {'js_csv_utils': 'csv_utils.js', 'js_rbql': 'rbql.js', 'js_rbql_csv': 'rbql_csv.js'}      # module name in contracts -> file under rbql-js (translated by pyvc/jsfront.py)


class JSModuleInfo(ModuleInfo):
    """a JavaScript file seen through the mechanical translation of pyvc/jsfront.py; line numbers are those of the .js file"""

    def __init__(self, name, path):
        from . import jsfront
        self.name = name
        self.path = path
        self.src = open(path).read()
        self.tree, self.skipped = jsfront.translate_file(path, name)
        self.functions = {}
        self.classes = {}
        self.constants = {}
        self.imports = {'re': 're'}
        self.lines = self.src.split('\n')


class Program(object):
    def __init__(self, py_dir=None):
        self.py_dir = py_dir or PY_DIR
        self.modules = {}
        self.functions = {}     # qualname -> (ModuleInfo, node, parent qualname)
        self.classes = {}       # qualname -> (ModuleInfo, node)
        self._cids = {}
        self.js_errors = {}
        for m in MODULES:
            p = os.path.join(self.py_dir, m + '.py')
            if os.path.exists(p):
                self._load(m, p)
        for m, fn in JS_MODULES.items():
            p = os.path.join(JS_DIR, fn)
            if os.path.exists(p):
                try:
                    self._load(m, p, js=True)
                except Exception as e:
                    self.js_errors[m] = '%s: %s' % (type(e).__name__, e)

    def _load(self, name, path, js=False):
        mi = JSModuleInfo(name, path) if js else ModuleInfo(name, path)
        self.modules[name] = mi
        for node in mi.tree.body:
            if isinstance(node, (ast.Import,)):
                for a in node.names:
                    mi.imports[a.asname or a.name] = a.name
            elif isinstance(node, ast.ImportFrom):
                for a in node.names:
                    mi.imports[a.asname or a.name] = a.name
            elif isinstance(node, ast.Assign) and len(node.targets) == 1 and isinstance(node.targets[0], ast.Name):
                tn = node.targets[0].id
                try:
                    mi.constants[tn] = ('const', ast.literal_eval(node.value))
                except Exception:
                    if tn == 'PY3':
                        mi.constants[tn] = ('const', True)
                    elif isinstance(node.value, ast.Name) and node.value.id in mi.constants:
                        mi.constants[tn] = mi.constants[node.value.id]
                    else:
                        mi.constants[tn] = ('expr', node.value)
            elif isinstance(node, ast.Try):
                # try: broken_pipe_exception = BrokenPipeError ...
                for s in node.body:
                    if isinstance(s, ast.Assign) and isinstance(s.targets[0], ast.Name) and isinstance(s.value, ast.Name):
                        mi.constants[s.targets[0].id] = ('alias', s.value.id)
        self._index(mi, mi.tree.body, name, None)

    def _index(self, mi, body, prefix, parent):
        for node in body:
            if isinstance(node, ast.FunctionDef):
                q = prefix + '.' + node.name
                self.functions[q] = (mi, node, parent)
                mi.functions[q] = node
                self._index(mi, node.body, q, q)
            elif isinstance(node, ast.ClassDef):
                q = prefix + '.' + node.name
                self.classes[q] = (mi, node)
                mi.classes[q] = node
                self._cids[q] = len(self._cids) + 100
                self._index(mi, node.body, q, parent)
            elif isinstance(node, (ast.If, ast.Try, ast.With, ast.For, ast.While)):
                for fld in ('body', 'orelse', 'finalbody'):
                    self._index(mi, getattr(node, fld, []) or [], prefix, parent)
                for h in getattr(node, 'handlers', []) or []:
                    self._index(mi, h.body, prefix, parent)

    # ------------------------------------------------------------------
    def source_of(self, qualname):
        if qualname in self.functions:
            mi, node, _ = self.functions[qualname]
        else:
            mi, node = self.classes[qualname]
        seg = '\n'.join(mi.lines[node.lineno - 1:node.end_lineno])
        return seg

    def sha(self, qualname):
        return hashlib.sha256(self.source_of(qualname).encode('utf-8')).hexdigest()

    def location(self, qualname):
        mi, node = (self.functions[qualname][0], self.functions[qualname][1]) if qualname in self.functions else self.classes[qualname]
        return os.path.relpath(mi.path, REPO), node.lineno, node.end_lineno

    def class_id(self, qualname):
        if qualname not in self._cids:
            self._cids[qualname] = len(self._cids) + 100
        return self._cids[qualname]

    def class_bases(self, qualname):
        if qualname not in self.classes:
            return []
        mi, node = self.classes[qualname]
        out = []
        for b in node.bases:
            if isinstance(b, ast.Name):
                q = self.resolve_class(mi.name, b.id)
                out.append(q or b.id)
            elif isinstance(b, ast.Attribute) and isinstance(b.value, ast.Name):
                out.append(b.value.id + '.' + b.attr)
        return out

    def resolve_class(self, module, name):
        q = module + '.' + name
        if q in self.classes:
            return q
        return None

    def const_sv(self, v):
        if isinstance(v, bool):
            return SV(TBool, BoolC(v))
        if isinstance(v, int):
            return SV(TInt, IntC(v))
        if isinstance(v, str):
            return SV(TStr, StrC(v))
        if isinstance(v, float):
            return SV(TFloat, RealC(v))
        if v is None:
            return ptypes.NONE
        if isinstance(v, (list, tuple)):
            return SV(PT('pylist'), py=tuple(self.const_sv(x) for x in v))
        if isinstance(v, dict):
            return SV(PT('pydict'), py=dict((k, self.const_sv(x)) for k, x in v.items()))
        return None

    def lookup_global(self, module, name, _depth=0):
        mi = self.modules.get(module)
        if mi is None:
            return None
        q = module + '.' + name
        if q in self.functions:
            return SV(PT('func'), py=('func', q))
        if q in self.classes:
            return SV(PT('class'), py=q)
        if name in mi.constants:
            kind, v = mi.constants[name]
            if kind == 'const':
                return self.const_sv(v)
            if kind == 'alias':
                return SV(PT('class'), py=v)
            if kind == 'expr':
                return SV(PT('globalexpr'), py=(module, name, v))
        if name in mi.imports:
            return SV(PT('module'), py=mi.imports[name])
        return None

    def lookup_module_attr(self, modname, attr):
        if modname in self.modules:
            return self.lookup_global(modname, attr)
        return None

    def namedtuple_fields(self, module, name):
        mi = self.modules.get(module)
        if mi is None or name not in mi.constants:
            return None
        kind, v = mi.constants[name]
        if kind == 'expr' and isinstance(v, ast.Call) and isinstance(v.func, ast.Name) and v.func.id == 'namedtuple':
            return ast.literal_eval(v.args[1])
        return None
