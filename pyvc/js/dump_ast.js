// node --expose-internals dump_ast.js <file.js>  -> ESTree JSON of the file on stdout (acorn shipped inside node)
'use strict';
const fs = require('fs');
const acorn = require('internal/deps/acorn/acorn/dist/acorn');
const src = fs.readFileSync(process.argv[2], 'utf8');
const ast = acorn.parse(src, {ecmaVersion: 'latest', sourceType: 'script', locations: true, allowReturnOutsideFunction: true});
process.stdout.write(JSON.stringify(ast));
