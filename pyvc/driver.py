"""Runs the verifier: contracts x real source -> obligations -> SMT -> verdicts."""
import os
import sys
import time
import json
from . import smt, ptypes
from .contracts import Registry
from .extract import Program
from .symexec import Executor, FuncInfo, OutOfSubset, ContractMismatch
from . import solve

ROOT = os.path.dirname(os.path.dirname(os.path.abspath(__file__)))


class FuncReport(object):
    def __init__(self, target, name):
        self.target = target
        self.name = name
        self.status = 'ok'          # ok | out_of_subset | mismatch | crash
        self.reason = ''
        self.obligations = []       # Obligation objects
        self.results = {}           # index -> solver result dict
        self.paths = 0
        self.sha = None
        self.location = None
        self.props = []
        self.cover = None


def load_registry():
    reg = Registry()
    reg.load_dir(os.path.join(ROOT, 'specs'))
    reg.load_dir(os.path.join(ROOT, 'contracts'))
    return reg


def resolve_function(program, reg, c):
    """FuncInfo for a contract target: a real function, or generated code (gen:...)"""
    if c.target.startswith('gen:'):
        from . import genloop
        return genloop.funcinfo(program, c)
    tgt = c.target.split('#')[0]          # target#tag: a typed variant of the contract of the same real function
    if tgt not in program.functions:
        return None
    mi, node, parent = program.functions[tgt]
    return FuncInfo(tgt, node, mi.name, parent)


def verify(targets=None, props=None, tier='quick', timeout=None, verbose=False, jobs=None, only_names=None, ob_filter=None):
    t0 = time.time()
    reg = load_registry()
    program = Program()
    from .cexpr import NAMED_TUPLES
    reports = []
    ex = Executor(reg, program)
    called = set()
    for tgt in sorted(reg.contracts):
        c = reg.contracts[tgt]
        if c.trusted or getattr(c, 'inline', False):
            continue
        if targets and not any(tgt == t or tgt.startswith(t) for t in targets):
            continue
        if props and not (set(props) & set(c.props)):
            continue
        rep = FuncReport(tgt, c.name)
        rep.props = list(c.props)
        reports.append(rep)
        try:
            fi = resolve_function(program, reg, c)
            if fi is None:
                rep.status = 'mismatch'
                rep.reason = 'function %s not found in the tree' % tgt
                continue
            if not tgt.startswith('gen:'):
                rep.sha = program.sha(tgt.split('#')[0])
                rep.location = program.location(tgt.split('#')[0])
            else:
                rep.sha = fi.sha
                rep.location = fi.location
            ex2 = Executor(reg, program)
            ex2.trusted_used = ex.trusted_used
            ex2.called_contracts = called
            ex2.assumptions_used = ex.assumptions_used
            obs = ex2.verify(fi, c)
            if ob_filter is not None:
                obs = [o for o in obs if ob_filter(o)]
            rep.obligations = obs
            rep.paths = ex2.paths_done
            rep.entry_pc = list(ex2.entry.pc) if ex2.entry is not None else []
        except OutOfSubset as e:
            rep.status = 'out_of_subset'
            rep.reason = str(e)
        except ContractMismatch as e:
            rep.status = 'mismatch'
            rep.reason = str(e)
        except Exception as e:
            import traceback
            rep.status = 'crash'
            rep.reason = traceback.format_exc()
    # lemmas (proved by induction; a contract that `uses` one assumes its statement)
    from . import lemmas as lemmod
    for lname in sorted(reg.lemmas):
        lem = reg.lemmas[lname]
        tname = 'lemma:' + lname
        if targets and not any(tname == t or tname.startswith(t) for t in targets):
            continue
        if props and not (set(props) & set(lem.props)):
            continue
        rep = FuncReport(tname, 'LEMMA.' + lname)
        rep.props = list(lem.props)
        rep.sha = None
        rep.location = (os.path.relpath(lem.file, ROOT), lem.lineno, lem.lineno)
        reports.append(rep)
        try:
            ex3 = Executor(reg, program)
            rep.obligations = lemmod.obligations(ex3, lem)
            rep.paths = 1
            rep.entry_pc = None
        except OutOfSubset as e:
            rep.status = 'out_of_subset'
            rep.reason = str(e)
        except Exception:
            import traceback
            rep.status = 'crash'
            rep.reason = traceback.format_exc()
    # vacuity guard for the contracts that are assumed or used at call sites: requires + frame + ensures (and each raises
    # clause) must be satisfiable together -- a contradictory callee contract would make everything after the call provable
    cover_reports = contract_covers(reg, program, called, jobs)
    # solve
    tasks = []
    tmo = timeout or (10 if tier == 'quick' else 40)
    for ri, rep in enumerate(reports):
        for oi, ob in enumerate(rep.obligations):
            if only_names and not any(s in ob.name for s in only_names):
                continue
            text = smt.script(list(dict.fromkeys(ob.pc)) + [smt.Not(ob.goal)], hide=getattr(ob, 'hide', ()))
            tasks.append(((ri, oi), text))
        if rep.status == 'ok' and getattr(rep, 'entry_pc', None) is not None:
            tasks.append(((ri, 'cover'), smt.script(list(rep.entry_pc))))
    res = solve.solve_many(tasks, jobs=jobs, timeout_s=tmo, thorough=(tier == 'thorough'))
    texts = dict(tasks)
    # merged (conjunctive) obligations that were not discharged as a whole are retried conjunct by conjunct
    retry = []
    for (ri, oi), r in res.items():
        if oi == 'cover' or r['result'] == 'unsat':
            continue
        ob = reports[ri].obligations[oi]
        if ob.goal.op == 'and' and len(ob.goal.args) > 1:
            for k, g in enumerate(ob.goal.args):
                retry.append(((ri, oi, k), smt.script(list(dict.fromkeys(ob.pc)) + [smt.Not(g)], hide=getattr(ob, 'hide', ()))))
    if retry:
        res2 = solve.solve_many(retry, jobs=jobs, timeout_s=tmo, thorough=(tier == 'thorough'))
        byob = {}
        for (ri, oi, k), r in res2.items():
            byob.setdefault((ri, oi), []).append(r)
        for key, rs in byob.items():
            if all(r['result'] == 'unsat' for r in rs):
                res[key] = {'result': 'unsat', 'backend': rs[0]['backend'], 'secs': sum(r['secs'] for r in rs), 'attempts': [a for r in rs for a in r['attempts']], 'model': None}
            elif any(r['result'] == 'sat' for r in rs):
                bad = [r for r in rs if r['result'] == 'sat'][0]
                res[key] = bad
    for (ri, oi), r in res.items():
        if oi == 'cover':
            reports[ri].cover = r
        else:
            reports[ri].results[oi] = r
    ex.contract_covers = cover_reports
    return reg, program, ex, reports, texts, time.time() - t0


COVER_CACHE = {}


def contract_covers(reg, program, only, jobs=None):
    """[(contract target, outcome index, 'sat'|'unsat'|'unknown'|'error: ..')] for every contract that can be used at a call site"""
    import ast as _ast
    from . import calls
    from .symexec import State, PathEnd, PyExc
    out = []
    pending = []
    for tgt in sorted(reg.contracts):
        c = reg.contracts[tgt]
        if getattr(c, 'inline', False) or tgt.startswith('gen:') or (only is not None and tgt not in only):
            continue
        for which in range(0, 1 + len(c.raises)):
            key = (tgt, which)
            if key in COVER_CACHE:
                out.append((tgt, which, COVER_CACHE[key]))
                continue
            try:
                ex = Executor(reg, program)
                ex.func = FuncInfo('cover.' + tgt, _ast.parse('def f(): pass').body[0], None, None)
                ex.contract = None
                ex.cur_module = tgt.split('.')[0] if tgt.split('.')[0] in program.modules else None
                ex.script = [which] if len(c.raises) else []
                ex.widths = []
                ex.pos = 0
                ex.obligations = []
                ex.site_ord = {}
                ex.loop_ord = {}
                ex.path_no = 1

                class _C(object):
                    params = c.params
                    free = c.free
                    target = c.target
                fi = FuncInfo(tgt, _ast.parse('def f(): pass').body[0], ex.cur_module, None)
                st = State()
                ex.alloc_term(st)
                from .smt import Gt, IntC
                st.pc.append(Gt(st.heap['$alloc'], IntC(0)))
                bound = {}
                for name, pt in list(c.params):
                    if pt is None or pt.kind in ('fnref', 'clsref'):
                        raise OutOfSubset('parameter kind')
                    if pt.kind == 'opaque':
                        v = ptypes.SV(ptypes.PT('opaque'), py=name)
                    else:
                        v = ptypes.SV(pt, smt.Var('p!' + name, ptypes.sort_of(pt)))
                        ex.assume_wf(st, v)
                    bound[name] = v
                if c.free:
                    raise OutOfSubset('closure contract')
                ex.entry = st.copy()
                node = _ast.parse('f()').body[0].value
                try:
                    calls.call_contract(ex, c, bound, st, node)
                except PyExc:
                    pass
                text = smt.script(list(dict.fromkeys(st.pc)), hide=tuple(smt.FUNDEFS))
                pending.append((key, text))
                continue
            except (OutOfSubset, ContractMismatch) as e:
                res = 'skipped: %s' % str(e)[:80]
            except Exception as e:
                res = 'skipped: %s %s' % (type(e).__name__, str(e)[:80])
            COVER_CACHE[key] = res
            out.append((tgt, which, res))
    if pending:
        rs = solve.solve_many(pending, jobs=jobs, timeout_s=3)
        for key, text in pending:
            COVER_CACHE[key] = rs[key]['result']
            out.append((key[0], key[1], rs[key]['result']))
    return out


def summarize(reports, verbose=False, out=sys.stdout):
    tot = dis = 0
    for rep in reports:
        if rep.status != 'ok':
            out.write('[%s] %s: %s\n' % (rep.status.upper(), rep.target, rep.reason.strip().split('\n')[-1][:300]))
            continue
        byname = {}
        for oi, ob in enumerate(rep.obligations):
            r = rep.results.get(oi)
            byname.setdefault(ob.name, []).append((ob, r))
        nd = 0
        for name, lst in sorted(byname.items()):
            ok = all(r is not None and r['result'] == 'unsat' for _, r in lst)
            tot += 1
            if ok:
                dis += 1
                nd += 1
            if verbose or not ok:
                rs = ','.join(sorted(set((r['result'] if r else 'skipped') for _, r in lst)))
                secs = sum(r['secs'] for _, r in lst if r)
                out.write('   %-70s %-12s x%d %.2fs%s\n' % (name, 'discharged' if ok else rs.upper(), len(lst), secs,
                                                            '' if ok else '  line %s' % sorted(set(o.lineno for o, _ in lst))))
        cov = rep.cover['result'] if rep.cover else '-'
        out.write('%-60s paths=%d clauses=%d discharged=%d cover=%s\n' % (rep.target, rep.paths, len(byname), nd, cov))
    out.write('TOTAL clauses=%d discharged=%d\n' % (tot, dis))


def main(argv):
    import argparse
    ap = argparse.ArgumentParser()
    ap.add_argument('--target', action='append')
    ap.add_argument('--prop', action='append')
    ap.add_argument('--tier', default='quick')
    ap.add_argument('--timeout', type=float)
    ap.add_argument('-v', action='store_true')
    ap.add_argument('--dump', help='directory to dump failing SMT scripts into')
    ap.add_argument('--only', action='append')
    ap.add_argument('--jobs', type=int)
    a = ap.parse_args(argv)
    reg, program, ex, reports, texts, secs = verify(a.target, a.prop, a.tier, a.timeout, a.v, a.jobs, a.only)
    summarize(reports, a.v)
    if a.dump:
        os.makedirs(a.dump, exist_ok=True)
        for ri, rep in enumerate(reports):
            for oi, ob in enumerate(rep.obligations):
                r = rep.results.get(oi)
                if r is not None and r['result'] != 'unsat':
                    fn = os.path.join(a.dump, '%s.p%d.%d.smt2' % (ob.name.replace('/', '_'), ob.path, oi))
                    open(fn, 'w').write('; %s line %d path %d result %s\n; %s\n' % (ob.name, ob.lineno, ob.path, r['result'], json.dumps(r['attempts'])) + texts[(ri, oi)])
    print('wall %.1fs' % secs)


if __name__ == '__main__':
    main(sys.argv[1:])
