"""String, regex-object and number-parsing models (A-PY).  Recursive notions (count, replace, split,
join, strip) are spec functions from specs/strings.py, not solver built-ins (DESIGN 2.2)."""
import ast
from . import smt, ptypes
from .smt import (INT, BOOL, STR, REAL, SeqS, IntC, BoolC, StrC, RealC, App, And, Or, Not, Ite, Eq, Implies, Add, Sub, Lt, Le, Gt,
                  Ge, Len, Concat, Unit, Empty, Nth, Extract, TRUE, FALSE)
from .ptypes import SV, PT, TInt, TBool, TStr, TFloat, TCell, TList, TSeq, TOpt, TTuple, NONE, sort_of, CELL
from .symexec import OutOfSubset, PyExc, ExcV, fresh


def spec(ex, name, args):
    from . import speclib
    return speclib.spec_app(ex, name, args, None)


def str_method(ex, base, attr, args, kwargs, st, n):
    args = [ex.unwrap_opt(st, a, n) if a.pt.kind == 'opt' else a for a in args]
    s = base.t
    if attr == 'find':
        sub = args[0]
        start = ex._int(args[1]) if len(args) > 1 else IntC(0)
        return SV(TInt, smt.IndexOf(s, sub.t, start))
    if attr == 'startswith':
        return SV(TBool, smt.PrefixOf(args[0].t, s))
    if attr == 'endswith':
        return SV(TBool, smt.SuffixOf(args[0].t, s))
    if attr == 'count':
        return spec(ex, 'str_count', [base, args[0]])
    if attr == 'replace':
        return spec(ex, 'str_replace', [base, args[0], args[1]])
    if attr in ('strip', 'lstrip', 'rstrip'):
        if not args:
            return spec(ex, 'ws_' + attr, [base])
        chars = args[0]
        if chars.t.op == 'const' and len(chars.t.val) == 1:
            return spec(ex, 'ch_' + attr, [base, chars])
        raise OutOfSubset('%s with a multi-character set at line %d' % (attr, n.lineno))
    if attr == 'split':
        if not args:
            raise OutOfSubset('split() on whitespace at line %d' % n.lineno)
        parts = spec(ex, 'str_split', [base, args[0]])
        if ex.pure:
            return parts
        return ex.new_list(st, TStr, parts.t)
    if attr == 'join' and args[0].pt.kind == 'cell':
        from .calls import downcast_cell
        args = [downcast_cell(ex, st, args[0], TList(TCell), n)]
    if attr == 'join' and args[0].pt.kind == 'list' and args[0].pt.args[0].kind == 'cell':
        # joining a record whose cells are (by now) all strings
        cells = ex.list_content(st, args[0])
        allstr = spec(ex, 'all_strings', [SV(TSeq(TCell), cells)])
        if not ex.branch(st, allstr.t, raising='TypeError', node=n):
            raise PyExc(ExcV('TypeError'))
        return spec(ex, 'cells_join', [base, SV(TSeq(TCell), cells)])
    if attr == 'join':
        seq = ex.as_seq(st, args[0], TStr) if args[0].pt.kind != 'seq' else args[0].t
        return spec(ex, 'str_join', [base, SV(TSeq(TStr), seq)])
    if attr == 'format':
        return SV(TStr, format_model(ex, base, args, st, n))
    if attr == 'lower':
        smt.declare_fun('py_lower', [STR], STR)
        return SV(TStr, App('py_lower', (s,), STR))
    if attr == 'upper':
        smt.declare_fun('py_upper', [STR], STR)
        return SV(TStr, App('py_upper', (s,), STR))
    if attr == 'decode':
        return base
    raise OutOfSubset('str method %s at line %d' % (attr, getattr(n, 'lineno', 0)))


def format_model(ex, base, args, st, n):
    from .calls import to_str
    if base.t.op != 'const':
        raise OutOfSubset('format on a non-constant template at line %d' % n.lineno)
    tmpl = base.t.val
    parts = []
    i = 0
    k = 0
    buf = ''
    while i < len(tmpl):
        if tmpl.startswith('{}', i):
            if buf:
                parts.append(StrC(buf))
                buf = ''
            if k >= len(args):
                raise PyExc(ExcV('IndexError'))
            parts.append(to_str(ex, st, args[k], n))
            k += 1
            i += 2
        elif tmpl.startswith('{{', i):
            buf += '{'
            i += 2
        elif tmpl.startswith('}}', i):
            buf += '}'
            i += 2
        elif tmpl[i] in '{}':
            raise OutOfSubset('format spec in template %r' % tmpl)
        else:
            buf += tmpl[i]
            i += 1
    if buf:
        parts.append(StrC(buf))
    return Concat(*parts) if parts else StrC('')


# ------------------------------------------------------------------ numbers
def _decl_parsers():
    smt.declare_fun('int_ok', [STR], BOOL)
    smt.declare_fun('int_of', [STR], INT)
    smt.declare_fun('float_ok', [STR], BOOL)
    smt.declare_fun('float_of', [STR], REAL)


def parser_axioms(s):
    """int literal => float literal with the same value (A-NUMPARSE)"""
    _decl_parsers()
    return Implies(App('int_ok', (s,), BOOL), And(App('float_ok', (s,), BOOL), Eq(App('float_of', (s,), REAL), smt.ToReal(App('int_of', (s,), INT)))))


def parse_number(ex, which, v, st, n):
    _decl_parsers()
    k = v.pt.kind
    if k == 'int':
        return v if which == 'int' else SV(TFloat, smt.ToReal(v.t))
    if k == 'float':
        if which == 'float':
            return v
        x = v.t
        ti = smt.Op('to_int', (x,), INT)
        return SV(TInt, Ite(Ge(x, RealC(0.0)), ti, smt.Neg(smt.Op('to_int', (smt.Neg(x),), INT))))
    if k == 'str':
        s = v.t
        st.pc.append(parser_axioms(s))
        ok = App(which + '_ok', (s,), BOOL)
        if not ex.branch(st, ok, raising='ValueError', node=n):
            raise PyExc(ExcV('ValueError'))
        # float(s) is the opaque spec function str_num (specs/aggregates.py); int(s) agrees with it (A-NUMPARSE)
        smt.FUNDEFS.setdefault('sp_str_num', smt.FunDef('sp_str_num', [('s', STR)], REAL))
        fl = App('sp_str_num', (s,), REAL)
        st.pc.append(Implies(App('int_ok', (s,), BOOL), Eq(fl, smt.ToReal(App('int_of', (s,), INT)))))
        if which == 'int':
            return SV(TInt, App('int_of', (s,), INT))
        return SV(TFloat, fl)
    if k == 'cell':
        c = v.t
        # numbers pass through int()/float(); strings are parsed; anything else is a TypeError
        if ex.branch(st, ptypes.cell_is_str(c)):
            return parse_number(ex, which, SV(TStr, ptypes.cell_sval(c)), st, n)
        if not ex.branch(st, ptypes.cell_is_num(c), raising='TypeError', node=n):
            raise PyExc(ExcV('TypeError'))
        if which == 'float':
            return SV(TFloat, ptypes.cell_num(c))
        if ex.branch(st, ptypes.cell_is_int(c)):
            return SV(TInt, ptypes.cell_ival(c))
        return parse_number(ex, 'int', SV(TFloat, ptypes.dt_sel('fval', c, REAL, 'CF')), st, n)
    raise OutOfSubset('%s() of %r at line %d' % (which, v.pt, n.lineno))


# ------------------------------------------------------------------ regex objects (assumed contracts)
def regex_key(ex, v):
    """name under which the trusted contract of a compiled regex is registered"""
    if v.pt.kind == 'globalexpr':
        module, name, node = v.py
        return '%s.%s' % (module, name)
    if v.pt.kind == 'regex':
        return 're[%s]' % v.py
    raise OutOfSubset('not a regex object: %r' % (v.pt,))


def regex_pattern_text(ex, v):
    """concrete pattern text of a module-level compiled regex, resolved from the real source"""
    if v.pt.kind == 'regex':
        return v.py
    module, name, node = v.py
    mi = ex.program.modules[module]
    if isinstance(node, ast.Call) and isinstance(node.func, ast.Attribute) and node.func.attr == 'compile':
        return const_str(mi, node.args[0])
    return None


def const_str(mi, node):
    if isinstance(node, ast.Constant) and isinstance(node.value, str):
        return node.value
    if isinstance(node, ast.Name) and node.id in mi.constants and mi.constants[node.id][0] == 'const':
        return mi.constants[node.id][1]
    if isinstance(node, ast.BinOp) and isinstance(node.op, ast.Add):
        a, b = const_str(mi, node.left), const_str(mi, node.right)
        if a is not None and b is not None:
            return a + b
    return None


def regex_method(ex, base, attr, args, kwargs, st, n):
    from .calls import call_external
    key = regex_key(ex, base)
    c = ex.reg.contracts.get(key + '.' + attr)
    if c is None:
        raise OutOfSubset('regex %s.%s has no assumed contract (line %d)' % (key, attr, n.lineno))
    want = c.options.get('pattern')
    have = regex_pattern_text(ex, base)
    if want is not None and have != want:
        from .symexec import ContractMismatch
        raise ContractMismatch('regex %s is %r in the tree but its assumed contract was written for %r' % (key, have, want))
    src = args[0]
    r = call_external(ex, key + '.' + attr, args, kwargs, st, n)
    if attr in ('match', 'search'):
        # result: Opt[Tuple[Int, Int, Str]] = (start, end, group1)
        return SV(PT('optmatch'), py=(r, src))
    if attr == 'finditer':
        # result: Seq[Tuple[Int, Int]] spans
        return SV(PT('matchseq'), py=(r, src))
    raise OutOfSubset('regex method %s' % attr)


def match_method(ex, base, attr, args, st, n):
    tup, src = base.py       # tup: SV Tuple[Int, Int, Str]
    start = ptypes.tuple_get(tup.pt, tup.t, 0)
    end = ptypes.tuple_get(tup.pt, tup.t, 1)
    if attr == 'span':
        return SV(PT('pytuple'), py=(SV(TInt, start), SV(TInt, end)))
    if attr == 'start':
        return SV(TInt, start)
    if attr == 'end':
        return SV(TInt, end)
    if attr == 'group':
        g = 0
        if args:
            g = args[0].t.val
        if g == 0:
            return SV(TStr, Extract(src.t, start, Sub(end, start)))
        if g == 1 and len(tup.pt.args) > 2:
            return SV(TStr, ptypes.tuple_get(tup.pt, tup.t, 2))
    raise OutOfSubset('match object method %s at line %d' % (attr, n.lineno))
