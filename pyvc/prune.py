"""Path pruning: drop a branch side that the path condition refutes.

Only the quantifier-free conjuncts of the path condition are used and every spec function is left uninterpreted, so the
premise is weaker than the real one: `unsat` here implies the side is unreachable (sound).  z3 runs in process with a
deterministic resource limit (no wall-clock timeout), so replays of the same path prefix take the same decisions.
"""
import os
from . import smt

ENABLED = os.environ.get('PYVC_PRUNE', '1') != '0'
RLIMIT = 400000
_cache = {}
_qf = {}
STATS = {'checks': 0, 'refuted': 0, 'cached': 0}


def _has_quant(t):
    k = id(t)
    r = _qf.get(k)
    if r is not None:
        return r[1]
    stack = [t]
    seen = set()
    found = False
    while stack:
        x = stack.pop()
        if id(x) in seen:
            continue
        seen.add(id(x))
        if x.op in ('forall', 'exists'):
            found = True
            break
        stack.extend(x.args)
    _qf[k] = (t, found)     # keep t alive so that id() stays unique
    return found


def refuted(pc, c):
    if c.op == 'const':
        return not c.val
    flat = []
    for f in pc:
        if f.op == 'and':
            flat.extend(f.args)       # keep the quantifier-free conjuncts of a mixed conjunction
        else:
            flat.append(f)
    facts = [f for f in flat if not _has_quant(f)]
    if _has_quant(c):
        return False
    key = (hash(tuple(facts)), len(facts), c)
    r = _cache.get(key)
    if r is not None:
        STATS['cached'] += 1
        return r
    STATS['checks'] += 1
    text = smt.script(facts + [c], hide=tuple(smt.FUNDEFS))
    res = False
    try:
        # the z3 CLI in a child process with a hard kill: the in-process API was seen to ignore both rlimit and timeout on
        # some sequence-heavy inputs.  A verdict is cached per (facts, condition), so one run stays self-consistent.
        import subprocess
        import tempfile
        with tempfile.NamedTemporaryFile('w', suffix='.smt2', delete=True) as f:
            f.write('(set-option :rlimit %d)\n' % RLIMIT + text)
            f.flush()
            out = subprocess.run(['z3-new', '-T:1', f.name], capture_output=True, text=True, timeout=3).stdout
        res = out.strip().split('\n')[0].strip() == 'unsat'
    except Exception:
        res = False
    if res:
        STATS['refuted'] += 1
    _cache[key] = res
    return res
