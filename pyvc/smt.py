"""PyVC term layer: a small many-sorted term algebra with its own SMT-LIB 2.6 printer.

One SMT-LIB text per obligation is the single artefact handed to every back end
(z3 via Solver.from_string, cvc5 and z3 CLIs) -- DESIGN Appendix D.
Sorts are SMT-LIB strings.  Datatypes and (recursive) spec functions are kept in
registries and emitted on demand (only what an obligation mentions).
"""
import re

INT, BOOL, STR, REAL = 'Int', 'Bool', 'String', 'Real'


def SeqS(s):
    return '(Seq %s)' % s


def ArrS(k, v):
    return '(Array %s %s)' % (k, v)


def seq_elem(s):
    assert s.startswith('(Seq '), s
    return s[5:-1]


def arr_parts(s):
    assert s.startswith('(Array '), s
    body = s[7:-1]
    depth = 0
    for i, c in enumerate(body):
        if c == '(':
            depth += 1
        elif c == ')':
            depth -= 1
        elif c == ' ' and depth == 0:
            return body[:i], body[i + 1:]
    raise ValueError(s)


class Term(object):
    __slots__ = ('op', 'args', 'sort', 'val', '_hash', '_fv')

    def __init__(self, op, args, sort, val=None):
        self.op = op
        self.args = tuple(args)
        self.sort = sort
        self.val = val
        self._hash = hash((op, self.args, sort, val if not isinstance(val, list) else None))
        self._fv = None

    def __hash__(self):
        return self._hash

    def __eq__(self, other):
        if self is other:
            return True
        return (isinstance(other, Term) and self._hash == other._hash and self.op == other.op
                and self.sort == other.sort and self.val == other.val and self.args == other.args)

    def __ne__(self, other):
        return not self.__eq__(other)

    def __repr__(self):
        s = to_smt(self)
        return s if len(s) < 400 else s[:400] + '...'

    def is_const(self):
        return self.op == 'const'


# ---------------------------------------------------------------- registries
DATATYPES = {}      # name -> (decl_text, [sort names it depends on])
DT_ORDER = []
FUNDEFS = {}        # name -> FunDef
UFUNS = {}          # name -> (arg_sorts, ret_sort)
USORTS = set()


class FunDef(object):
    def __init__(self, name, params, ret, body=None):
        self.name = name
        self.params = params      # [(name, sort)]
        self.ret = ret
        self.body = body          # Term or None until set
        self.axioms = []


def declare_datatype(name, ctors):
    """ctors: [(ctor_name, [(field, sort)])]"""
    if name in DATATYPES:
        return
    parts = []
    deps = []
    for cn, flds in ctors:
        if flds:
            parts.append('(%s %s)' % (cn, ' '.join('(%s %s)' % (f, s) for f, s in flds)))
        else:
            parts.append('(%s)' % cn)
        for f, s in flds:
            deps.append(s)
    DATATYPES[name] = ('(declare-datatypes ((%s 0)) ((%s)))' % (name, ' '.join(parts)), deps, ctors)
    DT_ORDER.append(name)


def declare_sort(name):
    USORTS.add(name)


def declare_fun(name, arg_sorts, ret_sort):
    if name in UFUNS:
        assert UFUNS[name] == (tuple(arg_sorts), ret_sort), (name, UFUNS[name], arg_sorts, ret_sort)
    UFUNS[name] = (tuple(arg_sorts), ret_sort)


# ---------------------------------------------------------------- constructors
def Var(name, sort):
    return Term('var', (), sort, name)


def BVar(name, sort):
    """bound variable (quantifier / function parameter)"""
    return Term('bvar', (), sort, name)


def IntC(v):
    return Term('const', (), INT, int(v))


def BoolC(v):
    return Term('const', (), BOOL, bool(v))


def StrC(v):
    return Term('const', (), STR, v)


def RealC(v):
    return Term('const', (), REAL, v)


TRUE = BoolC(True)
FALSE = BoolC(False)


def App(fname, args, sort):
    """application of an uninterpreted / defined / datatype function symbol"""
    return Term('app', args, sort, fname)


def Op(op, args, sort):
    return Term(op, args, sort)


def Not(a):
    if a.op == 'const':
        return BoolC(not a.val)
    if a.op == 'not':
        return a.args[0]
    return Term('not', (a,), BOOL)


def And(*xs):
    out = []
    for x in xs:
        if isinstance(x, (list, tuple)):
            x = And(*x)
        if x.op == 'const':
            if not x.val:
                return FALSE
            continue
        if x.op == 'and':
            out.extend(x.args)
        else:
            out.append(x)
    seen = []
    for x in out:
        if x not in seen:
            seen.append(x)
    if not seen:
        return TRUE
    if len(seen) == 1:
        return seen[0]
    return Term('and', seen, BOOL)


def Or(*xs):
    out = []
    for x in xs:
        if isinstance(x, (list, tuple)):
            x = Or(*x)
        if x.op == 'const':
            if x.val:
                return TRUE
            continue
        if x.op == 'or':
            out.extend(x.args)
        else:
            out.append(x)
    if not out:
        return FALSE
    if len(out) == 1:
        return out[0]
    return Term('or', out, BOOL)


def Implies(a, b):
    if a.op == 'const':
        return b if a.val else TRUE
    if b.op == 'const' and b.val:
        return TRUE
    return Term('=>', (a, b), BOOL)


def Ite(c, a, b):
    if c.op == 'const':
        return a if c.val else b
    if a == b:
        return a
    assert a.sort == b.sort, (a.sort, b.sort, a, b)
    if a.sort == BOOL:
        if a.op == 'const' and b.op == 'const':
            return c if a.val else Not(c)
    return Term('ite', (c, a, b), a.sort)


def Eq(a, b):
    assert a.sort == b.sort, ('Eq sorts', a.sort, b.sort, a, b)
    if a == b:
        return TRUE
    if a.op == 'const' and b.op == 'const':
        return BoolC(a.val == b.val)
    if a.sort == BOOL:
        if a.op == 'const':
            return b if a.val else Not(b)
        if b.op == 'const':
            return a if b.val else Not(a)
    # datatype constructor clash / injectivity (cheap syntactic cases)
    if a.op == 'app' and b.op == 'app' and a.val != b.val and is_ctor(a.val) and is_ctor(b.val):
        return FALSE
    return Term('=', (a, b), BOOL)


def Neq(a, b):
    return Not(Eq(a, b))


_CTORS = set()


def is_ctor(name):
    return name in _CTORS


def _arith(op, a, b):
    if a.op == 'const' and b.op == 'const' and a.sort == INT and b.sort == INT:
        if op == '+':
            return IntC(a.val + b.val)
        if op == '-':
            return IntC(a.val - b.val)
        if op == '*':
            return IntC(a.val * b.val)
    return None


def Add(a, b):
    assert a.sort == b.sort and a.sort in (INT, REAL), (a.sort, b.sort)
    r = _arith('+', a, b)
    if r is not None:
        return r
    if a.op == 'const' and a.val == 0:
        return b
    if b.op == 'const' and b.val == 0:
        return a
    # (x + c1) + c2
    if b.op == 'const' and a.op == '+' and a.args[1].op == 'const' and a.sort == INT:
        return Add(a.args[0], IntC(a.args[1].val + b.val))
    if b.op == 'const' and a.op == '-' and len(a.args) == 2 and a.args[1].op == 'const' and a.sort == INT:
        return Add(a.args[0], IntC(b.val - a.args[1].val))
    if b.op == 'const' and b.sort == INT and b.val < 0:
        return Term('-', (a, IntC(-b.val)), INT)
    return Term('+', (a, b), a.sort)


def Sub(a, b):
    assert a.sort == b.sort and a.sort in (INT, REAL), (a.sort, b.sort)
    r = _arith('-', a, b)
    if r is not None:
        return r
    if b.op == 'const' and b.val == 0:
        return a
    if a == b and a.sort == INT:
        return IntC(0)
    if b.op == 'const' and a.sort == INT:
        return Add(a, IntC(-b.val))
    return Term('-', (a, b), a.sort)


def Mul(a, b):
    assert a.sort == b.sort and a.sort in (INT, REAL)
    r = _arith('*', a, b)
    if r is not None:
        return r
    return Term('*', (a, b), a.sort)


def Neg(a):
    if a.op == 'const' and a.sort == INT:
        return IntC(-a.val)
    return Term('-', (a,), a.sort)


def Div(a, b):   # integer floor division for positive divisor (SMT div)
    return Term('div', (a, b), INT)


def Mod(a, b):
    return Term('mod', (a, b), INT)


def RDiv(a, b):
    return Term('/', (a, b), REAL)


def ToReal(a):
    if a.sort == REAL:
        return a
    if a.op == 'const':
        return RealC(float(a.val))
    return Term('to_real', (a,), REAL)


def _cmp(op, a, b):
    assert a.sort == b.sort and a.sort in (INT, REAL), (op, a.sort, b.sort)
    if a.op == 'const' and b.op == 'const':
        return BoolC({'<': a.val < b.val, '<=': a.val <= b.val, '>': a.val > b.val, '>=': a.val >= b.val}[op])
    if a == b:
        return BoolC(op in ('<=', '>='))
    return Term(op, (a, b), BOOL)


def Lt(a, b):
    return _cmp('<', a, b)


def Le(a, b):
    return _cmp('<=', a, b)


def Gt(a, b):
    return _cmp('>', a, b)


def Ge(a, b):
    return _cmp('>=', a, b)


# arrays
def Select(arr, idx):
    k, v = arr_parts(arr.sort)
    assert idx.sort == k, (idx.sort, k)
    a = arr
    while a.op == 'store':
        if a.args[1] == idx:
            return a.args[2]
        if a.args[1].op == 'const' and idx.op == 'const' and a.args[1].val != idx.val:
            a = a.args[0]
            continue
        break
    if a.op == 'constarr':
        return a.args[0]
    return Term('select', (a, idx), v)


def Store(arr, idx, val):
    k, v = arr_parts(arr.sort)
    assert idx.sort == k and val.sort == v, (idx.sort, k, val.sort, v)
    if arr.op == 'store' and arr.args[1] == idx:
        return Store(arr.args[0], idx, val)
    return Term('store', (arr, idx, val), arr.sort)


def ConstArr(sort, val):
    return Term('constarr', (val,), sort)


# sequences & strings (one set of helpers; strings use str.* names)
def is_str(t):
    return t.sort == STR


def Len(s):
    if s.sort == STR:
        if s.op == 'const':
            return IntC(len(s.val))
        if s.op == 'str.++':
            r = IntC(0)
            for a in s.args:
                r = Add(r, Len(a))
            return r
        return Term('str.len', (s,), INT)
    if s.op == 'seq.empty':
        return IntC(0)
    if s.op == 'seq.unit':
        return IntC(1)
    if s.op == 'seq.++':
        r = IntC(0)
        for a in s.args:
            r = Add(r, Len(a))
        return r
    return Term('seq.len', (s,), INT)


def Empty(sort):
    if sort == STR:
        return StrC('')
    return Term('seq.empty', (), sort)


def Unit(x):
    return Term('seq.unit', (x,), SeqS(x.sort))


def Concat(*xs):
    xs = [x for x in xs]
    sort = xs[0].sort
    out = []
    for x in xs:
        assert x.sort == sort, (x.sort, sort)
        if sort == STR:
            if x.op == 'const' and x.val == '':
                continue
            if x.op == 'str.++':
                for y in x.args:
                    if out and out[-1].op == 'const' and y.op == 'const':
                        out[-1] = StrC(out[-1].val + y.val)
                    else:
                        out.append(y)
                continue
            if out and out[-1].op == 'const' and x.op == 'const':
                out[-1] = StrC(out[-1].val + x.val)
                continue
        else:
            if x.op == 'seq.empty':
                continue
            if x.op == 'seq.++':
                out.extend(x.args)
                continue
        out.append(x)
    if not out:
        return Empty(sort)
    if len(out) == 1:
        return out[0]
    return Term('str.++' if sort == STR else 'seq.++', out, sort)


def Nth(s, i):
    if s.sort == STR:
        # a one-character string
        if s.op == 'const' and i.op == 'const' and 0 <= i.val < len(s.val):
            return StrC(s.val[i.val])
        return Term('str.at', (s, i), STR)
    if s.op == 'seq.unit' and i.op == 'const' and i.val == 0:
        return s.args[0]
    if s.op == 'seq.++' and len(s.args) <= 4:
        # nth over a concatenation as a case split: exposes nth(part, i) to quantifier matching
        parts = list(s.args)
        off = IntC(0)
        res = None
        cases = []
        for p in parts:
            cases.append((off, p))
            off = Add(off, Len(p))
        res = None
        for k in range(len(cases) - 1, -1, -1):
            o, p = cases[k]
            idx = Sub(i, o)
            if p.op == 'seq.unit':
                elem = p.args[0]
            elif p.op == 'seq.extract':
                # within the slice (which the case guard establishes on the upper side) the element is the base's
                elem = Term('seq.nth', (p.args[0], Add(p.args[1], idx)), seq_elem(s.sort))
            else:
                elem = Term('seq.nth', (p, idx), seq_elem(s.sort))
            if res is None:
                res = elem
            else:
                res = Ite(Lt(i, Add(o, Len(p))), elem, res)
        return res
    return Term('seq.nth', (s, i), seq_elem(s.sort))


def Extract(s, off, ln):
    if s.sort == STR:
        if s.op == 'const' and off.op == 'const' and ln.op == 'const' and off.val >= 0 and ln.val >= 0:
            return StrC(s.val[off.val:off.val + ln.val])
        return Term('str.substr', (s, off, ln), STR)
    if off.op == 'const' and off.val == 0 and ln == Len(s):
        return s
    return Term('seq.extract', (s, off, ln), s.sort)


def IndexOf(s, t, start):
    assert s.sort == STR and t.sort == STR
    if s.op == 'const' and t.op == 'const' and start.op == 'const' and start.val >= 0:
        return IntC(s.val.find(t.val, start.val)) if start.val <= len(s.val) else IntC(-1)
    return Term('str.indexof', (s, t, start), INT)


def Contains(s, t):
    if s.sort == STR:
        if s.op == 'const' and t.op == 'const':
            return BoolC(t.val in s.val)
        return Term('str.contains', (s, t), BOOL)
    return Term('seq.contains', (s, t), BOOL)


def PrefixOf(p, s):
    if p.op == 'const' and s.op == 'const':
        return BoolC(s.val.startswith(p.val))
    return Term('str.prefixof', (p, s), BOOL)


def SuffixOf(p, s):
    return Term('str.suffixof', (p, s), BOOL)


def StrFromInt(i):
    if i.op == 'const' and i.val >= 0:
        return StrC(str(i.val))
    return Term('str.from_int', (i,), STR)


def ForAll(bvars, body, patterns=()):
    """patterns: terms (containing all bound variables between them) given to the solvers as one multi-pattern"""
    if body.op == 'const':
        return body
    return Term('forall', (body,) + tuple(patterns), BOOL, tuple((b.val, b.sort) for b in bvars))


def Exists(bvars, body):
    if body.op == 'const':
        return body
    return Term('exists', (body,), BOOL, tuple((b.val, b.sort) for b in bvars))


# datatypes -------------------------------------------------------------
def dt_ctor(dt, ctor, args):
    _CTORS.add(ctor)
    return App(ctor, args, dt)


def dt_test(ctor, x):
    if x.op == 'app' and x.val in _CTORS:
        return BoolC(x.val == ctor)
    return Term('is', (x,), BOOL, ctor)


def dt_sel(sel, x, sort, ctor=None):
    if ctor is not None and x.op == 'app' and x.val == ctor:
        ctors = DATATYPES[x.sort][2]
        for cn, flds in ctors:
            if cn == ctor:
                for k, (f, s) in enumerate(flds):
                    if f == sel:
                        return x.args[k]
    return App(sel, (x,), sort)


# ---------------------------------------------------------------- substitution
def subst(t, mapping, cache=None):
    """mapping: Term -> Term (usually vars/bvars)."""
    if cache is None:
        cache = {}
    return _subst(t, mapping, cache)


def _subst(t, m, cache):
    r = m.get(t)
    if r is not None:
        return r
    if not t.args:
        return t
    k = id(t)
    r = cache.get(k)
    if r is not None:
        return r[1]
    if t.op in ('forall', 'exists'):
        names = set(n for n, _ in t.val)
        m2 = dict((kk, vv) for kk, vv in m.items() if not (kk.op == 'bvar' and kk.val in names))
        nargs = [_subst(a, m2, {}) for a in t.args]
    else:
        nargs = [_subst(a, m, cache) for a in t.args]
    if all(x is y for x, y in zip(nargs, t.args)):
        res = t
    else:
        res = rebuild(t, nargs)
    cache[k] = (t, res)
    return res


def rebuild(t, nargs):
    op = t.op
    if op == 'and':
        return And(*nargs)
    if op == 'or':
        return Or(*nargs)
    if op == 'not':
        return Not(nargs[0])
    if op == 'ite':
        return Ite(*nargs)
    if op == '=':
        return Eq(*nargs)
    if op == '=>':
        return Implies(*nargs)
    if op == 'select':
        return Select(*nargs)
    if op == 'store':
        return Store(*nargs)
    if op == '+':
        return Add(*nargs) if len(nargs) == 2 else Term(op, nargs, t.sort, t.val)
    if op == '-' and len(nargs) == 2:
        return Sub(*nargs)
    if op in ('<', '<=', '>', '>='):
        return _cmp(op, *nargs)
    if op in ('str.len', 'seq.len'):
        return Len(nargs[0])
    if op in ('str.++', 'seq.++'):
        return Concat(*nargs)
    return Term(op, nargs, t.sort, t.val)


# ---------------------------------------------------------------- printing
_SIMPLE_SYM = re.compile(r'^[A-Za-z_~!@$%^&*+=<>.?/\-][A-Za-z0-9_~!@$%^&*+=<>.?/\-]*$')


def sym(name):
    if _SIMPLE_SYM.match(name):
        return name
    return '|%s|' % name


def smt_string(s):
    out = []
    for ch in s:
        o = ord(ch)
        if ch == '"':
            out.append('""')
        elif 32 <= o < 127 and ch != '\\':
            out.append(ch)
        else:
            out.append('\\u{%x}' % o)
    return '"' + ''.join(out) + '"'


def to_smt(t, names=None):
    """Print a term.  names: dict id(term)->symbol for shared subterms already defined."""
    out = []
    _print(t, out, names or {})
    return ''.join(out)


def _print(t, out, names):
    nm = names.get(t)
    if nm is not None:
        out.append(nm)
        return
    op = t.op
    if op == 'const':
        if t.sort == INT:
            out.append(str(t.val) if t.val >= 0 else '(- %d)' % (-t.val))
        elif t.sort == BOOL:
            out.append('true' if t.val else 'false')
        elif t.sort == STR:
            out.append(smt_string(t.val))
        elif t.sort == REAL:
            v = t.val
            if isinstance(v, tuple):
                out.append('(/ %d.0 %d.0)' % v)
            elif v < 0:
                out.append('(- %s)' % repr(float(-v)))
            else:
                out.append(repr(float(v)))
        else:
            raise ValueError(t.sort)
        return
    if op in ('var', 'bvar'):
        out.append(sym(t.val))
        return
    if op == 'app':
        if not t.args:
            # nullary constructor or constant: qualify polymorphic-free names plainly
            out.append(sym(t.val))
            return
        out.append('(' + sym(t.val))
        for a in t.args:
            out.append(' ')
            _print(a, out, names)
        out.append(')')
        return
    if op == 'is':
        out.append('((_ is %s) ' % sym(t.val))
        _print(t.args[0], out, names)
        out.append(')')
        return
    if op == 'seq.empty':
        out.append('(as seq.empty %s)' % t.sort)
        return
    if op == 'constarr':
        out.append('((as const %s) ' % t.sort)
        _print(t.args[0], out, names)
        out.append(')')
        return
    if op in ('forall', 'exists'):
        out.append('(%s (%s) ' % (op, ' '.join('(%s %s)' % (sym(n), s) for n, s in t.val)))
        if len(t.args) > 1:
            out.append('(! ')
            _print(t.args[0], out, names)
            out.append(' :pattern (')
            for k, pat in enumerate(t.args[1:]):
                if k:
                    out.append(' ')
                _print(pat, out, names)
            out.append(')))')
            return
        _print(t.args[0], out, names)
        out.append(')')
        return
    out.append('(' + op)
    for a in t.args:
        out.append(' ')
        _print(a, out, names)
    out.append(')')


def _collect(t, seen, acc):
    """collect vars, app symbols, sorts (iterative DFS)"""
    stack = [t]
    while stack:
        x = stack.pop()
        if id(x) in seen:
            continue
        seen[id(x)] = x
        acc['sorts'].add(x.sort)
        if x.op == 'var':
            acc['vars'][x.val] = x.sort
        elif x.op == 'app':
            acc['apps'].add(x.val)
        elif x.op == 'is':
            pass
        elif x.op in ('forall', 'exists'):
            for n, s in x.val:
                acc['sorts'].add(s)
        stack.extend(x.args)


def _sort_atoms(s):
    return set(re.findall(r'[A-Za-z_][A-Za-z0-9_.$]*', s)) - set(['Seq', 'Array', 'Int', 'Bool', 'String', 'Real'])


def script(assertions, logic='ALL', get_model_for=None, extra_opts=(), hide=()):
    """Build a complete SMT-LIB script asserting all `assertions` (list of Bool terms)."""
    seen = {}
    acc = {'vars': {}, 'apps': set(), 'sorts': set()}
    for a in assertions:
        _collect(a, seen, acc)
    # close over defined functions
    need_defs = []
    done = set()
    work = [n for n in acc['apps'] if n in FUNDEFS]
    while work:
        n = work.pop()
        if n in done:
            continue
        done.add(n)
        need_defs.append(n)
        fd = FUNDEFS[n]
        sub = {'vars': {}, 'apps': set(), 'sorts': set()}
        if fd.body is not None and n not in hide:
            _collect(fd.body, {}, sub)
        for ax in fd.axioms:
            _collect(ax, {}, sub)
        for p, s in fd.params:
            sub['sorts'].add(s)
        sub['sorts'].add(fd.ret)
        acc['sorts'] |= sub['sorts']
        acc['vars'].update(sub['vars'])
        for m in sub['apps']:
            acc['apps'].add(m)
            if m in FUNDEFS and m not in done:
                work.append(m)
    for n in acc['apps']:
        if n in UFUNS:
            a, r = UFUNS[n]
            acc['sorts'] |= set(a)
            acc['sorts'].add(r)
    # datatypes closure
    atoms = set()
    for s in acc['sorts']:
        atoms |= _sort_atoms(s)
    need_dt = set()
    work = list(atoms)
    while work:
        a = work.pop()
        if a in need_dt:
            continue
        if a in DATATYPES:
            need_dt.add(a)
            for d in DATATYPES[a][1]:
                work.extend(_sort_atoms(d))
        elif a in USORTS:
            need_dt.add(a)
    lines = ['(set-logic %s)' % logic]
    for o in extra_opts:
        lines.append(o)
    for s in sorted(USORTS):
        if s in need_dt:
            lines.append('(declare-sort %s 0)' % s)
    for d in DT_ORDER:
        if d in need_dt:
            lines.append(DATATYPES[d][0])
    for n in sorted(acc['apps']):
        if n in UFUNS:
            a, r = UFUNS[n]
            lines.append('(declare-fun %s (%s) %s)' % (sym(n), ' '.join(a), r))
    for n in sorted(acc['vars']):
        lines.append('(declare-fun %s () %s)' % (sym(n), acc['vars'][n]))
    for n in sorted(need_defs):
        f = FUNDEFS[n]
        if f.body is None or n in hide:
            lines.append('(declare-fun %s (%s) %s)' % (sym(f.name), ' '.join(s for _, s in f.params), f.ret))
    defs = [FUNDEFS[n] for n in sorted(need_defs) if FUNDEFS[n].body is not None and n not in hide]
    if defs:
        # call graph among the needed definitions: recursive components go into define-funs-rec,
        # everything else is an ordinary define-fun (a macro for the solver), emitted in dependency order
        names = set(f.name for f in defs)
        calls = {}
        for f in defs:
            sub = {'vars': {}, 'apps': set(), 'sorts': set()}
            _collect(f.body, {}, sub)
            calls[f.name] = set(a for a in sub['apps'] if a in names)
        reach = dict((n, set(c)) for n, c in calls.items())
        changed = True
        while changed:
            changed = False
            for n in reach:
                add = set()
                for m in reach[n]:
                    add |= reach[m]
                if not add <= reach[n]:
                    reach[n] |= add
                    changed = True
        byname = dict((f.name, f) for f in defs)

        def sig(f):
            return '(%s (%s) %s)' % (sym(f.name), ' '.join('(%s %s)' % (sym(p), s) for p, s in f.params), f.ret)
        comp = {}
        for n in names:
            comp[n] = frozenset([n] + [m for m in reach[n] if n in reach[m]])
        comps = sorted(set(comp.values()), key=lambda c: sorted(c))
        emitted = set()
        pending = list(comps)
        while pending:
            progress = False
            for c in list(pending):
                deps = set()
                for n in c:
                    deps |= calls[n]
                if all((m in emitted) or (m in c) for m in deps):
                    fl = [byname[n] for n in sorted(c)]
                    if len(c) > 1 or next(iter(c)) in calls[next(iter(c))]:
                        lines.append('(define-funs-rec (%s)\n (%s))' % (' '.join(sig(f) for f in fl), '\n  '.join(to_smt(f.body) for f in fl)))
                    else:
                        f = fl[0]
                        lines.append('(define-fun %s (%s) %s %s)' % (sym(f.name), ' '.join('(%s %s)' % (sym(p), s2) for p, s2 in f.params), f.ret, to_smt(f.body)))
                    emitted |= set(c)
                    pending.remove(c)
                    progress = True
            assert progress, pending
    for n in sorted(need_defs):
        for ax in FUNDEFS[n].axioms:
            lines.append('(assert %s)' % to_smt(ax))
    for a in assertions:
        lines.append('(assert %s)' % to_smt(a))
    lines.append('(check-sat)')
    if get_model_for:
        lines.append('(get-value (%s))' % ' '.join(to_smt(v) for v in get_model_for))
    return '\n'.join(lines) + '\n'
