"""Pure evaluator for contract clauses and spec-function bodies (no forks, no obligations, no allocation).
Partial operations (indexing out of range, None unwrapping) are left under-specified, as in Dafny
function bodies *without* their well-definedness checks -- stated in DESIGN as part of A-PY."""
import ast
from . import smt, ptypes
from .smt import (INT, BOOL, STR, REAL, SeqS, ArrS, Var, BVar, IntC, BoolC, StrC, RealC, App, And, Or, Not, Ite, Eq, Implies,
                  Add, Sub, Mul, Lt, Le, Gt, Ge, Select, Store, Len, Concat, Unit, Empty, Nth, Extract, TRUE, FALSE)
from .ptypes import SV, PT, TInt, TBool, TStr, TFloat, TNone, TCell, TKey, TList, TSeq, TTuple, TOpt, TObj, NONE, sort_of, CELL
from .symexec import OutOfSubset, fresh


class CEval(object):
    def __init__(self, ex, st, entry, result, loop_entry=None, locals_=None, sink=None):
        self.ex = ex
        self.st = st
        self.entry = entry
        self.result = result
        self.loop_entry = loop_entry
        self.locals = locals_ if locals_ is not None else st.locals
        self.sink = sink        # path condition that receives well-formedness facts of references read from the heap
        self.owner = None       # the contract whose clause is being evaluated

    def sub(self, st, locals_=None):
        ce = CEval(self.ex, st, self.entry, self.result, self.loop_entry, locals_ if locals_ is not None else self.locals, self.sink)
        ce.owner = self.owner
        return ce

    def note_wf(self, v):
        if self.sink is None:
            return
        tmp = State0()
        tmp.heap = self.st.heap
        self.ex.assume_wf(tmp, v)
        self.sink.extend(tmp.pc)

    def ev(self, n):
        m = getattr(self, 'c_' + type(n).__name__, None)
        if m is None:
            raise OutOfSubset('contract expression %s at line %d' % (type(n).__name__, getattr(n, 'lineno', 0)))
        return m(n)

    def boolean(self, n):
        v = self.ev(n)
        if v.pt.kind == 'bool':
            return v.t
        return self.ex.truth(self.st, v)

    # leaves
    def c_Constant(self, n):
        return self.ex.ex_Constant(n, self.st)

    def c_Name(self, n):
        if n.id == 'result':
            c = self.owner if self.owner is not None else self.ex.contract
            is_param = ('result' in self.locals and c is not None and any(pn == 'result' for pn, _ in list(c.params) + list(c.free)))
            if self.result is not None and not is_param:
                return self.result       # the returned value (a *parameter* called result keeps its name; use result_value())
            if 'result' not in self.locals:
                raise OutOfSubset('`result` used where no result exists (line %d)' % n.lineno)
        v = self.locals.get(n.id)
        if v is not None:
            return v
        if n.id in ('True', 'False'):
            return SV(TBool, BoolC(n.id == 'True'))
        g = self.ex.program.lookup_global(self.ex.cur_module, n.id) if self.ex.cur_module else None
        if g is not None:
            return g
        for mod in self.ex.program.modules:
            g = self.ex.program.lookup_global(mod, n.id)
            if g is not None and g.pt.kind in ('int', 'str', 'bool', 'class'):
                return g
        raise OutOfSubset('contract: unknown name %s (line %d)' % (n.id, getattr(n, 'lineno', 0)))

    def c_Tuple(self, n):
        return SV(PT('pytuple'), py=tuple(self.ev(e) for e in n.elts))

    def c_List(self, n):
        parts = [self.ev(e) for e in n.elts]
        if not parts:
            return SV(PT('emptylist'))
        ept = None
        for p in parts:
            ept = p.pt if ept is None else ptypes.join_types(ept, p.pt)
        if ept.kind == 'none':
            ept = TCell
        if ept.kind == 'list':
            # a sequence of record references -> keep references
            return SV(TSeq(ept), Concat(*[Unit(p.t) for p in parts]))
        return SV(TSeq(ept), Concat(*[Unit(self.ex.coerce(p, ept).t) for p in parts]))

    def c_Attribute(self, n):
        base = self.ev(n.value)
        if base.pt.kind == 'opt' and base.pt.args[0].kind == 'obj':
            base = SV(base.pt.args[0], base.t)
        if base.pt.kind == 'obj':
            name, pt, arr = self.ex.field_arr(self.st, base.pt.args[0], n.attr)
            v = SV(pt, Select(arr, base.t))
            if pt.is_ref() or (pt.kind == 'opt' and pt.args[0].is_ref()):
                self.note_wf(v)
            return v
        if base.pt.kind == 'tuple' and base.pt in NAMED_TUPLES:
            names = NAMED_TUPLES[base.pt]
            i = names.index(n.attr)
            return SV(base.pt.args[i], ptypes.tuple_get(base.pt, base.t, i))
        if base.pt.kind == 'module':
            g = self.ex.program.lookup_module_attr(base.py, n.attr)
            if g is not None:
                return g
        raise OutOfSubset('contract: attribute %s of %r (line %d)' % (n.attr, base.pt, n.lineno))

    def seq_of(self, v):
        """value as an immutable sequence (dereferencing lists in the current state)"""
        k = v.pt.kind
        if k == 'list':
            return SV(TSeq(v.pt.args[0]), self.ex.list_content(self.st, v))
        if k == 'opt' and v.pt.args[0].kind == 'list':
            return SV(TSeq(v.pt.args[0].args[0]), self.ex.list_content(self.st, SV(v.pt.args[0], v.t)))
        if k in ('seq', 'str'):
            return v
        if k == 'pytuple':
            ept = None
            for p in v.py:
                ept = p.pt if ept is None else ptypes.join_types(ept, p.pt)
            return SV(TSeq(ept), Concat(*[Unit(self.ex.coerce(p, ept).t) for p in v.py]))
        raise OutOfSubset('contract: expected a sequence, got %r' % (v.pt,))

    def c_Subscript(self, n):
        base = self.ev(n.value)
        if base.pt.kind in ('dict', 'ddict'):
            key = self.ev(n.slice)
            present, v = self.ex.dict_lookup(self.st, base, key)
            if base.pt.kind == 'ddict':
                if base.pt.args[1].kind == 'int':
                    return SV(TInt, Ite(present, v.t, IntC(0)))
                if base.pt.args[1].kind == 'cell':
                    return SV(TCell, Ite(present, v.t, ptypes.CI(IntC(0))))
            return v
        if base.pt.kind == 'recdict':
            f = ptypes.recdict_field(base.pt, base.t, ast.literal_eval(n.slice))
            if f is None:
                raise OutOfSubset('contract: key %s is not declared for this record dict' % ast.unparse(n.slice))
            return f[1]
        if base.pt.kind == 'map':
            key = self.ex.coerce(self.ev(n.slice), base.pt.args[0])
            return SV(base.pt.args[1], Select(base.t, key.t))
        if base.pt.kind == 'tuple':
            i = ast.literal_eval(n.slice)
            return SV(base.pt.args[i], ptypes.tuple_get(base.pt, base.t, i))
        if base.pt.kind == 'pytuple':
            return base.py[ast.literal_eval(n.slice)]
        s = self.seq_of(base)
        seq = s.t
        ln = Len(seq)
        if isinstance(n.slice, ast.Slice):
            sl = n.slice
            from .symexec import slice_term
            lo_t = None if sl.lower is None else self.int_of(sl.lower)
            hi_t = None if sl.upper is None else self.int_of(sl.upper)
            return SV(s.pt, slice_term(self.ex, seq, lo_t, hi_t))
        i = self.int_of(n.slice)
        # spec-level indexing: only a negative *literal* counts from the end; symbolic indices are taken
        # as they are (contracts guard them to be in range)
        j = self.ex.norm_index(i, ln) if i.op == 'const' else i
        if s.pt.kind == 'str':
            return SV(TStr, Nth(seq, j))
        return SV(s.pt.args[0], Nth(seq, j))

    def int_of(self, n):
        v = self.ev(n)
        if v.pt.kind != 'int':
            raise OutOfSubset('contract: int expected at line %d, got %r' % (getattr(n, 'lineno', 0), v.pt))
        return v.t

    def c_UnaryOp(self, n):
        if isinstance(n.op, ast.Not):
            return SV(TBool, Not(self.boolean(n.operand)))
        v = self.ev(n.operand)
        if isinstance(n.op, ast.USub):
            return SV(v.pt, smt.Neg(v.t))
        raise OutOfSubset('contract unary op')

    def c_BoolOp(self, n):
        ts = [self.boolean(e) for e in n.values]
        return SV(TBool, And(*ts) if isinstance(n.op, ast.And) else Or(*ts))

    def c_IfExp(self, n):
        c = self.boolean(n.test)
        a = self.ev(n.body)
        b = self.ev(n.orelse)
        a, b = self.unify(a, b)
        return SV(a.pt, Ite(c, a.t, b.t))

    def unify(self, a, b):
        if a.pt == b.pt:
            return a, b
        if a.pt.kind == 'mtag' or b.pt.kind == 'mtag':
            return self.ex.coerce(a, PT('mtag')), self.ex.coerce(b, PT('mtag'))
        if a.pt.kind == 'opt' and a.pt.args[0].kind == 'mtag' and b.pt.kind == 'mtag':
            return SV(PT('mtag'), a.t), b
        if a.pt.kind in ('list', 'pytuple', 'emptylist') or b.pt.kind in ('list', 'pytuple', 'emptylist'):
            if a.pt.kind == 'emptylist' and b.pt.kind in ('seq',):
                return SV(b.pt, Empty(sort_of(b.pt))), b
            if b.pt.kind == 'emptylist' and a.pt.kind in ('seq',):
                return a, SV(a.pt, Empty(sort_of(a.pt)))
            if a.pt.kind == 'emptylist' or b.pt.kind == 'emptylist':
                other = b if a.pt.kind == 'emptylist' else a
                so = self.seq_of(other)
                e = SV(so.pt, Empty(sort_of(so.pt)))
                return (e, so) if a.pt.kind == 'emptylist' else (so, e)
            return self.unify(self.seq_of(a), self.seq_of(b))
        t = ptypes.join_types(a.pt, b.pt)
        return self.ex.coerce(a, t), self.ex.coerce(b, t)

    def c_BinOp(self, n):
        a = self.ev(n.left)
        b = self.ev(n.right)
        if isinstance(n.op, ast.Add) and (a.pt.kind in ('list', 'seq', 'pytuple', 'emptylist') or b.pt.kind in ('list', 'seq', 'pytuple', 'emptylist')):
            if a.pt.kind == 'emptylist':
                return self.seq_of(b)
            if b.pt.kind == 'emptylist':
                return self.seq_of(a)
            sa = self.seq_of(a)
            if b.pt.kind == 'pytuple':
                sb = SV(sa.pt, Concat(*[Unit(self.ex.coerce(p, sa.pt.args[0]).t) for p in b.py]))
            else:
                sb = self.seq_of(b)
            if sa.pt != sb.pt:
                if sb.pt.args[0].kind != 'cell' and sa.pt.args[0].kind == 'cell' and sb.t.op == 'seq.unit':
                    sb = SV(sa.pt, Unit(self.ex.coerce(SV(sb.pt.args[0], sb.t.args[0]), TCell).t))
                elif sa.pt.args[0].kind != 'cell' and sb.pt.args[0].kind == 'cell' and sa.t.op == 'seq.unit':
                    sa = SV(sb.pt, Unit(self.ex.coerce(SV(sa.pt.args[0], sa.t.args[0]), TCell).t))
                else:
                    raise OutOfSubset('contract: sequence concat of %r and %r (line %d)' % (sa.pt, sb.pt, n.lineno))
            return SV(sa.pt, Concat(sa.t, sb.t))
        old = self.ex.pure
        self.ex.pure = True
        try:
            return self.ex.binop(n.op, a, b, self.st, n)
        finally:
            self.ex.pure = old

    def c_Compare(self, n):
        left = self.ev(n.left)
        res = []
        for op, rn in zip(n.ops, n.comparators):
            right = self.ev(rn)
            res.append(self.compare(op, left, right, n))
            left = right
        return SV(TBool, And(*res))

    def compare(self, op, a, b, n):
        if isinstance(op, (ast.Eq, ast.NotEq)):
            ka, kb = a.pt.kind, b.pt.kind
            seqlike = ('seq', 'pytuple', 'emptylist')
            if (ka in seqlike or kb in seqlike) and (ka in seqlike + ('list',)) and (kb in seqlike + ('list',)):
                if ka == 'emptylist' or kb == 'emptylist':
                    other = self.seq_of(b if ka == 'emptylist' else a)
                    t = Eq(Len(other.t), IntC(0))
                else:
                    sa, sb = self.seq_of(a), self.seq_of(b)
                    if sa.pt != sb.pt:
                        raise OutOfSubset('contract: == on %r and %r (line %d)' % (sa.pt, sb.pt, n.lineno))
                    t = Eq(sa.t, sb.t)
                return t if isinstance(op, ast.Eq) else Not(t)
            if ka == 'cell' and kb == 'cell':
                # contract equality on cells is structural (spec level), not Python's numeric ==
                t = Eq(a.t, b.t)
                return t if isinstance(op, ast.Eq) else Not(t)
        old = self.ex.pure
        self.ex.pure = True
        try:
            return self.ex.compare(op, a, b, self.st, n)
        finally:
            self.ex.pure = old

    # calls ------------------------------------------------------------
    def c_Call(self, n):
        f = n.func
        if isinstance(f, ast.Name):
            name = f.id
            m = getattr(self, 'i_' + name, None)
            if m is not None:
                return m(n)
            if name in self.ex.reg.preds:
                return self.call_pred(self.ex.reg.preds[name], [self.ev(a) for a in n.args])
            if name in self.ex.reg.specs:
                from . import speclib
                return speclib.spec_app(self.ex, name, [self.ev(a) for a in n.args], self)
            if name in ('Some',):
                return self.ev(n.args[0])
        if isinstance(f, ast.Attribute):
            base = self.ev(f.value)
            if base.pt.kind == 'str':
                from . import strings
                old = self.ex.pure
                self.ex.pure = True
                try:
                    return strings.str_method(self.ex, base, f.attr, [self.ev(a) for a in n.args], {}, self.st, n)
                finally:
                    self.ex.pure = old
        raise OutOfSubset('contract: call %s at line %d' % (ast.unparse(n.func), n.lineno))

    def call_pred(self, p, args):
        if len(args) != len(p.params):
            raise OutOfSubset('predicate %s arity' % p.name)
        loc = dict(zip(p.params, args))
        sub = CEval(self.ex, self.st, self.entry, self.result, self.loop_entry, loc, self.sink)
        body = [s for s in p.node.body if not (isinstance(s, ast.Expr) and isinstance(s.value, ast.Constant))]
        return sub.eval_body(body)

    def eval_body(self, stmts):
        """straight-line pure body: assignments, if/return chains -> one value"""
        if not stmts:
            raise OutOfSubset('spec body falls off the end')
        s = stmts[0]
        rest = stmts[1:]
        if isinstance(s, ast.Return):
            return self.ev(s.value)
        if isinstance(s, ast.Assign) and isinstance(s.targets[0], ast.Name):
            loc = dict(self.locals)
            loc[s.targets[0].id] = self.ev(s.value)
            return self.sub(self.st, loc).eval_body(rest)
        if isinstance(s, ast.If):
            c = self.boolean(s.test)
            a = self.eval_body(list(s.body) + rest)
            b = self.eval_body(list(s.orelse) + rest)
            a, b = self.unify(a, b)
            return SV(a.pt, Ite(c, a.t, b.t))
        if isinstance(s, ast.Assert) or (isinstance(s, ast.Expr) and isinstance(s.value, ast.Constant)):
            return self.eval_body(rest)
        raise OutOfSubset('spec body statement %s at line %d' % (type(s).__name__, s.lineno))

    # intrinsics --------------------------------------------------------
    def i_old(self, n):
        if self.entry is None:
            raise OutOfSubset('old() without entry state')
        sub = CEval(self.ex, self.entry, self.entry, self.result, self.loop_entry, self.entry.locals if self.locals is self.st.locals else self.locals, self.sink)
        sub.owner = self.owner
        return sub.ev(n.args[0])

    def i_at_loop_entry(self, n):
        le = self.loop_entry
        if le is None:
            raise OutOfSubset('at_loop_entry() outside loop invariant')
        return CEval(self.ex, le, self.entry, self.result, le, self._with_bound(le.locals), self.sink).ev(n.args[0])

    def _with_bound(self, locals_):
        """locals of another program point plus the quantifier-bound variables in scope here"""
        extra = dict((k, v) for k, v in self.locals.items() if getattr(v, 't', None) is not None and getattr(v.t, 'op', None) == 'bvar')
        if not extra:
            return locals_
        loc = dict(locals_)
        loc.update(extra)
        return loc

    def i_at_iter_start(self, n):
        it = getattr(self.ex, 'iter_start', None)
        if it is None:
            raise OutOfSubset('at_iter_start() outside a loop body')
        if isinstance(n.args[0], ast.Lambda):
            # at_iter_start(lambda k: e, v): e in the iteration-start state with k bound to the value v has *now*
            lam = n.args[0]
            vals = [self.ev(a) for a in n.args[1:]]
            loc = dict(self._with_bound(it.locals))
            for a, v in zip(lam.args.args, vals):
                loc[a.arg] = v
            return CEval(self.ex, it, self.entry, self.result, self.loop_entry, loc, self.sink).ev(lam.body)
        return CEval(self.ex, it, self.entry, self.result, self.loop_entry, self._with_bound(it.locals), self.sink).ev(n.args[0])

    def i_len(self, n):
        v = self.ev(n.args[0])
        if v.pt.kind in ('dict', 'ddict'):
            return SV(TInt, Len(self.ex.dict_keys(self.st, v)))
        if v.pt.kind == 'emptylist':
            return SV(TInt, IntC(0))
        return SV(TInt, Len(self.seq_of(v).t))

    def i_contents(self, n):
        return self.seq_of(self.ev(n.args[0]))

    def i_result_value(self, n):
        if self.result is None:
            raise OutOfSubset('result_value() where no result exists')
        return self.result

    def i_old_contents(self, n):
        # content, at function entry, of the list that the argument denotes *now*
        v = self.ev(n.args[0])
        if v.pt.kind == 'opt':
            v = SV(v.pt.args[0], v.t)
        return SV(TSeq(v.pt.args[0]), self.ex.list_content(self.entry, v))

    def i_implies(self, n):
        return SV(TBool, Implies(self.boolean(n.args[0]), self.boolean(n.args[1])))

    def i_iff(self, n):
        return SV(TBool, Eq(self.boolean(n.args[0]), self.boolean(n.args[1])))

    def i_ite(self, n):
        c = self.boolean(n.args[0])
        a, b = self.unify(self.ev(n.args[1]), self.ev(n.args[2]))
        return SV(a.pt, Ite(c, a.t, b.t))

    def _quant(self, n, q):
        pts = [ptypes.parse_type(a) for a in n.args[:-1]]
        lam = n.args[-1]
        names = [a.arg for a in lam.args.args]
        if len(names) != len(pts):
            raise OutOfSubset('quantifier arity at line %d' % n.lineno)
        loc = dict(self.locals)
        bvs = []
        for nm, pt in zip(names, pts):
            bv = BVar('%s_%d' % (nm, n.lineno), sort_of(pt))
            bvs.append(bv)
            loc[nm] = SV(pt, bv)
        sub = self.sub(self.st, loc)
        body = sub.boolean(lam.body)
        pats = []
        for kw in n.keywords:
            if kw.arg == 'trigger':
                # instantiation pattern(s): expressions over the bound variables, e.g. trigger=[self.hash_map[k]]
                elts = kw.value.elts if isinstance(kw.value, (ast.List, ast.Tuple)) else [kw.value]
                pats = [lam2 for lam2 in (ast.Lambda(args=lam.args, body=e) for e in elts)]
                pats = [sub.ev(p.body).t for p in pats]
        if pats and q is smt.ForAll:
            return SV(TBool, smt.ForAll(bvs, body, pats))
        return SV(TBool, q(bvs, body))

    def i_forall(self, n):
        return self._quant(n, smt.ForAll)

    def i_exists(self, n):
        return self._quant(n, smt.Exists)

    def i_is_src(self, n):
        v = self.ev(n.args[0])
        return SV(TBool, Select(self.ex.ghost_set(self.st, '$srcs'), v.t))

    def i_is_offered(self, n):
        v = self.ev(n.args[0])
        return SV(TBool, Or(Select(self.ex.ghost_set(self.st, '$wowned'), v.t), Select(self.ex.ghost_set(self.st, '$held'), v.t)))

    def i_is_owned_below(self, n):
        v = self.ev(n.args[0])
        return SV(TBool, Select(self.ex.ghost_set(self.st, '$wowned'), v.t))

    def i_is_held(self, n):
        v = self.ev(n.args[0])
        return SV(TBool, Select(self.ex.ghost_set(self.st, '$held'), v.t))

    def i_opt_none_int(self, n):
        pt = TOpt(TInt)
        return SV(pt, ptypes.opt_none(pt))

    def i_k1(self, n):
        return self.ex.coerce(self.ex.coerce(self.ev(n.args[0]), TCell), ptypes.TJKey)

    def i_kn(self, n):
        v = self.seq_of(self.ev(n.args[0]))
        return self.ex.coerce(v, ptypes.TJKey)

    def i_const_map(self, n):
        kt = ptypes.parse_type(n.args[0])
        v = self.ev(n.args[1])
        if v.pt.kind == 'emptylist':
            raise OutOfSubset('const_map needs a typed value: use empty(T)')
        pt = PT('map', kt, v.pt)
        return SV(pt, smt.ConstArr(sort_of(pt), v.t))

    def i_some(self, n):
        v = self.ev(n.args[0])
        pt = TOpt(v.pt)
        return SV(pt, ptypes.opt_some(pt, v.t))

    def i_map_set(self, n):
        m, k, v = self.ev(n.args[0]), self.ev(n.args[1]), self.ev(n.args[2])
        k = self.ex.coerce(k, m.pt.args[0])
        v = self.ex.coerce(v, m.pt.args[1])
        return SV(m.pt, Store(m.t, k.t, v.t))

    def i_is_fresh(self, n):
        v = self.ev(n.args[0])
        return SV(TBool, Ge(v.t, self.entry.heap['$alloc']))

    def i_allocated(self, n):
        v = self.ev(n.args[0])
        return SV(TBool, And(Gt(v.t, IntC(0)), Lt(v.t, self.ex.alloc_term(self.st))))

    def i_ref(self, n):
        v = self.ev(n.args[0])
        return SV(TInt, v.t)

    def i_same(self, n):
        a, b = self.ev(n.args[0]), self.ev(n.args[1])
        return SV(TBool, Eq(a.t, b.t))

    def i_is_none(self, n):
        v = self.ev(n.args[0])
        return SV(TBool, self.ex.is_same(v, NONE, self.st, n))

    def i_typeof(self, n):
        v = self.ev(n.args[0])
        cls = ast.literal_eval(n.args[1])
        carr = self.ex.cls_arr()
        t = v.t if v.pt.kind != 'cell' else ptypes.dt_sel('oid', v.t, INT, 'CObj')
        g = Eq(Select(carr, t), IntC(self.ex.program.class_id(cls)))
        if v.pt.kind == 'cell':
            g = And(ptypes.dt_test('CObj', v.t), g)
        return SV(TBool, g)

    def i_as_obj(self, n):
        # as_obj(x, 'module.Class'): the same reference viewed at a subclass type (use under a typeof guard)
        v = self.ev(n.args[0])
        if v.pt.kind == 'opt':
            v = SV(v.pt.args[0], v.t)
        return SV(ptypes.TObj(ast.literal_eval(n.args[1])), v.t)

    def i_typeof_obj(self, n):
        v = self.ev(n.args[0])
        cls = self.ev(n.args[1])
        cname = cls.t.val if cls.t is not None and cls.t.op == 'const' else ast.literal_eval(n.args[1])
        return SV(TBool, Eq(Select(self.ex.cls_arr(), v.t), IntC(self.ex.program.class_id(cname))))

    def i_has_key(self, n):
        d, k = self.ev(n.args[0]), self.ev(n.args[1])
        return SV(TBool, self.ex.dict_has(self.st, d, k))

    def i_dict_map(self, n):
        # the content of a dict as a value: Map[K, Opt[V]] (None for a missing key) -- lets spec functions take the content of a dict
        d = self.ev(n.args[0])
        if d.pt.kind not in ('dict', 'ddict') or d.pt.args[1].is_ref():
            raise OutOfSubset('dict_map of %r' % (d.pt,))
        mname, kname, m, korder, opt = self.ex._dict_arrs(self.st, d)
        return SV(PT('map', d.pt.args[0], opt), Select(m, d.t))

    def i_keys(self, n):
        d = self.ev(n.args[0])
        return SV(TSeq(d.pt.args[0]), self.ex.dict_keys(self.st, d))

    def i_in_set(self, n):
        s, x = self.ev(n.args[0]), self.ev(n.args[1])
        return SV(TBool, self.ex.set_has(self.st, s, x))

    def i_set_map(self, n):
        s = self.ev(n.args[0])
        mname, nname, m, nn = self.ex._set_arrs(self.st, s)
        return SV(PT('map', s.pt.args[0], TBool), Select(m, s.t))

    def i_set_size(self, n):
        s = self.ev(n.args[0])
        mname, nname, m, nn = self.ex._set_arrs(self.st, s)
        return SV(TInt, Select(nn, s.t))

    def i_cell(self, n):
        return self.ex.coerce(self.ev(n.args[0]), TCell)

    def i_is_none_cell(self, n):
        v = self.ex.coerce(self.ev(n.args[0]), TCell)
        return SV(TBool, ptypes.cell_is_none(v.t))

    def i_is_list_cell(self, n):
        v = self.ex.coerce(self.ev(n.args[0]), TCell)
        return SV(TBool, ptypes.dt_test('CL', v.t))

    def i_is_str(self, n):
        v = self.ex.coerce(self.ev(n.args[0]), TCell)
        return SV(TBool, ptypes.cell_is_str(v.t))

    def i_is_int(self, n):
        v = self.ex.coerce(self.ev(n.args[0]), TCell)
        return SV(TBool, ptypes.cell_is_int(v.t))

    def i_is_num(self, n):
        v = self.ex.coerce(self.ev(n.args[0]), TCell)
        return SV(TBool, ptypes.cell_is_num(v.t))

    def i_num(self, n):
        v = self.ex.coerce(self.ev(n.args[0]), TCell)
        return SV(TFloat, ptypes.cell_num(v.t))

    def i_sval(self, n):
        v = self.ex.coerce(self.ev(n.args[0]), TCell)
        return SV(TStr, ptypes.cell_sval(v.t))

    def i_ival(self, n):
        v = self.ex.coerce(self.ev(n.args[0]), TCell)
        return SV(TInt, ptypes.cell_ival(v.t))

    def i_token_value(self, n):
        c = self.ex.coerce(self.ev(n.args[0]), TCell)
        name, pt, arr = self.ex.field_arr(self.st, 'rbql_engine.RBQLAggregationToken', 'value')
        return SV(pt, Select(arr, ptypes.dt_sel('oid', c.t, INT, 'CObj')))

    def i_token_marker(self, n):
        c = self.ex.coerce(self.ev(n.args[0]), TCell)
        name, pt, arr = self.ex.field_arr(self.st, 'rbql_engine.RBQLAggregationToken', 'marker_id')
        return SV(pt, Select(arr, ptypes.dt_sel('oid', c.t, INT, 'CObj')))

    def i_agg_writer(self, n):
        v = self.ev(n.args[0])
        return SV(TObj('rbql_engine.AggregateWriter'), v.t)

    def i_old_field_hist(self, n):
        # the history, at function entry, of the aggregator object denoted now
        v = self.ev(n.args[0])
        name, pt, arr = self.ex.field_arr(self.entry, 'rbql_engine.Aggregator', 'hist')
        return SV(pt, Select(arr, v.t))

    def i_py_equal(self, n):
        a = self.ex.coerce(self.ev(n.args[0]), TCell)
        b = self.ex.coerce(self.ev(n.args[1]), TCell)
        return SV(TBool, ptypes.cell_eq(a.t, b.t))

    def i_float_ok(self, n):
        from . import strings
        strings._decl_parsers()
        v = self.ev(n.args[0])
        return SV(TBool, App('float_ok', (v.t,), BOOL))

    def i_int_ok(self, n):
        from . import strings
        strings._decl_parsers()
        v = self.ev(n.args[0])
        return SV(TBool, App('int_ok', (v.t,), BOOL))

    def i_int_of(self, n):
        # the integer a text denotes (meaningful when int_ok(text)): what int(text) returns
        from . import strings
        strings._decl_parsers()
        v = self.ev(n.args[0])
        return SV(TInt, App('int_of', (v.t,), INT))

    def i_real(self, n):
        v = self.ev(n.args[0])
        return SV(TFloat, smt.ToReal(v.t))

    def i_str_of_int(self, n):
        from .calls import int_to_str
        return SV(TStr, int_to_str(self.int_of(n.args[0])))

    def i_truthy(self, n):
        return SV(TBool, self.ex.truth(self.st, self.ev(n.args[0])))

    def i_mtag(self, n):
        from .calls import method_tag
        return SV(PT('mtag'), IntC(method_tag(ast.literal_eval(n.args[0]))))

    def i_unit(self, n):
        v = self.ev(n.args[0])
        return SV(TSeq(v.pt), Unit(v.t))

    def i_empty(self, n):
        pt = ptypes.parse_type(n.args[0])
        return SV(TSeq(pt), Empty(SeqS(sort_of(pt))))

    def i_tup(self, n):
        parts = [self.ev(a) for a in n.args]
        pt = TTuple(*[p.pt for p in parts])
        return SV(pt, ptypes.mk_tuple(pt, [p.t for p in parts]))

    def i_exc_msg(self, n):
        return self.locals['__exc_msg']

    def i_exc_field(self, n):
        return self.locals['__exc_' + ast.literal_eval(n.args[0])]

    def i_str_contains(self, n):
        a, b = self.ev(n.args[0]), self.ev(n.args[1])
        return SV(TBool, smt.Contains(a.t, b.t))

    def i_index_of(self, n):
        a, b = self.ev(n.args[0]), self.ev(n.args[1])
        st = self.int_of(n.args[2]) if len(n.args) > 2 else IntC(0)
        return SV(TInt, smt.IndexOf(a.t, b.t, st))

    def i_opt_some(self, n):
        v = self.ev(n.args[0])
        pt = TOpt(v.pt)
        return SV(pt, ptypes.opt_some(pt, v.t))

    def i_opt_val(self, n):
        v = self.ev(n.args[0])
        if v.pt.kind != 'opt':
            return v
        return SV(v.pt.args[0], ptypes.opt_val(v.pt, v.t))

    def i_heap_unchanged_since_entry(self, n):
        # explicit frame helper: list ref x has the same content as at function entry
        v = self.ev(n.args[0])
        cur = self.ex.list_content(self.st, v)
        old = self.ex.list_content(self.entry, v)
        return SV(TBool, Eq(cur, old))


NAMED_TUPLES = {}


class State0(object):
    def __init__(self):
        self.pc = []
        self.heap = {}
