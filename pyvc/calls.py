"""Call dispatch: contracts (modular), inlining of small helpers, builtin models (A-PY), oracles."""
import ast
from . import smt, ptypes, strings
from .smt import (INT, BOOL, STR, REAL, SeqS, ArrS, Var, BVar, IntC, BoolC, StrC, RealC, App, And, Or, Not, Ite, Eq, Implies,
                  Add, Sub, Lt, Le, Gt, Ge, Select, Store, Len, Concat, Unit, Empty, Nth, Extract, TRUE, FALSE)
from .ptypes import SV, PT, TInt, TBool, TStr, TFloat, TNone, TCell, TList, TSeq, TOpt, TObj, NONE, sort_of, CELL
from .symexec import OutOfSubset, PyExc, ExcV, _Return, PathEnd, fresh, State, FuncInfo, ContractMismatch

METHOD_TAGS = {}


def method_tag(name):
    if name not in METHOD_TAGS:
        METHOD_TAGS[name] = len(METHOD_TAGS) + 1
    return METHOD_TAGS[name]


def do_call(ex, n, st):
    fn = ex.ev(n.func, st)
    args = []
    for a in n.args:
        if isinstance(a, ast.Starred):
            v = ex.ev(a.value, st)
            if v.pt.kind == 'pytuple':
                args.extend(v.py)
            else:
                raise OutOfSubset('*args call at line %d' % n.lineno)
        else:
            args.append(ex.ev(a, st))
    kwargs = {}
    for kw in n.keywords:
        if kw.arg is None:
            v = ex.ev(kw.value, st)
            if v.pt.kind in ('emptydict',):
                continue
            if v.pt.kind == 'pydict':
                kwargs.update(v.py)
                continue
            raise OutOfSubset('**kwargs call at line %d' % n.lineno)
        kwargs[kw.arg] = ex.ev(kw.value, st)
    if (fn.pt.kind == 'mtag' or (fn.pt.kind == 'opt' and fn.pt.args[0].kind == 'mtag')) and isinstance(n.func, ast.Attribute):
        base = ex.ev(n.func.value, st)
        return call_method(ex, base, n.func.attr, args, kwargs, st, n)
    return apply(ex, fn, args, kwargs, st, n)


def apply(ex, fn, args, kwargs, st, n):
    k = fn.pt.kind
    if k == 'func':
        tag = fn.py[0]
        if tag == 'builtin':
            return builtin(ex, fn.py[1], args, kwargs, st, n)
        if tag == 'func':
            return call_function(ex, fn.py[1], args, kwargs, st, n)
        if tag == 'closure':
            return call_function(ex, fn.py[2], args, kwargs, st, n, closure_node=fn.py[1])
        if tag == 'modfunc':
            return call_external(ex, fn.py[1] + '.' + fn.py[2], args, kwargs, st, n)
        if tag == 'oracle':
            return oracle_call(ex, fn.py[1], args, st, n)
    if k == 'class':
        return construct(ex, fn.py, args, kwargs, st, n)
    if k == 'method':
        base, attr = fn.py
        return call_method(ex, base, attr, args, kwargs, st, n)
    if k == 'globalexpr':
        module, gname, node = fn.py
        q = module + '.' + gname
        if q in ptypes.NAMED_TUPLE_TYPES:
            pt, names = ptypes.NAMED_TUPLE_TYPES[q]
            vals = dict(zip(names, args))
            vals.update(kwargs)
            if set(vals) != set(names):
                raise PyExc(ExcV('TypeError'))
            for i, nm in enumerate(names):
                if vals[nm].pt.kind == 'opt' and pt.args[i].kind != 'opt':
                    # the declared field type excludes None: an obligation (safety.TypeError) that the value is not None here
                    vals[nm] = ex.unwrap_opt(st, vals[nm], n)
            parts = [ex.coerce(vals[nm], pt.args[i], st).t for i, nm in enumerate(names)]
            return SV(pt, ptypes.mk_tuple(pt, parts))
    if k == 'module' and fn.py in ('defaultdict', 'OrderedDict', 'collections.OrderedDict', 'collections.defaultdict'):
        return SV(PT('emptydict'))
    if k == 'mtag':
        raise OutOfSubset('call through method tag without receiver')
    raise OutOfSubset('call of %r at line %d' % (fn.pt, n.lineno))


# ------------------------------------------------------------------ program functions
def bind_args(node, args, kwargs, ex, st, skip_self=False):
    """python argument binding for a FunctionDef (defaults evaluated as constants)"""
    a = node.args
    names = [x.arg for x in a.args]
    if skip_self:
        names = names[1:]
    out = {}
    if len(args) > len(names) and a.vararg is None:
        raise PyExc(ExcV('TypeError'))
    for nm, v in zip(names, args):
        out[nm] = v
    if a.vararg is not None:
        out[a.vararg.arg] = SV(PT('pytuple'), py=tuple(args[len(names):]))
    for kname, v in kwargs.items():
        if kname in names:
            out[kname] = v
        elif a.kwarg is None:
            raise PyExc(ExcV('TypeError'))
    if a.kwarg is not None:
        extra = dict((kk, vv) for kk, vv in kwargs.items() if kk not in names)
        out[a.kwarg.arg] = SV(PT('pydict'), py=extra) if extra else SV(PT('emptydict'))
    defaults = a.defaults
    dnames = [x.arg for x in a.args][len(a.args) - len(defaults):]
    for nm, d in zip(dnames, defaults):
        if nm not in out and nm in names:
            out[nm] = ex.ev(d, st)
    for nm in names:
        if nm not in out:
            raise PyExc(ExcV('TypeError'))
    return out


def call_function(ex, qualname, args, kwargs, st, n, closure_node=None, self_obj=None):
    c = ex.reg.contracts.get(qualname)
    if closure_node is not None:
        node = closure_node
        mi_name = ex.cur_module
    else:
        if qualname not in ex.program.functions:
            if c is not None and not c.inline:
                allargs0 = ([self_obj] if self_obj is not None else []) + list(args)
                pnames = [p for p, _ in c.params]
                bound0 = dict(zip(pnames, allargs0))
                for kn, kv in (kwargs or {}).items():
                    # keyword arguments of a function known by its (assumed) contract only: bound by the parameter names of the contract
                    if kn not in pnames or kn in bound0:
                        raise OutOfSubset('call of %s at line %d does not fit its assumed contract (keyword %s)' % (qualname, n.lineno, kn))
                    bound0[kn] = kv
                if len(allargs0) > len(pnames) or len(bound0) != len(pnames):
                    # the real function may well accept this call (defaults, other keywords): undecided, not a TypeError of the code
                    raise OutOfSubset('call of %s at line %d does not fit its assumed contract (%d of %d arguments)' % (qualname, n.lineno, len(bound0), len(pnames)))
                return call_contract(ex, c, bound0, st, n)
            raise OutOfSubset('unknown function %s' % qualname)
        mi, node, parent = ex.program.functions[qualname]
        mi_name = mi.name
    allargs = ([self_obj] if self_obj is not None else []) + list(args)
    alt = ex.reg.contracts.get(qualname + '2')
    if c is not None and alt is not None and len(allargs) == len(alt.params) and len(allargs) != len(c.params):
        bound = dict(zip([p for p, _ in alt.params], allargs))
        return call_contract(ex, alt, bound, st, n)
    if c is not None and not c.inline:
        bound = bind_args(node, allargs, kwargs, ex, st)
        # typed variants of a contract (target#tag: the same real function verified once more at other element types, e.g. a list of
        # strings instead of a list of cells): the variant whose list parameters have the element types of the arguments is used
        def _lpt(v):
            return v.pt.args[0] if v.pt.kind == 'opt' else v.pt

        def _fits(cc):
            return all((_lpt(bound[pn]).kind != 'list' or ppt is None or ppt.kind != 'list' or _lpt(bound[pn]) == ppt) for pn, ppt in cc.params if pn in bound)
        if not _fits(c):
            for vt, vc in ex.reg.contracts.items():
                if vt.startswith(qualname + '#') and not vc.inline and _fits(vc):
                    return call_contract(ex, vc, bound, st, n)
        return call_contract(ex, c, bound, st, n)
    # inline
    if ex.inline_depth > 6:
        raise OutOfSubset('inlining depth exceeded at %s' % qualname)
    bound = bind_args(node, allargs, kwargs, ex, st)
    saved_locals = st.locals
    saved_mod = ex.cur_module
    saved_handlers = st.handlers
    new_locals = dict(bound)
    if closure_node is not None:
        # closures see the enclosing function's locals
        for kname, v in saved_locals.items():
            new_locals.setdefault(kname, v)
    elif qualname in ex.program.functions and ex.program.functions[qualname][2] is not None:
        for kname, v in saved_locals.items():
            new_locals.setdefault(kname, v)
    st.locals = new_locals
    ex.cur_module = mi_name
    ex.inline_depth += 1
    try:
        try:
            ex.exec_block(node.body, st)
            res = NONE
        except _Return as r:
            res = r.value
    finally:
        ex.inline_depth -= 1
        st.locals = saved_locals
        ex.cur_module = saved_mod
    return res


def downcast_cell(ex, st, av, pt, n):
    """a dynamically typed cell used where a str / int / list is required (TypeError otherwise)"""
    c = av.t
    if pt.kind == 'str':
        ok, val = ptypes.cell_is_str(c), SV(TStr, ptypes.cell_sval(c))
    elif pt.kind == 'int':
        ok, val = ptypes.cell_is_int(c), SV(TInt, ptypes.cell_ival(c))
    else:
        ok, val = ptypes.dt_test('CL', c), SV(pt, ptypes.dt_sel('lref', c, INT, 'CL'))
    if not ex.branch(st, ok, raising='TypeError', node=n):
        raise PyExc(ExcV('TypeError'))
    if pt.kind == 'list':
        ex.assume_wf(st, val)
    return val


def call_external(ex, name, args, kwargs, st, n):
    if name == 're.compile' and args and args[0].t is not None and args[0].t.op == 'const':
        return SV(PT('regex'), py=args[0].t.val)        # a literal pattern: its assumed contract is keyed by the pattern text
    if name in ('re.finditer', 're.match', 're.search') and args and args[0].t is not None and args[0].t.op == 'const' and not kwargs:
        # re.f(pattern, text) == re.compile(pattern).f(text)
        return strings.regex_method(ex, SV(PT('regex'), py=args[0].t.val), name.split('.')[1], args[1:], kwargs, st, n)
    c = ex.reg.contracts.get(name)
    if c is None:
        raise OutOfSubset('external function %s has no (trusted) contract, line %d' % (name, n.lineno))
    bound = {}
    for (pn, pt), v in zip(c.params, args):
        bound[pn] = v
    for kname, v in kwargs.items():
        bound[kname] = v
    return call_contract(ex, c, bound, st, n)


def call_contract(ex, c, bound, st, n):
    if c.trusted:
        ex.trusted_used.add('%s: %s' % (c.target, c.trusted))
    getattr(ex, 'called_contracts', set()).add(c.target)
    callee = State()
    for pn, pt in c.params:
        if pn not in bound:
            raise OutOfSubset('call of %s: argument %s missing (line %d)' % (c.target, pn, getattr(n, 'lineno', 0)))
        if pt.kind in ('fnref', 'clsref', 'opaque'):
            callee.locals[pn] = bound[pn]
            continue
        av = bound[pn]
        if av.pt.kind == 'opt' and pt.kind not in ('opt', 'cell') and av.pt.args[0].kind == pt.kind:
            av = ex.unwrap_opt(st, av, n)
        if av.pt.kind == 'cell' and pt.kind in ('str', 'int', 'list'):
            av = downcast_cell(ex, st, av, pt, n)
        callee.locals[pn] = ex.coerce(av, pt, st)
    for pn, pt in c.free:
        if pn not in st.locals:
            raise OutOfSubset('call of closure %s: free variable %s not in scope' % (c.target, pn))
        if pt.kind in ('fnref', 'clsref', 'opaque'):
            callee.locals[pn] = st.locals[pn]
            continue
        callee.locals[pn] = ex.coerce(st.locals[pn], pt)
    callee.heap = st.heap          # shared: lazily created arrays become visible to the caller
    ln = getattr(n, 'lineno', 0)
    caller_policy = ex.contract.options.get('store_policy', 'engine') if ex.contract is not None else 'engine'
    for cl in c.requires:
        if cl.label.startswith('engine_') and caller_policy != 'engine':
            continue      # ownership discipline of engine code; wrappers forward records they hold
        g = ex.ceval(cl.expr, callee, callee, None, owner=c)
        ex.oblige(st, 'call.%s.%s.%s' % (c.name, cl.label, ex.site(n)), g, n, kind='pre', note='precondition of %s' % c.target)
        ex.assume(st, g)
    for cl in c.assumes:
        ex.assumptions_used.add('%s: %s' % (c.name, cl.label))
    which = ex.decide(1 + len(c.raises))
    pre = State()
    pre.locals = dict(callee.locals)
    pre.heap = dict(st.heap)
    items = [ex._mod_item(m, pre, pre, None) for m in c.modifies]
    ctor_ghost = set(t.attr for t, _ in c.ghost_updates if isinstance(t, ast.Attribute))
    havoc_for_call(ex, st, pre, items, ctor_ghost)
    post = State()
    post.locals = dict(callee.locals)
    post.heap = st.heap
    if which == 0:
        if c.ret is None or c.ret.kind == 'none':
            result = NONE
        else:
            result = SV(c.ret, fresh('ret_' + c.target.split('.')[-1], sort_of(c.ret)))
            ex.assume_wf(st, result)
        # a ghost update is an assignment: its right-hand side reads the ghost fields as they were before the call
        # (the same reading as on the callee side, where the update is applied to the exit state)
        mid = State()
        mid.locals = dict(post.locals)
        mid.heap = dict(post.heap)
        for tgt, val in c.ghost_updates:
            if isinstance(tgt, ast.Attribute):
                try:
                    o = ex.cvalue(tgt.value, post, pre, result, owner=c)
                    name, fpt, arr = ex.field_arr(post, o.pt.args[0], tgt.attr)
                    if name in pre.heap:
                        mid.heap[name] = pre.heap[name]
                except Exception:
                    pass
        for tgt, val in c.ghost_updates:
            v = ex.cvalue(val, mid, pre, result, owner=c)
            if isinstance(tgt, ast.Attribute):
                obj = ex.cvalue(tgt.value, post, pre, result, owner=c)
                cur = ex.get_field(post, obj, tgt.attr)
                ex.assume(st, Eq(cur.t, ex.coerce(v, cur.pt).t))
            elif isinstance(tgt, ast.Call) and isinstance(tgt.func, ast.Name) and tgt.func.id in ('is_held', 'is_owned_below'):
                x = ex.cvalue(tgt.args[0], post, pre, result, owner=c)
                gname = '$held' if tgt.func.id == 'is_held' else '$wowned'
                arr = ex.ghost_set(st, gname)
                st.heap[gname] = Store(arr, x.t, v.t)
            else:
                raise OutOfSubset('ghost_update target')
        for cl in c.ensures:
            ex.assume(st, ex.ceval(cl.expr, post, pre, result, owner=c))
        return result
    cl = c.raises[which - 1]
    msg = SV(TStr, fresh('excmsg', STR))
    post.locals['__exc_msg'] = msg
    fields = {}
    ci = ex.reg.classes.get(cl.extra)
    if ci is not None:
        for f, pt in ci.fields.items():
            fields[f] = SV(pt, fresh('exc_' + f, sort_of(pt)))
            post.locals['__exc_' + f] = fields[f]
    ex.assume(st, ex.ceval(cl.expr, post, pre, None, owner=c))
    raise PyExc(ExcV(cl.extra, msg=msg, fields=fields))


LIST_SORTS = [CELL, INT, STR]
IMMUTABLE_GHOST = ('level', 'sorted_iface')


def havoc_for_call(ex, st, pre, items, ctor_ghost=()):
    alloc_old = ex.alloc_term(st)
    a = fresh('alloc', INT)
    st.heap['$alloc'] = a
    st.pc.append(Ge(a, alloc_old))
    for kind, v in items:
        if kind == 'none':
            continue
        if kind == 'any':
            for name in list(st.heap):
                if name != '$alloc' and name != '$srcs':
                    st.heap[name] = fresh('hv_' + name, st.heap[name].sort)
            continue
        if kind == 'anylist':
            for nm in list(st.heap):
                if nm.startswith('L:'):
                    st.heap[nm] = fresh('hl', st.heap[nm].sort)
            continue
        if kind == 'family':
            names = set(st.heap)
            for cname, ci in ex.reg.classes.items():
                if ex._family(cname) == v:
                    for f, fpt in list(ci.fields.items()) + list(ci.ghost.items()):
                        nm = 'F:%s.%s' % (cname, f)
                        ex.harr(st, nm, ArrS(INT, sort_of(fpt)))
                        names.add(nm)
            for nm in sorted(names):
                if ex._family_array(nm, v) and nm.split('.')[-1] not in ('kind', 'jmv', 'nullw', 'kidx', 'hist', 'finalv'):
                    st.heap[nm] = fresh('hfam_' + nm.split('.')[-1].replace(':', '_').replace('(', '').replace(')', '').replace(' ', '_'), st.heap[nm].sort)
            continue
        if kind == 'field':
            obj, fname = v
            name, fpt, arr = ex.field_arr(st, obj.pt.args[0], fname)
            st.heap[name] = Store(st.heap[name], obj.t, fresh('hf_' + fname, sort_of(fpt)))
            continue
        if kind == 'ref':
            if v.pt.kind == 'none':
                continue
            pt = v.pt.args[0] if v.pt.kind == 'opt' else v.pt
            if pt.kind == 'obj':
                for root, f, fpt in ex.reg.all_fields_of_family(pt.args[0]):
                    if f in IMMUTABLE_GHOST and f not in ctor_ghost:
                        continue
                    name = 'F:%s.%s' % (root, f)
                    arr = ex.harr(st, name, ArrS(INT, sort_of(fpt)))
                    st.heap[name] = Store(arr, v.t, fresh('hf_' + f, sort_of(fpt)))
            elif pt.kind == 'list':
                es = sort_of(pt.args[0])
                name = 'L:' + es
                arr = ex.harr(st, name, ArrS(INT, SeqS(es)))
                st.heap[name] = Store(arr, v.t, fresh('hl', SeqS(es)))
            elif pt.kind in ('dict', 'ddict'):
                mname, kname, m, korder, opt = ex._dict_arrs(st, SV(pt, v.t))
                st.heap[mname] = Store(m, v.t, fresh('hd', smt.arr_parts(m.sort)[1]))
                st.heap[kname] = Store(korder, v.t, fresh('hk', smt.arr_parts(korder.sort)[1]))
            elif pt.kind == 'set':
                mname, nname, m, nn = ex._set_arrs(st, SV(pt, v.t))
                st.heap[mname] = Store(m, v.t, fresh('hs', smt.arr_parts(m.sort)[1]))
                st.heap[nname] = Store(nn, v.t, fresh('hn', INT))
            else:
                raise OutOfSubset('modifies item of type %r' % (pt,))
            continue
        if kind == 'region':
            root = ex._family_root(ex._obj_class(v.pt)) or 'rbql_engine.RBQLOutputWriter'
            lvl = ex.harr(st, 'F:%s.level' % root, ArrS(INT, INT))
            r = BVar('r', INT)
            # writer-family object fields (of the family of v: the Python and the JavaScript writers are separate families)
            for cname, ci in ex.reg.classes.items():
                if ex._family(cname) != 'writer' or ex._family_root(cname) != root:
                    continue
                for f, fpt in list(ci.fields.items()) + list(ci.ghost.items()):
                    if f in IMMUTABLE_GHOST:
                        continue
                    name = 'F:%s.%s' % (cname, f)
                    arr = ex.harr(st, name, ArrS(INT, sort_of(fpt)))
                    new = fresh('hr_' + f, arr.sort)
                    st.pc.append(smt.ForAll([r], Implies(Gt(Select(lvl, r), Select(lvl, v.t)), Eq(Select(new, r), Select(arr, r)))))
                    st.heap[name] = new
            wo = ex.ghost_set(st, '$wowned')
            wo2 = fresh('wowned', wo.sort)
            explicit = [vv.t for kk, vv in items if kk == 'ref' and vv.pt.kind == 'list']
            st.pc.append(smt.ForAll([r], Implies(Select(wo, r), Select(wo2, r))))
            st.pc.append(smt.ForAll([r], Implies(And(Select(wo2, r), Not(Select(wo, r))),
                                                 Or(Ge(r, alloc_old), *[Eq(r, e) for e in explicit]))))
            st.heap['$wowned'] = wo2
            ex.assume_ghost_sets_wf(st)
            names = set(k for k in st.heap if k.startswith('L:'))
            for s in LIST_SORTS:
                names.add('L:' + s)
            for name in sorted(names):
                arr = ex.harr(st, name, ArrS(INT, SeqS(name[2:])))
                new = fresh('hl_' + smt.sym(name[2:]).strip('|').replace(' ', '_'), arr.sort)
                keep = Not(Select(wo2, r))
                st.pc.append(smt.ForAll([r], Implies(keep, Eq(Select(new, r), Select(arr, r)))))
                st.heap[name] = new
            continue


# ------------------------------------------------------------------ constructors
def construct(ex, cls, args, kwargs, st, n):
    short = cls.split('.')[-1]
    from .symexec import BUILTIN_EXC
    if short in BUILTIN_EXC or ex.exc_subclass(cls, 'Exception'):
        msg = None
        fields = {}
        if args and args[0].pt.kind == 'str':
            msg = args[0]
        elif args:
            msg = SV(TStr, to_str(ex, st, args[0], n))
        init = ex.program.functions.get(cls + '.__init__')
        if init is not None:
            inode = init[1]
            pnames = [a.arg for a in inode.args.args][1:]
            binding = dict(zip(pnames, args))
            for s in inode.body:
                if isinstance(s, ast.Assign) and isinstance(s.targets[0], ast.Attribute) and isinstance(s.value, ast.Name) and s.value.id in binding:
                    fields[s.targets[0].attr] = binding[s.value.id]
            msg = None
        return SV(PT('excv'), py=ExcV(cls, msg=msg, fields=fields))
    if cls in ('dict',):
        return SV(PT('emptydict'))
    ci = ex.reg.classes.get(cls)
    if ci is None:
        raise OutOfSubset('construction of undeclared class %s at line %d' % (cls, n.lineno))
    ref = ex.new_ref(st, TObj(cls))
    obj = SV(TObj(cls), ref)
    st.pc.append(Eq(Select(ex.cls_arr(), ref), IntC(ex.program.class_id(cls))))
    init_q = find_method(ex, cls, '__init__')
    if init_q is not None:
        call_function(ex, init_q, args, kwargs, st, n, self_obj=obj)
    return obj


def find_method(ex, cls, name):
    seen = set()
    work = [cls]
    while work:
        c = work.pop(0)
        if c in seen:
            continue
        seen.add(c)
        q = c + '.' + name
        if q in ex.program.functions or q in ex.reg.contracts:
            return q
        ci = ex.reg.classes.get(c)
        bases = list(ci.bases) if ci is not None else []
        for b in ex.program.class_bases(c):
            if b not in bases:
                bases.append(b)
        work.extend(bases)
    return None


# ------------------------------------------------------------------ methods
def assigned_methods(ex, cls, attr):
    """names X of all `self.<attr> = self.X` statements in the real class (and its bases): the dispatch candidates"""
    out = []
    seen = set()
    todo = [cls]
    while todo:
        c = todo.pop()
        if c in seen:
            continue
        seen.add(c)
        ci = ex.program.classes.get(c)
        if ci is None:
            continue
        node = ci[1] if isinstance(ci, tuple) else ci
        for sub in ast.walk(node):
            if isinstance(sub, ast.Assign) and len(sub.targets) == 1:
                t, v = sub.targets[0], sub.value
                if (isinstance(t, ast.Attribute) and t.attr == attr and isinstance(t.value, ast.Name) and t.value.id == 'self'
                        and isinstance(v, ast.Attribute) and isinstance(v.value, ast.Name) and v.value.id == 'self'):
                    if v.attr not in out and find_method(ex, cls, v.attr) is not None:
                        out.append(v.attr)
        cd = ex.reg.classes.get(c)
        if cd is not None:
            todo.extend(getattr(cd, 'bases', []) or [])
    return out


def call_method(ex, base, attr, args, kwargs, st, n):
    k = base.pt.kind
    if k == 'opt':
        base = ex.unwrap_opt(st, base, n)
        k = base.pt.kind
    if k == 'obj':
        cls = base.pt.args[0]
        # call through a field holding a bound method (polymorphic_* idiom)
        home = ex.reg.field_home(cls, attr)
        if home is not None and (home[1].kind == 'mtag' or (home[1].kind == 'opt' and home[1].args[0].kind == 'mtag')):
            tagv = ex.get_field(st, base, attr)
            if tagv.pt.kind == 'opt':
                tagv = ex.unwrap_opt(st, tagv, n)
            cands = assigned_methods(ex, cls, attr)
            if not cands:
                cands = [nm for nm in METHOD_TAGS if find_method(ex, cls, nm) is not None]
            for nm in cands:
                if ex.branch(st, Eq(tagv.t, IntC(method_tag(nm)))):
                    return call_method(ex, base, nm, args, kwargs, st, n)
            # the field holds none of the bound methods the class ever stores in it: must be unreachable
            ex.oblige(st, 'dispatch.%s.known_method' % attr, FALSE, n, kind='assert', note='call through %s: not one of %s' % (attr, cands))
            raise PathEnd()
        q = find_method(ex, cls, attr)
        if q is None:
            raise OutOfSubset('no method %s on %s (line %d)' % (attr, cls, n.lineno))
        return call_function(ex, q, args, kwargs, st, n, self_obj=base)
    if k == 'opaque' and isinstance(base.py, tuple) and base.py and base.py[0] == 'copy-of-global' and attr in ('remove', 'append', 'pop', 'insert', 'extend', 'sort', 'reverse'):
        return NONE         # mutation of a private copy of a module-level container that is only passed on opaquely
    if k == 'recdict' and attr == 'get' and args and args[0].t is not None and args[0].t.op == 'const':
        # d.get('key', None) on a record dict: the value when the key is present, None otherwise
        f = ptypes.recdict_field(base.pt, base.t, args[0].t.val)
        if f is None:
            raise OutOfSubset('key %r is not declared for this record dict (line %d)' % (args[0].t.val, n.lineno))
        if len(args) > 1 and args[1].pt.kind != 'none':
            raise OutOfSubset('record dict .get with a default other than None (line %d)' % n.lineno)
        pt = TOpt(f[1].pt)
        return SV(pt, Ite(f[0], ptypes.opt_some(pt, f[1].t), ptypes.opt_none(pt)))
    if k == 'str':
        return strings.str_method(ex, base, attr, args, kwargs, st, n)
    if k == 'list':
        return list_method(ex, base, attr, args, kwargs, st, n)
    if k in ('dict', 'ddict'):
        return dict_method(ex, base, attr, args, kwargs, st, n)
    if k == 'set':
        if attr == 'add':
            ex.set_add(st, base, args[0])
            return NONE
    if k == 'class':
        # Class.method(obj, ...) or exception classes used as values
        q = find_method(ex, base.py, attr)
        if q is not None:
            return call_function(ex, q, args[1:], kwargs, st, n, self_obj=args[0])
    if k == 'match':
        return strings.match_method(ex, base, attr, args, st, n)
    if k == 'optmatch':
        r, src = base.py
        inner = ex.unwrap_opt(st, r, n)
        return strings.match_method(ex, SV(PT('match'), py=(inner, src)), attr, args, st, n)
    if k == 'globalexpr':
        return strings.regex_method(ex, base, attr, args, kwargs, st, n)
    if k == 'regex':
        return strings.regex_method(ex, base, attr, args, kwargs, st, n)
    if k == 'pydict':
        if attr == 'get':
            key = args[0]
            if key.t is not None and key.t.op == 'const':
                return base.py.get(key.t.val, args[1] if len(args) > 1 else NONE)
        if attr == 'items':
            return SV(PT('pylist'), py=tuple(SV(PT('pytuple'), py=(ex.program.const_sv(kk), vv)) for kk, vv in base.py.items()))
    if k == 'emptydict' and attr == 'get':
        return args[1] if len(args) > 1 else NONE
    if k in ('pytuple', 'pylist') and attr == 'find' and len(args) == 1 and all(e.pt.kind == 'str' for e in base.py) and args[0].pt.kind == 'str':
        # ['x', 'y'].indexOf(v) of the JavaScript front end on an array literal of strings: index of the first equal element, -1 when none is
        t = IntC(-1)
        for i in reversed(range(len(base.py))):
            t = Ite(Eq(base.py[i].t, args[0].t), IntC(i), t)
        return SV(ptypes.TInt, t)
    raise OutOfSubset('method %s on %r at line %d' % (attr, base.pt, n.lineno))


def list_method(ex, base, attr, args, kwargs, st, n):
    ept = base.pt.args[0]
    seq = ex.list_content(st, base)
    if attr == 'append':
        a0 = args[0]
        if a0.pt.kind == 'opt' and ept.kind not in ('opt', 'cell') and a0.pt.args[0] == ept:
            a0 = ex.unwrap_opt(st, a0, n)
        v = ex.coerce(a0, ept, st)
        ex.set_list_content(st, base, Concat(seq, Unit(v.t)), n)
        return NONE
    if attr == 'insert':
        i = ex._int(args[0])
        v = ex.coerce(args[1], ept)
        if i.op == 'const' and i.val == 0:
            ex.set_list_content(st, base, Concat(Unit(v.t), seq), n)
            return NONE
        j = ex.clampi(i, Len(seq))
        ex.set_list_content(st, base, Concat(Extract(seq, IntC(0), j), Unit(v.t), Extract(seq, j, Sub(Len(seq), j))), n)
        return NONE
    if attr == 'extend':
        ex.set_list_content(st, base, Concat(seq, ex.as_seq(st, args[0], ept)), n)
        return NONE
    if attr == 'pop' and not args and not kwargs:
        # xs.pop(): the last element, removed; IndexError on an empty list (JavaScript would give undefined: the obligation is the stronger one)
        if not ex.branch(st, Ge(Len(seq), IntC(1)), raising='IndexError', node=n):
            raise PyExc(ExcV('IndexError'))
        last = Nth(seq, Sub(Len(seq), IntC(1)))
        ex.set_list_content(st, base, Extract(seq, IntC(0), Sub(Len(seq), IntC(1))), n)
        return ex.wf(st, SV(ept, last))
    if attr == 'reverse':
        # pointwise model (A-PY): same length, element k is old element len-1-k
        r = fresh('reversed', seq.sort)
        k = BVar('rk', INT)
        st.pc.append(Eq(Len(r), Len(seq)))
        st.pc.append(smt.ForAll([k], Implies(And(Ge(k, IntC(0)), Lt(k, Len(seq))), Eq(Nth(r, k), Nth(seq, Sub(Sub(Len(seq), IntC(1)), k))))))
        ex.set_list_content(st, base, r, n)
        return NONE
    if attr == 'remove':
        # remove first occurrence; only supported for python-constant lists (statement groups)
        raise OutOfSubset('list.remove at line %d' % n.lineno)
    if attr == 'find' and len(args) == 1 and ept.kind in ('int', 'str'):
        # JavaScript Array.indexOf(x) (the front end renders indexOf as find): index of the first element equal to x, -1 when there is none
        xe = ex.coerce(args[0], ept)
        r = fresh('idxof', INT)
        j = smt.BVar('j', INT)
        st.pc.append(Ite(smt.Contains(seq, Unit(xe.t)),
                         And(Ge(r, IntC(0)), Lt(r, Len(seq)), Eq(Nth(seq, r), xe.t),
                             smt.ForAll([j], Implies(And(Ge(j, IntC(0)), Lt(j, r)), Not(Eq(Nth(seq, j), xe.t))))),
                         Eq(r, IntC(-1))))
        return SV(TInt, r)
    if attr == 'count' or attr == 'index':
        raise OutOfSubset('list.%s' % attr)
    raise OutOfSubset('list method %s at line %d' % (attr, n.lineno))


def dict_method(ex, base, attr, args, kwargs, st, n):
    if attr == 'get':
        present, v = ex.dict_lookup(st, base, args[0])
        vpt = base.pt.args[1]
        if len(args) > 1 and args[1].pt.kind != 'none':
            d = ex.coerce(args[1], vpt)
            return ex.wf(st, SV(vpt, Ite(present, v.t, d.t)))
        if vpt.kind == 'cell':
            return SV(TCell, Ite(present, v.t, ptypes.CNone()))
        opt = PT('opt', vpt)
        if vpt.is_ref():
            return ex.wf(st, SV(opt, Ite(present, v.t, IntC(0))))
        return SV(opt, Ite(present, ptypes.opt_some(opt, v.t), ptypes.opt_none(opt)))
    if attr == 'items':
        return SV(PT('dictitems'), py=base)
    raise OutOfSubset('dict method %s at line %d' % (attr, n.lineno))


# ------------------------------------------------------------------ builtins
def to_str(ex, st, v, n):
    k = v.pt.kind
    if k == 'str':
        return v.t
    if k == 'int':
        return int_to_str(v.t)
    if k == 'excv':
        if v.py.msg is not None:
            return v.py.msg.t
        return fresh('str_exc', STR)
    if k == 'cell':
        smt.FUNDEFS.setdefault('sp_cell_text', smt.FunDef('sp_cell_text', [('c', CELL)], STR))
        return Ite(ptypes.cell_is_str(v.t), ptypes.cell_sval(v.t), App('sp_cell_text', (v.t,), STR))
    if k == 'key':
        smt.declare_fun('key_str', ['Key'], STR)
        return App('key_str', (v.t,), STR)
    if k == 'jkey':
        smt.declare_fun('jkey_str', ['JKey'], STR)
        return App('jkey_str', (v.t,), STR)
    raise OutOfSubset('str() of %r at line %d' % (v.pt, getattr(n, 'lineno', 0)))


def int_to_str(t):
    if t.op == 'const':
        return StrC(str(t.val))
    return Ite(Ge(t, IntC(0)), smt.StrFromInt(t), Concat(StrC('-'), smt.StrFromInt(smt.Neg(t))))


def builtin(ex, name, args, kwargs, st, n):
    if name in ('__js_math_min', '__js_math_max'):
        name = name[len('__js_math_'):]
    if name == '__js_str':
        v = args[0]
        if v.pt.kind == 'str':
            return v
        if v.pt.kind == 'opt':
            v = ex.unwrap_opt(st, v, n)
        return SV(TStr, to_str(ex, st, v, n))
    if name == '__js_map_get':
        # JavaScript Map.get(k): `undefined` for a missing key, which is distinct from every stored value (also from a stored null):
        # an Opt of the value type, never collapsed into the value's own None
        base = args[0]
        if base.pt.kind not in ('dict', 'ddict'):
            raise OutOfSubset('Map.get on %r at line %d' % (base.pt, n.lineno))
        present, v = ex.dict_lookup(st, base, args[1])
        vpt = base.pt.args[1]
        opt = PT('opt', vpt)
        if vpt.is_ref():
            return ex.wf(st, SV(opt, Ite(present, v.t, IntC(0))))
        mname, kname, m, korder, dopt = ex._dict_arrs(st, base)
        return SV(opt, Select(Select(m, base.t), ex.coerce(args[1], base.pt.args[0]).t))     # the stored entry is already that Opt value
    if name == 'len':
        v = args[0]
        k = v.pt.kind
        if k == 'opt':
            v = ex.unwrap_opt(st, v, n)
            k = v.pt.kind
        if k == 'list':
            return SV(TInt, Len(ex.list_content(st, v)))
        if k in ('seq', 'str'):
            return SV(TInt, Len(v.t))
        if k in ('pytuple', 'pylist'):
            return SV(TInt, IntC(len(v.py)))
        if k == 'emptylist':
            return SV(TInt, IntC(0))
        if k in ('dict', 'ddict'):
            return SV(TInt, Len(ex.dict_keys(st, v)))
        if k == 'set':
            return SV(TInt, ex.set_len(st, v))
        if k == 'tuple':
            return SV(TInt, IntC(len(v.pt.args)))
        raise OutOfSubset('len of %r at line %d' % (v.pt, n.lineno))
    if name == 'isinstance':
        return SV(TBool, isinstance_term(ex, st, args[0], args[1], n))
    if name == 'type':
        v = args[0]
        if v.pt.kind == 'obj' or (v.pt.kind == 'opt' and v.pt.args[0].kind == 'obj'):
            return SV(PT('clsid'), Select(ex.cls_arr(), v.t))
        if v.pt.kind == 'excv':
            return SV(PT('class'), py=v.py.cls)
        raise OutOfSubset('type() of %r' % (v.pt,))
    if name == 'str':
        return SV(TStr, to_str(ex, st, args[0], n))
    if name in ('int', 'float'):
        return strings.parse_number(ex, name, args[0], st, n)
    if name == 'list':
        if not args:
            return SV(PT('emptylist'))
        v = args[0]
        if v.pt.kind == 'list':
            return ex.new_list(st, v.pt.args[0], ex.list_content(st, v))
        if v.pt.kind == 'seq':
            return ex.new_list(st, v.pt.args[0], v.t)
        if v.pt.kind == 'set':
            return SV(PT('setaslist'), py=v)
        if v.pt.kind == 'matchseq':
            return v        # list(re.finditer(..)): the match objects in order; only iterated, never mutated, by the modelled code
        if v.pt.kind in ('pytuple', 'pylist'):
            ept = None
            for p in v.py:
                ept = p.pt if ept is None else ptypes.join_types(ept, p.pt)
            return ex.new_list(st, ept, ex.as_seq(st, SV(PT('pytuple'), py=v.py), ept))
        raise OutOfSubset('list() of %r at line %d' % (v.pt, n.lineno))
    if name == 'tuple':
        v = args[0]
        if v.pt.kind == 'list':
            return SV(TSeq(v.pt.args[0]), ex.list_content(st, v))
        if v.pt.kind == 'seq':
            return v
        raise OutOfSubset('tuple() of %r' % (v.pt,))
    if name == 'enumerate':
        return SV(PT('enumerate'), py=args[0])
    if name in ('range', 'xrange'):
        if len(args) == 1:
            hi = ex._int(args[0])
            s = fresh('range', SeqS(INT))
            from .symexec import RANGE_SEQS
            RANGE_SEQS.add(s.val)
            i = BVar('i', INT)
            st.pc.append(Eq(Len(s), Ite(Ge(hi, IntC(0)), hi, IntC(0))))
            st.pc.append(smt.ForAll([i], Implies(And(Ge(i, IntC(0)), Lt(i, Len(s))), Eq(Nth(s, i), i))))
            return SV(TSeq(TInt), s)
        raise OutOfSubset('range with %d args' % len(args))
    if name in ('min', 'max'):
        if len(args) == 2 and not kwargs:
            a, b = args
            if a.pt.kind == 'int' and b.pt.kind == 'int':
                c = Lt(b.t, a.t) if name == 'min' else Gt(b.t, a.t)
                return SV(TInt, Ite(c, b.t, a.t))
            ca, cb = ex.coerce(a, TCell).t, ex.coerce(b, TCell).t
            ex.num_guard(st, ca, cb, n)
            c = ptypes.cell_lt(cb, ca) if name == 'min' else ptypes.cell_lt(ca, cb)
            return SV(TCell, Ite(c, cb, ca))
        return call_external(ex, 'builtins.' + name, args, kwargs, st, n)
    if name == 'sorted':
        from . import speclib
        return speclib.sorted_model(ex, args, kwargs, st, n)
    if name == 'sum':
        return call_external(ex, 'builtins.sum', args, kwargs, st, n)
    if name == 'all' or name == 'any':
        raise OutOfSubset('%s() at line %d' % (name, n.lineno))
    if name == 'set':
        if not args:
            return SV(PT('emptyset'))
        return SV(PT('setof'), py=args[0])
    if name == 'dict':
        return SV(PT('emptydict'))
    if name == 'bool' and len(args) == 1:
        return SV(ptypes.TBool, ex.truth(st, args[0]))
    if name == 'open' and len(args) == 2 and args[1].t is not None and args[1].t.op == 'const' and str(args[1].t.val).startswith('w') and 'builtins.open#w' in ex.reg.contracts:
        return call_external(ex, 'builtins.open#w', args, kwargs, st, n)         # open(path, 'w...'): the assumed contract of a file opened for writing
    if ('builtins.' + name) in ex.reg.contracts:
        return call_external(ex, 'builtins.' + name, args, kwargs, st, n)        # a builtin with an assumed contract (e.g. open)
    raise OutOfSubset('builtin %s at line %d' % (name, n.lineno))


def isinstance_term(ex, st, v, cls, n):
    if cls.pt.kind == 'pytuple':
        return Or(*[isinstance_term(ex, st, v, c, n) for c in cls.py])
    if cls.pt.kind == 'func' and cls.py[0] == 'builtin':
        cname = cls.py[1]
    elif cls.pt.kind == 'class':
        cname = cls.py
    else:
        raise OutOfSubset('isinstance class argument')
    k = v.pt.kind
    simple = {'str': 'str', 'basestring': 'str', 'unicode': 'str', 'int': 'int', 'float': 'float', 'list': 'list', 'bool': 'bool'}
    if k == 'cell':
        c = v.t
        if cname in ('str', 'basestring', 'unicode'):
            return ptypes.dt_test('CS', c)
        if cname == 'int':
            return Or(ptypes.dt_test('CI', c), ptypes.dt_test('CB', c))
        if cname == 'float':
            return ptypes.dt_test('CF', c)
        if cname == 'list':
            return ptypes.dt_test('CL', c)
        # user classes: cells holding object references carry their class in $cls
        return And(ptypes.dt_test('CObj', c), Eq(Select(ex.cls_arr(), ptypes.dt_sel('oid', c, INT, 'CObj')), IntC(ex.program.class_id(cname))))
    if k == 'excv':
        return BoolC(ex.exc_subclass(v.py.cls, cname))
    if k in simple.values() or k in ('none', 'seq', 'tuple', 'pytuple'):
        want = simple.get(cname)
        if k == 'int' and want in ('int',):
            return TRUE
        if k == 'bool' and want in ('int', 'bool'):
            return TRUE
        if want is not None:
            return BoolC(k == want)
        return FALSE
    if k == 'obj':
        if ex.reg.is_subclass(v.pt.args[0], cname):
            return TRUE
        subs = [c for c in ex.reg.classes if ex.reg.is_subclass(c, cname)]
        return Or(*[Eq(Select(ex.cls_arr(), v.t), IntC(ex.program.class_id(c))) for c in subs])
    if k == 'opt':
        inner = SV(v.pt.args[0], ptypes.opt_val(v.pt, v.t))
        return And(Not(ptypes.opt_is_none(v.pt, v.t)), isinstance_term(ex, st, inner, cls, n))
    raise OutOfSubset('isinstance on %r at line %d' % (v.pt, n.lineno))


# ------------------------------------------------------------------ comprehensions
def list_comp(ex, n, st):
    if len(n.generators) != 1:
        raise OutOfSubset('nested comprehension')
    g = n.generators[0]
    it = ex.ev(g.iter, st)
    if it.pt.kind in ('pytuple', 'pylist'):
        out = []
        saved = dict(st.locals)
        for e in it.py:
            ex.assign(g.target, e, st)
            ok = True
            for c in g.ifs:
                if not ex.branch(st, ex.cond(c, st)):
                    ok = False
                    break
            if ok:
                out.append(ex.ev(n.elt, st))
        st.locals = saved
        ept = None
        for p in out:
            ept = p.pt if ept is None else ptypes.join_types(ept, p.pt)
        if ept is None:
            return SV(PT('emptylist'))
        return ex.new_list(st, ept, ex.as_seq(st, SV(PT('pytuple'), py=tuple(out)), ept))
    if g.ifs:
        # the one filtered comprehension of the subset: [x for x in xs if len(x)] over strings is the spec function nonempty_strs(xs)
        if (len(g.ifs) == 1 and isinstance(g.target, ast.Name) and isinstance(n.elt, ast.Name) and n.elt.id == g.target.id
                and ast.unparse(g.ifs[0]) == 'len(%s)' % g.target.id and it.pt.kind == 'list' and it.pt.args[0].kind == 'str'):
            from . import speclib
            parts = speclib.spec_app(ex, 'nonempty_strs', [SV(ptypes.TSeq(ptypes.TStr), ex.list_content(st, it))], None)
            return ex.new_list(st, ptypes.TStr, parts.t)
        raise OutOfSubset('filtered comprehension over symbolic sequence at line %d' % n.lineno)
    seq_of = ex._iter_seq(st, it, n)
    seq = seq_of(st)
    # pointwise map: res[i] == elt(seq[i]) for an element expression that must evaluate without forking
    i = fresh('ci%d' % n.lineno, INT)
    from .symexec import seq_elem_sv
    saved = dict(st.locals)
    guard = And(Ge(i, IntC(0)), Lt(i, Len(seq)))
    st.pc.append(guard)
    pos0 = ex.pos
    npc = len(st.pc)
    nobl = len(ex.obligations)
    elem = seq_elem_sv(ex, st, it, seq, i)
    ex.assign(g.target, elem, st)
    heap_before = dict(st.heap)
    v = ex.ev(n.elt, st)
    if ex.pos != pos0:
        raise OutOfSubset('comprehension element forks (line %d)' % n.lineno)
    if any(st.heap.get(k2) is not heap_before.get(k2) and k2 != '$alloc' and not (st.heap.get(k2) == heap_before.get(k2)) for k2 in st.heap):
        raise OutOfSubset('comprehension element has side effects (line %d)' % n.lineno)
    extra = st.pc[npc:]
    del st.pc[npc - 1:]
    st.locals = saved
    st.heap['$alloc'] = heap_before.get('$alloc', st.heap.get('$alloc'))     # the element is pure: nothing it allocated survives
    if v.pt.kind in ('pytuple', 'none', 'emptylist'):
        raise OutOfSubset('comprehension element type %r' % (v.pt,))
    res = fresh('comp', SeqS(sort_of(v.pt)))
    st.pc.append(Eq(Len(res), Len(seq)))
    bi = BVar('bi%d' % n.lineno, INT)
    body = Implies(guard, And(And(*extra) if extra else TRUE, Eq(Nth(res, i), v.t)))
    st.pc.append(smt.ForAll([bi], smt.subst(body, {i: bi})))
    # obligations raised while evaluating the element keep the free index constant `i` (implicitly
    # universally quantified) together with its range guard in their path condition
    return ex.new_list(st, v.pt, res)


# ------------------------------------------------------------------ oracles (user expressions)
def oracle_call(ex, name, args, st, n):
    from . import oracles
    return oracles.call(ex, name, args, st, n)
