"""BOUNDED jobs for C09 (column-name variables), C13 (entry points agree), C14 (errors/warnings), C15 (faults), C16 (isolation),
C08 (spelling invariance), C06 (non-list sources)."""
import io
import itertools
import os
import random
import subprocess
import sys
import tempfile

from .registry import job
from .refsem import load_rbql, REPO

NAMES = ['plain', 'with space', 'quo"te', "apo'str", 'back\\slash', 'br[ack]et', 'tab\there', 'new\nline', 'cr\rx', 'ünï', 'a+b=c', 'x;y,z', '#hash', '%p^c', 'имя', 'p(q)', 'a:b', '!bang', 'dash-ed', 'dot.ted']


def pylit(name, q):
    s = name.replace('\\', '\\\\').replace('\n', '\\n').replace('\r', '\\r').replace('\t', '\\t')
    return q + s.replace(q, '\\' + q) + q


@job('C09')
def column_name_variables(prop, tier, seed):
    rbql, eng = load_rbql()
    from rbql import rbql_csv
    fails = []
    n = 0
    rnd = random.Random(seed)
    idents = ['alpha', 'beta_2', '_g', 'Name']
    for trial in range(40 if tier == 'quick' else 200):
        k = rnd.randint(1, 4)
        names = rnd.sample(NAMES, k)
        if rnd.random() < 0.5:
            names[rnd.randrange(k)] = rnd.choice(idents)
        row = ['v%d' % i for i in range(k)]
        table = [row, ['w%d' % i for i in range(k)]]
        for pos, name in enumerate(names):
            forms = [('a[%s]' % pylit(name, '"'), True), ("a[%s]" % pylit(name, "'"), True)]
            import re as _re
            if _re.match(r'^[_a-zA-Z][_a-zA-Z0-9]*$', name):      # a.name is defined for ASCII identifiers only (source regex)
                forms.append(('a.%s' % name, True))
            for form, _ in forms:
                for qtext in ('select %s', 'select NR, %s where %s != "zzz"', 'select * except %s', 'update %s = "new"'):
                    q = qtext.replace('%s', form)
                    n += 1
                    out, hdr = [], []
                    try:
                        eng.query_table(q, [list(r) for r in table], out, [], None, list(names), None, hdr)
                    except Exception as e:
                        fails.append({'replay': 'none', 'key': 'name:%r:%s' % (name, qtext), 'query': q, 'names': names, 'expected': 'binds column %d' % pos, 'observed': '%s: %s' % (type(e).__name__, e)})
                        continue
                    if qtext == 'select %s':
                        exp = [[r[pos]] for r in table]
                    elif qtext.startswith('select NR'):
                        exp = [[i + 1, r[pos]] for i, r in enumerate(table)]
                    elif qtext.startswith('select * except'):
                        exp = [[v for j, v in enumerate(r) if j != pos] for r in table]
                    else:
                        exp = [[('new' if j == pos else v) for j, v in enumerate(r)] for r in table]
                    if out != exp:
                        fails.append({'replay': 'none', 'key': 'name:%r:%s' % (name, qtext), 'query': q, 'names': names, 'expected': exp, 'observed': out})
                if len(fails) >= 5:
                    break
            if len(fails) >= 5:
                break
        if len(fails) >= 5:
            break
    # direct mode: the bare name denotes the column
    for names in (['alpha', 'beta_2'], ['x', 'Name', '_g']):
        for pos, name in enumerate(names):
            n += 1
            out = []
            table = [['v%d' % i for i in range(len(names))]]
            try:
                eng.query_table('select %s' % name, table, out, [], None, names, None, None, normalize_column_names=False)
                ok = out == [[table[0][pos]]]
            except Exception as e:
                ok, out = False, repr(e)
            if not ok:
                fails.append({'replay': 'none', 'key': 'direct:%s' % name, 'expected': [[table[0][pos]]], 'observed': out})
    # CSV: the header line is never data, NR is 1 on the first data record; WITH overrides the flag for input AND join table
    tmp = tempfile.mkdtemp(prefix='rbql_verif_c09_')
    try:
        a_path, b_path, o_path = os.path.join(tmp, 'in_table'), os.path.join(tmp, 'jt_file'), os.path.join(tmp, 'out_table')
        open(a_path, 'w').write('id,val\n1,x\n2,y\n')
        open(b_path, 'w').write('id,name\n1,p\n2,q\n')
        for flag in (True, False):
            for modifier in (None, 'header', 'noheader'):
                eff = flag if modifier is None else (modifier == 'header')
                for q0 in ('select NR, a1, a2', 'select NR, a1, b2 join jt_file on a1 == b1', 'select a1, bNR join jt_file on a1 == b1'):
                    n += 1
                    q = q0 + (' with (%s)' % modifier if modifier else '')
                    ws = []
                    try:
                        rbql_csv.query_csv(q, a_path, ',', 'quoted', o_path, ',', 'quoted', 'utf-8', ws, flag)
                        lines = open(o_path).read().strip('\n').split('\n')
                    except Exception as e:
                        lines = ['%s: %s' % (type(e).__name__, e)]
                    arows = [['1', 'x'], ['2', 'y']] if eff else [['id', 'val'], ['1', 'x'], ['2', 'y']]
                    brows = [['1', 'p'], ['2', 'q']] if eff else [['id', 'name'], ['1', 'p'], ['2', 'q']]
                    if 'join' not in q0:
                        exp = [[str(i + 1), r[0], r[1]] for i, r in enumerate(arows)]
                        hdr = ['NR', 'id', 'val'] if eff else None
                    elif 'bNR' in q0:
                        exp = [[r[0], str(j + 1)] for r in arows for j, b in enumerate(brows) if b[0] == r[0]]
                        hdr = ['id', 'bNR'] if eff else None
                    else:
                        exp = [[str(i + 1), r[0], b[1]] for i, r in enumerate(arows) for b in brows if b[0] == r[0]]
                        hdr = ['NR', 'id', 'name'] if eff else None
                    exp_lines = ([','.join(hdr)] if hdr else []) + [','.join(r) for r in exp]
                    if lines != exp_lines:
                        fails.append({'replay': 'none', 'key': 'csvhdr:%s:%s:%s' % (flag, modifier, q0.split()[1 if 'NR,' in q0 else 2][:6] + ('j' if 'join' in q0 else '')), 'query': q, 'caller_flag': flag, 'expected': exp_lines, 'observed': lines})
    finally:
        for f in os.listdir(tmp):
            os.unlink(os.path.join(tmp, f))
        os.rmdir(tmp)
    return {'job': 'column_name_variables', 'evaluations': n, 'distinct_nontrivial': n, 'exhaustive': False,
            'rule': 'seeded headers of 1-4 distinct names over 20 names (quotes, backslash, brackets, tab/newline/CR, non-ASCII, punctuation) x every column position x both quote styles (+ a.name for identifiers) x 4 query shapes; direct mode; CSV header/NR with caller flag x WITH modifier x join',
            'failures': fails, 'samples': ['select a["quo\\"te"]']}


HOSTILE_IDS = ['t1; drop table x', 't1;drop table x;--', 't1 x', 't1--', 't1"', "t1'", 't1)', 't1,x', 't1 union select * from x', 'x y', 't1/*', 't1\t', 't1.x',
               'main.t1', '[t1]', 't1;', ';t1', 't1 ', ' t1', 't1 where 1', 't1+x', '(select 1)', 't1\x00', 'tä', 't1;drop', 'x;delete from t1', 'x--', 'x;']


def _sqlite_db(tmp):
    import sqlite3
    p = os.path.join(tmp, 'db.sqlite')
    conn = sqlite3.connect(p)
    conn.execute('create table t1 (k text, v text)')
    conn.execute('create table x (k text, w text)')
    conn.executemany('insert into t1 values (?, ?)', [('a', '1'), ('b', '2')])
    conn.executemany('insert into x values (?, ?)', [('a', 'p'), ('c', 'q')])
    conn.commit()
    return conn


def _sqlite_dump(conn):
    return [(n, conn.execute('select * from "%s"' % n).fetchall()) for (n,) in conn.execute("select name from sqlite_master where type='table' order by name").fetchall()]


def _sqlite_case(name, via):
    """-> (statements sent to sqlite that are not made of an identifier of letters/digits/underscore, outcome, db unchanged?)"""
    import re as _re
    rbql, eng = load_rbql()
    from rbql import rbql_sqlite
    tmp = tempfile.mkdtemp(prefix='rbql_verif_c06_')
    try:
        conn = _sqlite_db(tmp)
        before = _sqlite_dump(conn)
        sent = []
        conn.set_trace_callback(sent.append)
        outcome = 'ok'
        try:
            if via == 'iterator':
                rbql_sqlite.SqliteRecordIterator(conn, name)
            else:
                it = rbql_sqlite.SqliteRecordIterator(conn, 't1')
                out = []
                eng.query('select a1, b2 join %s on a1 == b1' % name, it, eng.TableWriter(out), [], rbql_sqlite.SqliteDbRegistry(conn))
        except Exception as e:
            outcome = type(e).__name__
        conn.set_trace_callback(None)
        bad = [s for s in sent if not _re.match(r'\ASELECT \* FROM [a-zA-Z0-9_]*;\Z', s)]
        after = _sqlite_dump(conn)
        conn.close()
        return bad, outcome, before == after
    finally:
        for f in os.listdir(tmp):
            os.unlink(os.path.join(tmp, f))
        os.rmdir(tmp)


@job('C06')
def sqlite_identifiers(prop, tier, seed):
    fails = []
    n = 0
    for name in HOSTILE_IDS + ['t1', 'x', 'T_1', 'nosuch']:
        for via in ('iterator', 'query'):
            if via == 'query' and (name != name.strip() or '\x00' in name or '\t' in name):
                continue        # the query text cannot carry these (cleanup_query / clause splitting), only the API can
            n += 1
            bad, outcome, same = _sqlite_case(name, via)
            if bad or not same:
                fails.append({'replay': 'sqlite_id', 'key': 'sqlite-id:%s:%r' % (via, name), 'name': name, 'via': via,
                              'expected': 'only SELECT * FROM <letters/digits/underscore>; reaches sqlite; database unchanged', 'observed': {'sent': bad, 'outcome': outcome, 'db_unchanged': same}})
    return {'job': 'sqlite_identifiers', 'evaluations': n, 'distinct_nontrivial': n, 'exhaustive': False,
            'rule': '%d hostile table identifiers (statement separators, comments, quotes, spaces, unions, dots, brackets, NUL, non-ASCII) + 4 benign ones, through SqliteRecordIterator directly and through the JOIN clause of a query with SqliteDbRegistry; sqlite3 trace callback records every statement sent; database dumped before/after' % len(HOSTILE_IDS),
            'failures': fails, 'samples': HOSTILE_IDS[:3]}


def replay_sqlite_id(case):
    bad, outcome, same = _sqlite_case(case['name'], case['via'])
    return {'fails': bool(bad) or not same, 'name': case['name'], 'expected': case.get('expected'), 'observed': {'sent': bad, 'outcome': outcome, 'db_unchanged': same}}
