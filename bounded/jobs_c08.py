"""BOUNDED jobs for C08: query meaning is invariant under spelling; string literals are opaque.

Two stand-ins for the regex driven query text processing (cleanup_query, separate_string_literals,
separate_actions, locate_statements, parse_join_expression, remove_redundant_input_table_name, find_top ...):

  spelling_metamorphism   a query is kept as a list of atoms (keywords / opaque literals / expression words); eleven
                          meaning-preserving respellings are applied in compositions; the respelled text must give the
                          same table + header + warnings as the canonical text through rbql.query_table.
  literal_opacity         literal contents composed from an alphabet of every RBQL keyword and metacharacter, in both quote
                          styles, put into 13 query templates; the expected output is computed here from the literal's
                          VALUE (ast.literal_eval of the rendered literal), header/warnings must equal those of the same
                          template with a neutral literal.

Genuine violations found on the pinned tree are reported under their own stable keys (ISOLATED_KEYS) and are kept out of the
general enumeration so that they cannot mask anything else:
  spell:case=mixed:AS            `select a1 As x` -> SyntaxError (the alias regex accepts only AS|as)
  spell:swap:NR                  `join b on b1 == NR` -> RbqlParsingError while `NR == b1` works (sides are only swapped for a-variables)
  lit:attrvar-unknown-column     `select 'a.zz'` with column names given -> RbqlParsingError (attribute variables are searched inside literals)
replay functions: replay_c08spell, replay_c08lit (registry.replay_case must list this module to find them).

The expectations come from the property statement only (same result for every spelling; the literal reaches the output
verbatim and nothing inside it is parsed)."""
import ast
import itertools
import random
import re
import time

from .registry import job
from .refsem import load_rbql


class Lit(str):
    """a rendered string literal: opaque for every respelling"""


# ----------------------------------------------------------------------------------------------------------------------
# tables

TABLES = {
    'A1': [['1', 'x', 'p'], ['2', 'y', 'q'], ['3', 'x', 'r'], ['10', 'z', 'p'], ['2', 'y', 'q']],
    'A2': [['1', 'x', 'p'], ['2', 'y', 'q'], ['3', 'x', 'r'], ['7', 'w'], ['10', 'z', 'p']],          # ragged -> warning
    'B1': [['1', 'x', 'bb'], ['3', 'q', 'cc'], ['3', 'x', 'dd'], ['5', 'y', 'ee'], ['2', 'y', 'ff']],
    'B3': [[1, 'x', 'n1'], [3, 'q', 'n3'], [3, 'x', 'm3'], [4, 'y', 'n4'], [9, 'y', 'n9']],              # integer keys, for NR == b1
    'B4': [['110', 'x', 'w1'], ['310', 'q', 'w3'], ['310', 'x', 'v3']],
    'B2': [['1', 'x', 's1'], ['2', 'y', 's2'], ['3', 'x', 's3'], ['10', 'z', 's4'], ['7', 'w', 's5']],  # unique keys covering A
}
TABLES['A3'] = [[str(100 * r + c) for c in range(1, 13)] for r in range(1, 5)]      # 12 columns: two-digit variables a10, a[12]
HA = ['id', 'x', 'nm']
HA3 = ['c%d' % c for c in range(1, 13)]
HB = ['bid', 'bx', 'bnm']


def run_q(eng, text, A, B, ha, hb):
    out, warns, oh = [], [], []
    try:
        eng.query_table(text, [list(r) for r in A], out, warns, [list(r) for r in B], ha, hb, oh)
    except Exception as e:      # noqa: any failure of the query is an observable
        return {'error': type(e).__name__, 'msg': str(e)[:160]}
    return {'out': out, 'warnings': warns, 'header': oh}


def same(r1, r2):
    if 'error' in r1 or 'error' in r2:
        return r1.get('error') == r2.get('error')       # wording is not part of the property
    return repr((r1['out'], r1['warnings'], r1['header'])) == repr((r2['out'], r2['warnings'], r2['header']))


# ----------------------------------------------------------------------------------------------------------------------
# query model

_TOK = re.compile(r"""'[^']*'|"[^"]*"|\S+""")


def X(s):
    """expression text -> atoms; a token starting with a quote is an opaque literal"""
    if s is None:
        return None
    if isinstance(s, list):
        return s
    return [Lit(t) if t[0] in '\'"' else t for t in _TOK.findall(s)]


def S(items, top=None, distinct='', exc=None, join=None, where=None, group=None, order=None, from_a=False, A='A1', B='B1'):
    its = []
    for it in items:
        if isinstance(it, tuple):
            its.append((X(it[0]), it[1]))
        elif isinstance(it, list):
            its.append((it, None))
        elif ' as ' in it:
            e, al = it.rsplit(' as ', 1)
            its.append((X(e), al))
        else:
            its.append((X(it), None))
    return {'kind': 'select', 'items': its, 'top': top, 'distinct': distinct, 'exc': exc, 'join': join, 'where': X(where),
            'group': X(group), 'order': (X(order[0]), order[1]) if order else None, 'from_a': from_a, 'A': A, 'B': B}


def U(updates, join=None, where=None, from_a=False, A='A1', B='B2'):
    return {'kind': 'update', 'updates': [(v, X(e)) for v, e in updates], 'join': join, 'where': X(where), 'from_a': from_a,
            'A': A, 'B': B, 'top': None}


def J(kind, *pairs, **kw):
    """join spec; a pair is 'a1==b1' style text: lhs, op, rhs, tight(no spaces)"""
    ps = []
    for p in pairs:
        m = re.match(r'^(\S+?)( ?)(==?)( ?)(\S+)$', p)
        ps.append([m.group(1), m.group(5), m.group(3), m.group(2) == ''])
    return (kind, ps)


TRANSFORMS = ['case', 'order', 'ws', 'comments', 'semi', 'brackets', 'toplimit', 'joinsyn', 'eq', 'swap', 'from_a']
NR_KEYS = ('NR', 'aNR', 'a.NR', 'bNR', 'b.NR')
JOIN_SYN = {'join': 'inner join', 'inner join': 'join', 'left join': 'left outer join', 'left outer join': 'left join'}
WS = ['  ', '\t', ' \t', '\n', ' \n ', '\r\n', '     ', '\t\t', ' ']
EDGE_WS = ['', ' ', '\t', '\n', '  \n', ' \r\n']
COMMENTS = ['', ' comment', " select * where a1 == 'x", ' "unbalanced', '# ## ;', ' a1, b[2] from a;', '\tjoin b on a1 == b1 limit 1',
            " it's", ' order by a2 desc;']
_VAR = re.compile(r'(?<![_a-zA-Z0-9.\'"])([ab])([1-9][0-9]*)(?![_a-zA-Z0-9\[\'"])')


def mixed_case(word, rnd):
    if len(word) < 2:
        return word.upper() if rnd.random() < 0.5 else word
    while True:
        w = ''.join(c.upper() if rnd.random() < 0.5 else c.lower() for c in word)
        if w != word.lower() and w != word.upper():
            return w


def emit(q, sp):
    """-> list of [text, kind, glued_to_previous]; kind in kw / lit / x / p"""
    out = []

    def kw(words):
        for w in words.split():
            out.append([w, 'kw', False])

    def ex(expr):
        for t in expr:
            out.append([t, 'lit' if isinstance(t, Lit) else 'x', False])

    def comma():
        out.append([',', 'p', True])

    top = q.get('top')
    if top and sp.get('toplimit'):
        top = ({'top': 'limit', 'limit': 'top'}[top[0]], top[1])
    from_a = bool(q.get('from_a')) != bool(sp.get('from_a'))
    clauses = {}
    if q['kind'] == 'select':
        kw('select')
        if top and top[0] == 'top':
            kw('top')
            out.append([str(top[1]), 'x', False])
        if q['distinct']:
            kw(q['distinct'])
        if q['exc'] is not None:
            out.append(['*', 'x', False])
            c = [['except', 'kw', False]]
            for i, v in enumerate(q['exc']):
                if i:
                    c.append([',', 'p', True])
                c.append([v, 'x', False])
            clauses['except'] = c
        else:
            for i, (e, al) in enumerate(q['items']):
                if i:
                    comma()
                ex(e)
                if al is not None:
                    out.append(['as', 'kw-as', False])
                    out.append([al, 'alias', False])
        if from_a:
            clauses['from'] = [['from', 'kw', False], ['a', 'alias', False]]
    else:
        kw('update')
        if from_a:
            out.append(['a', 'alias', False])
            kw('set')
        for i, (v, e) in enumerate(q['updates']):
            if i:
                comma()
            out.append([v, 'x', False])
            out.append(['=', 'p', False])
            ex(e)
    if q.get('join'):
        kind, pairs = q['join']
        if sp.get('joinsyn'):
            kind = JOIN_SYN.get(kind, kind)
        c = [[w, 'kw', False] for w in kind.split()] + [['b', 'alias', False], ['on', 'kw', False]]
        for i, (l, r, op, tight) in enumerate(pairs):
            if i:
                c.append(['and', 'kw', False])
            if sp.get('swap') and l not in NR_KEYS and r not in NR_KEYS:     # swapped record-number keys: own check (NR_SWAP)
                l, r = r, l
            if sp.get('eq'):
                op = '=' if op == '==' else '=='
            c += [[l, 'x', False], [op, 'p', tight], [r, 'x', tight]]
        clauses['join'] = c
    if q.get('where') is not None:
        clauses['where'] = [['where', 'kw', False]] + [[t, 'lit' if isinstance(t, Lit) else 'x', False] for t in q['where']]
    if q.get('group') is not None:
        clauses['group'] = [['group', 'kw', False], ['by', 'kw', False]] + [[t, 'lit' if isinstance(t, Lit) else 'x', False] for t in q['group']]
    if q.get('order') is not None:
        e, d = q['order']
        clauses['order'] = [['order', 'kw', False], ['by', 'kw', False]] + [[t, 'lit' if isinstance(t, Lit) else 'x', False] for t in e]
        if d:
            clauses['order'].append([d, 'kw', False])
    if top and top[0] == 'limit':
        clauses['limit'] = [['limit', 'kw', False], [str(top[1]), 'x', False]]
    names = [n for n in ('except', 'from', 'join', 'where', 'group', 'order', 'limit') if n in clauses]
    perm = sp.get('order')
    if perm is not None:
        if isinstance(perm, (list, tuple)):
            names = [n for n in perm if n in clauses]
        else:
            r = random.Random(perm)
            orig = list(names)
            for _ in range(8):
                r.shuffle(names)
                if names != orig:
                    break
    for n in names:
        out += clauses[n]
    return out, names


def render(q, sp):
    atoms, _ = emit(q, sp)
    # aN -> a[N]
    br = sp.get('brackets')
    if br is not None:
        r = random.Random(br) if br != 'all' else None
        for a in atoms:
            if a[1] == 'x':
                a[0] = _VAR.sub(lambda m: ('%s[%s]' % (m.group(1), m.group(2))) if (r is None or r.random() < 0.5) else m.group(0), a[0])
    # keyword case
    case = sp.get('case')
    if case:
        mode, cseed = case
        r = random.Random(cseed)
        for a in atoms:
            if a[1] == 'kw':
                a[0] = a[0].upper() if mode == 'upper' else mixed_case(a[0], r)
            elif a[1] == 'kw-as':
                # mixed-case AS has its own check (as_keyword_case); here AS is respelled in uniform case only
                a[0] = 'AS' if (mode == 'upper' or r.random() < 0.5) else 'as'
    # separators
    ws = sp.get('ws')
    rw = random.Random(ws) if ws is not None else None
    cm = sp.get('comments')
    rc = random.Random(cm) if cm is not None else None
    gaps = [i for i in range(1, len(atoms)) if not atoms[i][2]]
    cpos = set()
    if rc is not None:
        k = rc.randint(1, 3)
        cpos = set(rc.sample(gaps + ['begin', 'end'], min(k, len(gaps) + 2)))

    def comment():
        return (rc.choice(['', ' ', '\t', '   ']) + '#' + rc.choice(COMMENTS))

    parts = []
    if 'begin' in cpos:
        parts.append(comment() + '\n')
        if rc.random() < 0.3:
            parts.append(comment() + '\n')
    if rw is not None:
        parts.append(rw.choice(EDGE_WS))
    for i, a in enumerate(atoms):
        if i:
            if a[2]:
                sep = ''
            else:
                sep = rw.choice(WS) if rw is not None else ' '
                if i in cpos:
                    sep = sep + '\n' + comment() + '\n' + (rw.choice(EDGE_WS) if rw is not None else '')
            parts.append(sep)
        parts.append(a[0])
    semi = sp.get('semi')
    tail = ''
    if rw is not None:
        tail += rw.choice(EDGE_WS)
    if 'end' in cpos:
        tail += '\n' + comment() + ('\n' if rc.random() < 0.5 else '')
    if semi is not None:
        r = random.Random(semi)
        mode = r.choice(['tight', 'tight', 'after']) if tail else 'tight'
        if mode == 'tight':
            parts.append(';' + tail)
        else:
            parts.append(tail + (';' if tail.endswith('\n') or not tail.strip() else '\n;'))
    else:
        parts.append(tail)
    return ''.join(parts)


def make_spelling(active, rnd):
    """active: iterable of transform names -> spelling dict with seeded variants"""
    sp = {}
    for n in active:
        if n == 'case':
            sp['case'] = (rnd.choice(['upper', 'mixed']), rnd.randrange(10 ** 6))
        elif n in ('order', 'ws', 'comments', 'semi'):
            sp[n] = rnd.randrange(10 ** 6)
        elif n == 'brackets':
            sp[n] = rnd.choice(['all', rnd.randrange(10 ** 6)])
        else:
            sp[n] = True
    return sp


def single_variants(name, rnd):
    if name == 'case':
        return [{'case': ('upper', 0)}, {'case': ('mixed', rnd.randrange(10 ** 6))}, {'case': ('mixed', rnd.randrange(10 ** 6))}]
    if name in ('ws', 'order'):
        return [{name: rnd.randrange(10 ** 6)} for _ in range(3)]
    if name == 'comments':
        return [{name: rnd.randrange(10 ** 6)} for _ in range(2)]
    if name == 'semi':
        return [{name: 1}]
    if name == 'brackets':
        return [{name: 'all'}, {name: rnd.randrange(10 ** 6)}]
    return [{name: True}]


# ----------------------------------------------------------------------------------------------------------------------
# base queries

def curated_bases():
    lj, loj, ij, jn, slj = 'left join', 'left outer join', 'inner join', 'join', 'strict left join'
    return [
        S(['a1']),
        S(['*']),
        S(['a1', 'a3'], where="a2 == 'x'", order=('a1', 'desc'), top=('top', 2)),
        S(['a1', 'a2'], where='int(a1) > 1', order=('int(a1)', None), top=('limit', 3)),
        S(['a1'], top=('top', 0)),
        S(['a2', 'a1'], top=('limit', 0), order=('a2', 'asc')),
        S(['a2'], distinct='distinct', top=('top', 1)),
        S(['a2'], distinct='distinct', top=('limit', 0)),
        S(['a2', 'a3'], distinct='distinct count', order=None),
        S(['a2'], distinct='distinct count', top=('limit', 2)),
        S(['NR', "a1 + '-' + a2 as k", 'a.*'], where="a3 != 'q'", from_a=True),
        S(['a1', 'b3'], join=J(jn, 'a1 == b1')),
        S(['a1', 'b3', 'b.*'], join=J(ij, 'a1==b1'), where="b3 != 'cc'", order=('b3', 'desc')),
        S(['a1', 'a2', 'b3'], join=J(lj, 'a1 == b1', 'a2 == b2'), top=('top', 4)),
        S(['a.*', 'b.*'], join=J(loj, 'a1 = b1'), where='b3 is None or b3 > "c"', top=('limit', 5)),
        S(['*'], join=J(slj, 'a1 == b1'), B='B2', A='A1', order=('b3', 'desc'), top=('top', 3)),
        S(['a1', 'b3'], join=J(slj, 'b1 == a1', 'b2 = a2'), B='B2', where="a2 != 'z'"),
        S(['a3', 'b1', 'bNR'], join=J(lj, 'NR == b1'), top=('top', 0), B='B3'),
        S(['NR', 'a1', 'b3'], join=J(jn, 'NR = b1'), where="b2 != 'q'", B='B3'),
        S(['a2', 'COUNT(*)', 'MAX(int(a1))'], group='a2'),
        S(['a2', 'a3', 'COUNT(*) as n'], group='a2, a3', where="a1 != '10'", top=('limit', 2)),
        S(['a2', 'SUM(int(a1))'], group='a2', top=('top', 0)),
        S(['COUNT(*)', 'MIN(int(a1))'], where="a2 != 'z'"),
        S(['a2', 'COUNT(*)', 'ARRAY_AGG(b3)'], join=J(jn, 'a1 == b1'), group='a2'),
        S([], exc=['a2']),
        S([], exc=['a3', 'a1'], where="a2 == 'y'", order=('a1', None), top=('limit', 1)),
        S(['a1', 'a3'], A='A2'),
        S(['*'], A='A2', where="a1 != '2'", top=('top', 4)),
        S([], exc=['a2'], A='A2', order=('a1', 'desc')),
        S(['a1', "a2 + ' where ' + a3 as w"], where="a2 != ' order by ' and a3 != \"limit 1;\"", order=("a3 + '#'", 'desc'), top=('top', 3)),
        S(["'select top 1'", 'a1', '"from a"'], where="a2 != 'from a'", from_a=True),
        S(['a1 if a2 == "x" else a3', 'len(a2) + int(a1)']),
        S(['a[1]', 'a2', 'b[3]'], join=J(jn, 'a[1] == b1'), where='b[2] == a2'),
        S(['a10', 'a12', 'a2', 'a1'], A='A3', where="a11 != '211'", order=('int(a10)', 'desc'), top=('top', 3)),
        U([('a12', 'a10 + a1'), ('a10', "'t'")], A='A3', where="a11 != '311'"),
        S(['a1', 'b3', 'a12'], A='A3', join=J('left join', 'a10 == b1'), B='B4'),
        U([('a1', "'z'")]),
        U([('a3', 'a2 + a1'), ('a2', 'int(a1) * 2')], where="a2 == 'x'"),
        U([('a2', "'a1 = 5, a3 = 7'")], where="a3 != '='", from_a=True),
        U([('a2', 'b3')], join=J(jn, 'a1 == b1'), B='B2'),
        U([('a2', 'b3'), ('a1', "'-'")], join=J(lj, 'a1 == b1', 'a2 == b2'), where="a3 != 'q'", B='B2'),
        U([('a3', 'b3')], join=J(slj, 'b1 = a1'), B='B2', A='A1'),
        U([('a1', "a1 + ';'")], A='A2', where="a1 != '7'"),
    ]


ITEMS = ['a1', 'a2', 'a3', 'NR', 'a1, a2', 'int(a1) * 2', "a2 + '-' + a3", 'len(a2)', "a1 + ' top 1 '", 'a1 as k', 'int(a1) + NR as s', 'a3 as third',
         '"lit"', "a2.upper()"]
STAR_ITEMS = ['*', 'a.*', '*, a1', 'a2, *']
JOIN_ITEMS = ['b1', 'b3', 'b2 as bb', 'b.*', "a1 + '/' + str(b3)", 'bNR']
WHERES = ["a2 == 'x'", 'int(a1) > 1', "a1 != '2' and a3 != 'r'", 'not a1.startswith("1")', "a2 in ('x', 'z')", 'int(a1) <= 3 or a3 == "p"', 'NR >= 2',
          "a2 != ' limit 1 '"]
JOIN_WHERES = ["b3 != 'cc'", 'b3 is not None', 'a2 == b2']
ORDERS = ['a1', 'a2', 'int(a1)', 'a3, a1', '(a2, -int(a1))', 'NR']
JOIN_KINDS = ['join', 'inner join', 'left join', 'left outer join', 'strict left join']
ON = [['a1 == b1'], ['a1 = b1'], ['b1 == a1'], ['a1==b1'], ['a1 == b1', 'a2 == b2'], ['a1 = b1', 'b2 == a2'], ['a2 == b2'], ['NR == b1']]
UPDS = [[('a1', "'z'")], [('a2', 'a2 + a3')], [('a3', "' set '"), ('a1', 'int(a1) + 1')], [('a2', 'a1 + "=" + a3')], [('a1', 'NR')]]
JOIN_UPDS = [[('a2', 'b3')], [('a3', 'b3'), ('a1', "b1 + '!'")]]


def gen_base(rnd):
    if rnd.random() < 0.2:
        join = None
        if rnd.random() < 0.4:
            join = J(rnd.choice(JOIN_KINDS), *rnd.choice(ON[:6]))
        ups = rnd.choice(JOIN_UPDS if (join and rnd.random() < 0.7) else UPDS)
        where = rnd.choice([None] + WHERES)
        return U(ups, join=join, where=where, from_a=rnd.random() < 0.2, B='B2')
    join = None
    B = 'B1'
    if rnd.random() < 0.45:
        kind = rnd.choice(JOIN_KINDS)
        on = rnd.choice(ON[:6] if kind == 'strict left join' else ON)
        join = J(kind, *on)
        if kind == 'strict left join':
            B = 'B2'
        elif on == ['NR == b1']:
            B = 'B3'
    top = rnd.choice([None, None, ('top', 0), ('limit', 0), ('top', 1), ('limit', 2), ('top', 3), ('limit', 4), ('top', 9)])
    shape = rnd.random()
    if shape < 0.15 and join is None:
        exc = rnd.choice([['a1'], ['a2'], ['a3', 'a1'], ['a2', 'a3']])
        return S([], exc=exc, where=rnd.choice([None] + WHERES), order=rnd.choice([None, (rnd.choice(ORDERS), rnd.choice([None, 'asc', 'desc']))]),
                 top=top, from_a=rnd.random() < 0.2)
    if shape < 0.3:
        items = rnd.choice([['a2', 'COUNT(*)'], ['a2', 'MAX(int(a1))', 'COUNT(*) as n'], ['a3', 'a2', 'SUM(int(a1))']])
        group = 'a3, a2' if 'a3' in items else 'a2'
        return S(items, join=join, B=B, where=rnd.choice([None] + WHERES), group=group, top=top, from_a=rnd.random() < 0.2)
    pool = ITEMS + (JOIN_ITEMS * 2 if join else [])
    items = rnd.sample(pool, rnd.randint(1, 3))
    if any(' as ' in i for i in items):     # star + alias is refused for tables without header: keep the two apart
        items = [i for i in items if '*' not in i] or ['a1']
    has_alias = any(' as ' in i for i in items)
    if not has_alias and rnd.random() < 0.25:
        items[rnd.randrange(len(items))] = rnd.choice(STAR_ITEMS)
    where = rnd.choice([None] + WHERES + (JOIN_WHERES if join else []))
    order = rnd.choice([None, None] + [(o, d) for o in ORDERS for d in (None, 'asc', 'desc')])
    distinct = rnd.choice(['', '', '', 'distinct', 'distinct count'])
    return S(items, top=top, distinct=distinct, join=join, B=B, where=where, order=order, from_a=rnd.random() < 0.2,
             A='A2' if (rnd.random() < 0.15 and not join and all('int(' not in i and '+' not in i and 'len(' not in i and '.upper' not in i for i in items)
                        and (where is None or 'a3' not in where) and order is None) else 'A1')


def applicable(q):
    base = render(q, {})
    ok = []
    for n in TRANSFORMS:
        sp = make_spelling([n], random.Random(5))
        if render(q, sp) != base:
            ok.append(n)
    return ok


def tables_of(q, hdr):
    return TABLES[q['A']], TABLES[q['B']], ((HA3 if q['A'] == 'A3' else HA) if hdr else None), (HB if hdr else None)


def spell_key(sp):
    names = sorted(sp)
    parts = []
    for n in names:
        if n == 'case':
            parts.append('case=' + sp[n][0])
        else:
            parts.append(n)
    return 'spell:' + '+'.join(parts)


class Budget(object):
    def __init__(self, seconds):
        self.t_end = time.time() + seconds

    def left(self):
        return time.time() < self.t_end


def check_spelling(eng, q, hdr, sp, base_res, fails, seen, stats):
    A, B, ha, hb = tables_of(q, hdr)
    text = render(q, sp)
    res = run_q(eng, text, A, B, ha, hb)
    stats['n'] += 1
    if same(base_res, res):
        return True
    # shrink to a minimal failing composition
    cur = dict(sp)
    for n in list(cur):
        if len(cur) == 1:
            break
        trial = dict(cur)
        del trial[n]
        t2 = render(q, trial)
        stats['n'] += 1
        if not same(base_res, run_q(eng, t2, A, B, ha, hb)):
            cur = trial
    text = render(q, cur)
    res = run_q(eng, text, A, B, ha, hb)
    key = spell_key(cur)
    if key not in seen:
        seen.add(key)
        fails.append({'replay': 'c08spell', 'key': key, 'original': render(q, {}), 'respelled': text, 'spelling': {k: (list(v) if isinstance(v, tuple) else v) for k, v in cur.items()},
                      'A': A, 'B': B, 'input_column_names': ha, 'join_column_names': hb,
                      'expected': base_res, 'observed': res})
    return False


def replay_c08spell(case):
    rbql, eng = load_rbql()
    r1 = run_q(eng, case['original'], case['A'], case['B'], case['input_column_names'], case['join_column_names'])
    r2 = run_q(eng, case['respelled'], case['A'], case['B'], case['input_column_names'], case['join_column_names'])
    return {'fails': not same(r1, r2), 'original': case['original'], 'respelled': case['respelled'], 'expected': r1, 'observed': r2}


NR_SWAP = [('select a1, b3 join b on NR == b1', 'select a1, b3 join b on b1 == NR'), ('select a1, b3 left join b on aNR == b1', 'select a1, b3 left join b on b1 == aNR'),
           ('select a1, b3 join b on a1 == bNR', 'select a1, b3 join b on bNR == a1')]
# genuine, individually keyed findings are kept out of the "stop after 5 failures" count so that they cannot starve the search
ISOLATED_KEYS = ('spell:case=mixed:AS', 'spell:swap:NR', 'spell:swap:bNR', 'lit:attrvar-unknown-column')


def n_open(fails):
    return len([f for f in fails if f['key'] not in ISOLATED_KEYS])


AS_QUERIES = [('select a1 %s x', ['As', 'aS']), ('select a2 %s first, a1 + a3 %s second where a1 != "2"', ['As', 'aS']),
              ('select a1, b3 %s z join b on a1 == b1', ['aS'])]


@job('C08')
def spelling_metamorphism(prop, tier, seed):
    rbql, eng = load_rbql()
    rnd = random.Random(seed * 7919 + 11)
    quick = tier == 'quick'
    budget = Budget(11 if quick else 120)
    bases = curated_bases() + [gen_base(rnd) for _ in range(50 if quick else 90)]
    fails, seen = [], set()
    stats = {'n': 0}
    nontrivial = 0
    base_errors = 0
    samples = []
    exhaustive_subsets = 0
    truncated = False
    for bi, q in enumerate(bases):
        if n_open(fails) >= 5:
            break
        app = applicable(q)
        for hdr in (False, True):
            if n_open(fails) >= 5:
                break
            A, B, ha, hb = tables_of(q, hdr)
            base_text = render(q, {})
            base_res = run_q(eng, base_text, A, B, ha, hb)
            stats['n'] += 1
            if 'error' in base_res:
                base_errors += 1
            else:
                nontrivial += 1
            if bi in (2, 13, 36) and not hdr:
                samples.append(base_text)
            # singles with every variant
            for n in app:
                for sp in single_variants(n, rnd):
                    check_spelling(eng, q, hdr, sp, base_res, fails, seen, stats)
            if bi == 13 and not hdr:
                samples.append(render(q, make_spelling(app, random.Random(seed))))
            # all orders of the clauses (alone, and thorough: combined with a random rest)
            _, names = emit(q, {})
            perms = list(itertools.permutations(names))
            if len(perms) > 1:
                if quick and len(perms) > 24:
                    perms = rnd.sample(perms, 24)
                for p in perms[1:] if perms[0] == tuple(names) else perms:
                    check_spelling(eng, q, hdr, {'order': list(p)}, base_res, fails, seen, stats)
            # compositions
            if quick:
                combos = list(itertools.combinations(app, 2))
                if hdr:         # the header context takes the pairs' complements: triples sampled, plus everything at once
                    combos = [tuple(rnd.sample(app, 3)) for _ in range(6)] if len(app) >= 3 else []
                    combos.append(tuple(app))
            else:
                if hdr:
                    combos = [tuple(rnd.sample(app, rnd.randint(2, len(app)))) for _ in range(60)] if len(app) >= 2 else []
                    combos.append(tuple(app))
                else:
                    combos = [c for k in range(2, len(app) + 1) for c in itertools.combinations(app, k)]
                    exhaustive_subsets += 1
            for c in combos:
                if not budget.left():
                    truncated = True
                    break
                if n_open(fails) >= 5:
                    break
                check_spelling(eng, q, hdr, make_spelling(c, rnd), base_res, fails, seen, stats)
        if not budget.left():
            truncated = True
    # mixed-case AS (kept apart so that its outcome cannot mask the compositions above)
    for tmpl, forms in AS_QUERIES:
        for f in forms:
            for hdr in (False, True):
                A, B, ha, hb = TABLES['A1'], TABLES['B1'], (HA if hdr else None), (HB if hdr else None)
                r1 = run_q(eng, tmpl.replace('%s', 'as'), A, B, ha, hb)
                r2 = run_q(eng, tmpl.replace('%s', f), A, B, ha, hb)
                stats['n'] += 2
                if not same(r1, r2) and 'spell:case=mixed:AS' not in seen:
                    seen.add('spell:case=mixed:AS')
                    fails.append({'replay': 'c08spell', 'key': 'spell:case=mixed:AS', 'original': tmpl.replace('%s', 'as'), 'respelled': tmpl.replace('%s', f),
                                  'A': A, 'B': B, 'input_column_names': ha, 'join_column_names': hb, 'expected': r1, 'observed': r2})
    for q1, q2 in NR_SWAP:
        for hdr in (False, True):
            A, B, ha, hb = TABLES['A1'], TABLES['B3'], (HA if hdr else None), (HB if hdr else None)
            r1, r2 = run_q(eng, q1, A, B, ha, hb), run_q(eng, q2, A, B, ha, hb)
            stats['n'] += 2
            key = 'spell:swap:' + ('bNR' if 'bNR' in q1 else 'NR')
            if not same(r1, r2) and key not in seen:
                seen.add(key)
                fails.append({'replay': 'c08spell', 'key': key, 'original': q1, 'respelled': q2, 'A': A, 'B': B, 'input_column_names': ha, 'join_column_names': hb,
                              'expected': r1, 'observed': r2})
    return {'job': 'spelling_metamorphism', 'evaluations': stats['n'], 'distinct_nontrivial': nontrivial, 'exhaustive': False,
            'rule': ('%d base queries (43 curated + seeded generated: select with top/limit incl. 0, distinct, distinct count, where, order by asc/desc, group by + aggregates, '
                     'except, 5 join spellings with 1-2 ON keys incl. NR, update with/without join; one ragged table) x {no header, header}: canonical spelling vs respellings by '
                     '11 transforms (keyword case upper/mixed, clause order, extra spaces/tabs/LF/CRLF, comment lines, trailing semicolon, aN->a[N], TOP<->LIMIT, JOIN<->INNER JOIN and '
                     'LEFT<->LEFT OUTER, ==<->= in ON, swapped ON sides, redundant FROM a / UPDATE a SET): every single transform with 1-3 seeded variants, every clause permutation%s, %s; '
                     'plus mixed-case AS and swapped NR/bNR join keys (own keys); table+header+warnings (or exception class) must be identical%s') % (
                         len(bases), ' (<=24 sampled if more)' if quick else '',
                         'all pairs (no header) and sampled triples + all-at-once (header)' if quick else 'ALL subsets of the applicable transforms (no header; %d bases completed) and 60 sampled subsets + all-at-once (header)' % exhaustive_subsets,
                         '; time budget cut the composition loop short' if truncated else ''),
            'failures': fails, 'samples': samples,
            'assumptions': ['the canonical (lower-case, select-join-where-group-order-limit) spelling is taken as the reference side of the relation',
                            'extra whitespace is only inserted where the canonical text already has a separator (and at both ends); comment lines only on their own line',
                            '%d base queries raise in the canonical spelling (then only the exception class is compared)' % base_errors]}


# ----------------------------------------------------------------------------------------------------------------------
# literal opacity

KEYWORDS = ['select', 'update', 'set', 'top', 'distinct', 'count', 'from', 'join', 'inner join', 'left join', 'left outer join', 'strict left join', 'on', 'and',
            'where', 'group by', 'order by', 'asc', 'desc', 'limit', 'except', 'as', 'with', 'with (header)', 'with (noheader)', 'like', 'unnest', 'from a', 'update a set']
META = ['*', 'a.*', 'b.*', 'a1', 'a2', 'b1', 'b2', 'a[1]', 'b[2]', 'a.x', 'a.id', 'b.bx', 'NR', 'aNR', 'bNR', '=', '==', '!=', '#', ',', ';', '(', ')', '[', ']', '{', '}', '{}', '%s',
        '\t', ' ', '  ', 'COUNT(*)', 'top 1', 'limit 1', 'as x', ', a2 = 5', ' on a1 == b1', '%', '_', '--', '/*', ':', '.', 'é', '中', 'zq', '']
# attribute-looking text naming a column that does not exist (reported under one key, see literal_opacity)
ATTR_UNKNOWN = ['a.zz', 'b.zz', 'a.NR']
SPECIAL = [('sq',), ('dq',), ('bs',), ('esc', 't'), ('esc', 'n')]


def alphabet():
    al = [('raw', k) for k in KEYWORDS] + [('raw', k.upper()) for k in KEYWORDS if k not in ('with (header)', 'with (noheader)')]
    al += [('raw', m) for m in META]
    al += SPECIAL
    return al


CURATED_CONTENTS = [
    [('raw', 'C:'), ('bs',), ('raw', 'tmp'), ('bs',)],
    [('bs',), ('bs',)],
    [('bs',), ('sq',)],
    [('bs',), ('dq',)],
    [('sq',), ('sq',)],
    [('dq',), ('dq',)],
    [('sq',), ('raw', ' where a1 == '), ('sq',)],
    [('raw', 'a['), ('dq',), ('raw', 'x'), ('dq',), ('raw', ']')],
    [('raw', 'a['), ('sq',), ('raw', 'nm'), ('sq',), ('raw', ']')],
    [('raw', 'select top 1 * from a where a1 == b1 order by a2 desc limit 1;')],
    [('raw', ' join b on a1 == b1 ')],
    [('raw', '# comment')],
    [('raw', '#')],
    [('raw', 'l'), ('raw', '\t'), ('raw', 'r')],
    [('raw', ';')],
    [('raw', ';;')],
    [('raw', 'x;')],
    [('raw', ' ; ')],
    [('raw', 'a1 = 5, a2 = 7')],
    [('raw', ' desc')],
    [('raw', ' asc')],
    [('raw', 'top 5 ')],
    [('raw', 'distinct count ')],
    [('raw', '* except a1')],
    [('raw', ' as alias')],
    [('raw', 'x'), ('esc', 't'), ('raw', 'y'), ('bs',)],
]


def lit_value(atoms, q):
    v = ''
    for a in atoms:
        if a[0] == 'raw':
            v += a[1]
        elif a[0] == 'sq':
            v += "'"
        elif a[0] == 'dq':
            v += '"'
        elif a[0] == 'bs':
            v += '\\'
        else:
            v += {'t': '\t', 'n': '\n'}[a[1]]
    return v


def lit_render(atoms, q):
    s = ''
    for a in atoms:
        if a[0] == 'raw':
            s += a[1]
        elif a[0] in ('sq', 'dq'):
            c = "'" if a[0] == 'sq' else '"'
            s += ('\\' + c) if c == q else c
        elif a[0] == 'bs':
            s += '\\\\'
        else:
            s += '\\' + a[1]
    return Lit(q + s + q)


def atom_name(a):
    if a[0] == 'raw':
        return {'\t': 'TAB', ' ': 'SP', '  ': 'SP2', '': 'EMPTY'}.get(a[1], a[1])
    return {'sq': 'SQUOTE', 'dq': 'DQUOTE', 'bs': 'BACKSLASH', 'esc': 'ESC'}[a[0]] + (a[1] if a[0] == 'esc' else '')


LA = [['1', None, 'p'], ['2', 'y', 'q'], ['3', None, 'r'], ['4', 'z', None]]     # None -> V (col 2) / V2 (col 3)
LB = [['1', 'k', 'bb'], ['3', 'k', None], ['3', 'k', 'dd'], ['5', 'k', 'ee']]      # None -> V

TEMPLATE_NAMES = ['sel', 'sel_where', 'upd', 'upd2', 'alias_order', 'group', 'join', 'two', 'distinct', 'except', 'top', 'eq', 'order_key']


def build_template(name, L, Lalt, L2, V, V2):
    """-> (query spec, expected output rows, compare as multiset?)"""
    A = [[V if (c is None and j == 1) else (V2 if c is None else c) for j, c in enumerate(r)] for r in LA]
    B = [[V if c is None else c for c in r] for r in LB]
    ms = False
    if name == 'sel':
        q = S([[L]])
        exp = [[V] for _ in A]
    elif name == 'sel_where':
        q = S(['a1', [Lalt]], where=['a2', '!=', L])
        exp = [[r[0], V] for r in A if r[1] != V]
    elif name == 'upd':
        q = U([('a1', [L])])
        exp = [[V, r[1], r[2]] for r in A]
    elif name == 'upd2':
        q = U([('a3', [L]), ('a1', [L2])], where=['a2', '==', Lalt])
        exp = [([V2, r[1], V] if r[1] == V else list(r)) for r in A]
    elif name == 'alias_order':
        q = S([(['a1', '+', L], 'x')], order=([L], None), top=('limit', 2))
        exp = [[r[0] + V] for r in A][:2]
    elif name == 'group':
        q = S([[L], 'COUNT(*)'], group=[L])
        exp = [[V, len(A)]]
    elif name == 'join':
        q = S(['a1', 'b3', [L]], join=J('join', 'a1 == b1'), where=['b3', '!=', Lalt])
        exp = [[r[0], b[2], V] for r in A for b in B if b[0] == r[0] and b[2] != V]
    elif name == 'two':
        q = S([[L], 'a1', [L2]], where=['a3', '!=', L2], order=('int(a1)', 'desc'))
        exp = [[V, r[0], V2] for r in reversed(A) if r[2] != V2]
    elif name == 'distinct':
        q = S([[L], 'a2'], distinct='distinct')
        exp, ms = [], True
        for r in A:
            if [V, r[1]] not in exp:
                exp.append([V, r[1]])
    elif name == 'except':
        q = S([], exc=['a2'], where=['a2', '!=', L])
        exp = [[r[0], r[2]] for r in A if r[1] != V]
    elif name == 'top':
        q = S([[L], 'NR'], top=('top', 1), where=['a2', '==', L])
        exp = [[V, 1]]
    elif name == 'eq':
        q = S(['a1', ['len(', L, ')']], where=[L, '==', Lalt, 'and', L, '!=', L2])
        exp = [[r[0], len(V)] for r in A] if V != V2 else []
    elif name == 'order_key':
        q = S(['a1'], order=(['(a2', '==', L, ')', '*', '100', '+', 'int(a1)'], None))
        exp = [[r[0]] for r in sorted(A, key=lambda r: (r[1] == V) * 100 + int(r[0]))]
    q['A'], q['B'] = A, B
    return q, exp, ms


_ATTR = re.compile(r'(?:^|[^_a-zA-Z0-9])([ab])\.([_a-zA-Z][_a-zA-Z0-9]*)')


def attr_unknown(v):
    for m in _ATTR.finditer(v):
        if m.group(2) not in (HA if m.group(1) == 'a' else HB):
            return True
    return False


def lit_case(eng, name, atoms, atoms2, qmode, hdr, sp, neutral_cache):
    """run one literal case; -> (ok, record)"""
    q1, same_style = qmode
    qo = '"' if q1 == "'" else "'"
    q2 = q1 if same_style else qo
    L, Lalt, L2 = lit_render(atoms, q1), lit_render(atoms, qo), lit_render(atoms2, q2)
    V, V2 = lit_value(atoms, q1), lit_value(atoms2, q2)
    assert ast.literal_eval(L) == V and ast.literal_eval(Lalt) == V and ast.literal_eval(L2) == V2, (L, V)
    q, exp, ms = build_template(name, L, Lalt, L2, V, V2)
    ha, hb = (HA, HB) if hdr else (None, None)
    text = render(q, sp)
    res = run_q(eng, text, q['A'], q['B'], ha, hb)
    ck = (name, hdr)
    if ck not in neutral_cache:
        nq, _, _ = build_template(name, Lit("'zq'"), Lit('"zq"'), Lit("'qz'"), 'zq', 'qz')
        neutral_cache[ck] = (render(nq, {}), run_q(eng, render(nq, {}), nq['A'], nq['B'], ha, hb))
    ntext, nres = neutral_cache[ck]
    ok = 'error' not in res and 'error' not in nres
    if ok:
        got = res['out']
        if ms:
            ok = sorted(map(repr, got)) == sorted(map(repr, exp))
        else:
            ok = repr(got) == repr(exp)
        ok = ok and res['header'] == nres['header'] and res['warnings'] == nres['warnings']
    rec = {'replay': 'c08lit', 'template': name, 'query': text, 'neutral_query': ntext, 'A': q['A'], 'B': q['B'], 'input_column_names': ha, 'join_column_names': hb,
           'multiset': ms, 'literal': str(L), 'value': V,
           'expected': {'out': exp, 'header': nres.get('header'), 'warnings': nres.get('warnings')}, 'observed': res}
    return ok, rec


def replay_c08lit(case):
    rbql, eng = load_rbql()
    res = run_q(eng, case['query'], case['A'], case['B'], case['input_column_names'], case['join_column_names'])
    ok = 'error' not in res
    if ok:
        exp = case['expected']['out']
        if case.get('multiset'):
            ok = sorted(map(repr, res['out'])) == sorted(map(repr, exp))
        else:
            ok = repr(res['out']) == repr(exp)
        ok = ok and res['header'] == case['expected']['header'] and res['warnings'] == case['expected']['warnings']
    return {'fails': not ok, 'query': case['query'], 'expected': case['expected'], 'observed': res}


def join_content(atoms_list, rnd, pad):
    """concatenate contents (lists of atoms) with '' or ' ' between, optional padding"""
    out = []
    if pad:
        out.append(('raw', ' '))
    for i, a in enumerate(atoms_list):
        if i and rnd.random() < 0.6:
            out.append(('raw', ' '))
        out += a
    if pad:
        out.append(('raw', ' '))
    return out


@job('C08')
def literal_opacity(prop, tier, seed):
    rbql, eng = load_rbql()
    rnd = random.Random(seed * 104729 + 3)
    quick = tier == 'quick'
    budget = Budget(10 if quick else 85)
    al = alphabet()
    singles = [[a] for a in al] + CURATED_CONTENTS
    fails, seen = [], set()
    n = 0
    neutral_cache = {}
    contents_seen = set()
    qmodes = [("'", True), ('"', True), ("'", False), ('"', False)]
    other_pool = [[('raw', 'qz')], [('raw', 'w x')], [('raw', ' where ')], [('bs',)], [('raw', 'C:'), ('bs',)], [('raw', ';')], [('sq',)], [('dq',)], [('raw', '#')]]
    truncated = False

    NEU1, NEU2 = [('raw', 'zq')], [('raw', 'qz')]

    def one(name, atoms, atoms2, qmode, hdr, sp):
        nonlocal n
        contents_seen.add(repr(atoms))

        def case(c1, c2, spx):
            nonlocal n
            n += 1
            return lit_case(eng, name, c1, c2, qmode, hdr, spx, neutral_cache)
        ok, rec = case(atoms, atoms2, sp)
        if ok:
            return
        # attribute the failure: drop the respelling, neutralise either literal, then shrink what is left
        cur1, cur2, csp = list(atoms), list(atoms2), sp
        if csp:
            ok2, rec2 = case(cur1, cur2, {})
            if not ok2:
                csp, rec = {}, rec2
        ok2, rec2 = case(NEU1, cur2, csp)
        if not ok2:
            cur1, rec = NEU1, rec2
        ok2, rec2 = case(cur1, NEU2, csp)
        if not ok2:
            cur2, rec = NEU2, rec2
        for which in (1, 2):
            cur = cur1 if which == 1 else cur2
            if cur in (NEU1, NEU2):
                continue
            i = 0
            while len(cur) > 1 and i < len(cur):
                trial = cur[:i] + cur[i + 1:]
                ok2, rec2 = case(trial, cur2, csp) if which == 1 else case(cur1, trial, csp)
                if not ok2:
                    cur, rec = trial, rec2
                else:
                    i += 1
            if which == 1:
                cur1 = cur
            else:
                cur2 = cur
        if hdr and (attr_unknown(lit_value(cur1, "'")) or attr_unknown(lit_value(cur2, "'"))):
            key = 'lit:attrvar-unknown-column'
        elif cur1 == NEU1 and cur2 == NEU2:
            key = 'lit:neutral:%s%s' % (name, (':' + spell_key(csp)) if csp else '')
        else:
            key = 'lit:' + ('' if cur1 == NEU1 else '|'.join(atom_name(a) for a in cur1)[:50]) + ('' if cur2 == NEU2 else '||second=' + '|'.join(atom_name(a) for a in cur2)[:50])
            if csp:
                key += ':respelled'
        if key in seen:
            return
        seen.add(key)
        rec['key'] = key
        rec['content_atoms'] = [list(a) for a in cur1]
        rec['second_atoms'] = [list(a) for a in cur2]
        fails.append(rec)

    # (a) every single atom / curated content x bare|padded x 4 quote modes x 13 templates; header context alternates
    k = 0
    for ci, atoms in enumerate(singles):
        for pad in (False, True):
            for qi, qmode in enumerate(qmodes):
                for ti, name in enumerate(TEMPLATE_NAMES):
                    if n_open(fails) >= 5:
                        break
                    if quick and (ci + ti + qi + 2 * pad) % 3:
                        continue        # quick: every content meets every template and every quote mode, a third of the (pad, mode, template) triples
                    k += 1
                    a2 = other_pool[k % len(other_pool)]
                    c = ([('raw', ' ')] + atoms + [('raw', ' ')]) if pad else atoms
                    one(name, c, a2, qmode, k % 2 == 0, {})
    # (b) attribute-looking text with a column name that does not exist (header context, one key)
    for v in ATTR_UNKNOWN:
        for name in ('sel', 'sel_where', 'upd', 'join'):
            if 'lit:attrvar-unknown-column' in seen:
                break
            one(name, [('raw', v)], other_pool[0], ("'", True), True, {})
    # (c) pairs / longer compositions, random template, random respelling of the surrounding query in half of the cases
    pairs = [(x, y) for x in singles for y in singles]
    if quick:
        pairs = rnd.sample(pairs, 2500)
    longer = [[rnd.choice(singles) for _ in range(rnd.randint(3, 5))] for _ in range(1500 if quick else 25000)]
    for combo in itertools.chain(pairs, longer):
        if n_open(fails) >= 5:
            break
        if not budget.left():
            truncated = True
            break
        atoms = join_content(list(combo), rnd, rnd.random() < 0.3)
        if attr_unknown(lit_value(atoms, "'")):
            continue            # that class is covered by (b)
        name = rnd.choice(TEMPLATE_NAMES)
        a2 = join_content([rnd.choice(singles)], rnd, False) if rnd.random() < 0.5 else rnd.choice(other_pool)
        if attr_unknown(lit_value(a2, "'")):
            a2 = other_pool[0]
        sp = make_spelling([t for t in TRANSFORMS if rnd.random() < 0.4], rnd) if rnd.random() < 0.5 else {}
        one(name, atoms, a2, rnd.choice(qmodes), rnd.random() < 0.5, sp)
    return {'job': 'literal_opacity', 'evaluations': n, 'distinct_nontrivial': len(contents_seen), 'exhaustive': False,
            'rule': ('literal contents over an alphabet of %d atoms (every RBQL keyword in lower and upper case, *, a.*, aN, b[N], a.name, NR, =, ==, #, comma, semicolon, brackets, braces, TAB, '
                     'the other quote, escaped same quote, escaped backslash, \\t \\n escapes, non-ASCII) + %d curated contents: every single content bare and space-padded x 4 quote modes%s '
                     '(quote style x second literal in same/other style) x 13 query templates (select, where, update, update 2 fields, alias+order by+limit, group by, join, two literals+order, '
                     'distinct, except, top, len/equality, order-by key) alternating no-header/header; %s pairs and %s seeded 3-5 compositions with a random template, half of them inside a randomly respelled query%s; '
                     'expected rows computed from ast.literal_eval of the literal, header/warnings from the same template with a neutral literal') % (
                         len(al), len(CURATED_CONTENTS), ' (quick: a rotating third of the pad x mode x template triples)' if quick else '', '2500 sampled' if quick else 'all %d' % len(pairs), 1500 if quick else 25000,
                         '; time budget cut the composition loop short' if truncated else ''),
            'failures': fails, 'samples': ["select a1, \"%s\" where a2 != '%s'" % (' where ', ' where '), "update a3 = 'C:\\\\', a1 = 'qz' where a2 == \"C:\\\\\""],
            'assumptions': ['placeholder-shaped text (___RBQL_STRING_LITERAL<n>___, __RBQLMX__*) is outside the alphabet', 'raw line breaks inside literals are not generated (single-quoted Python literals cannot hold them)',
                            'literals used as column subscripts a["name"] belong to C09, not to this job']}
