"""BOUNDED job for C14 (errors name the first offending record; warnings appear iff the anomaly occurred).

Every expectation below is derived from the property statement, never from the code:
  * a record on which an expression of the query fails  ->  RbqlRuntimeError naming the 1-based number of the FIRST such
    record (and the missing field for a bad field access);
  * a mistake visible in the query text  ->  parsing error, and no record reaches the writer;
  * undecodable / inconsistent input  ->  RbqlIOHandlingError;
  * the five warnings are reported if and only if their condition occurred (reference evaluation of the query on the
    table the generator built), the field-count warning cites the first record of each of the first two lengths.
The job enumerates / samples a stated finite domain against the real code (rbql.query_table, rbql.query, rbql_csv.query_csv).
"""
import itertools
import os
import random
import re
import shutil
import tempfile

from .registry import job
from .refsem import load_rbql, REPO   # noqa: F401

POISON = 'xq'          # not a number, no digits (so it can never be mistaken for a record number in a message)
MAX_FAILS = 5
WARN_CATS = ('fieldcount', 'none', 'delim', 'bom', 'quoting')


# ----------------------------------------------------------------------------------------------------------------------
# helpers
# ----------------------------------------------------------------------------------------------------------------------

def _mods():
    rbql, eng = load_rbql()
    from rbql import rbql_csv
    return rbql, eng, rbql_csv


def classify_warning(w):
    """map a warning text to one of the five conditions of the statement (keywords only, no exact wording)"""
    low = w.lower()
    if 'bom' in low or 'byte order mark' in low:
        return 'bom'
    if 'quot' in low:
        return 'quoting'
    if 'number of fields' in low or ('fields' in low and 'consistent' in low):
        return 'fieldcount'
    if 'none' in low:
        return 'none'
    if 'separator' in low or 'delimiter' in low:
        return 'delim'
    return 'other'


def cited_pairs(msg):
    """(record number, field count) pairs cited by a field-count warning"""
    pairs = re.findall(r'record\D{0,3}?(\d+)\D{1,6}?(\d+)\D{0,3}?field', msg, flags=re.I)
    if pairs:
        return sorted([int(a), int(b)] for a, b in pairs)
    body = re.sub(r'"[^"]*"', '', msg)
    ints = [int(x) for x in re.findall(r'\d+', body)]
    return sorted([ints[i], ints[i + 1]] for i in range(0, len(ints) - 1, 2))


def first_two_lengths(lengths):
    """[[record number, length], ...] of the first record of each of the first two distinct lengths (1-based)"""
    seen = []
    for i, n in enumerate(lengths):
        if n not in [s[1] for s in seen]:
            seen.append([i + 1, n])
        if len(seen) == 2:
            break
    return seen


def record_numbers_named(msg):
    named = [int(x) for x in re.findall(r'record\D{0,3}?(\d+)', msg, flags=re.I)]
    if named:
        return named[:1]
    return [int(x) for x in re.findall(r'(?<![A-Za-z0-9_.])\d+(?![A-Za-z0-9_.])', msg)]


def names_record(msg, k):
    return k in record_numbers_named(msg)


def q_field(s, delim, policy):
    if policy == 'simple':
        return s
    if '"' in s or delim in s or '\n' in s or '\r' in s:
        return '"' + s.replace('"', '""') + '"'
    return s


def render_csv(records, delim=',', policy='quoted', header=None, comment_before=(), bom=False, raw=False):
    """CSV text (str).  comment_before: 0-based data-record indexes before which a comment line is placed
    (len(records) = after the last record).  raw: cells are already file text."""
    lines = []
    if header is not None:
        lines.append(delim.join(q_field(c, delim, policy) for c in header))
    for i, r in enumerate(records):
        if i in comment_before:
            lines.append('#comment %d, with, commas' % i)
        lines.append(delim.join(c if raw else q_field(c, delim, policy) for c in r))
    if len(records) in comment_before:
        lines.append('#trailing comment')
    return ('\ufeff' if bom else '') + ''.join(l + '\n' for l in lines)


def flatten(v):
    if isinstance(v, list):
        for x in v:
            for y in flatten(x):
                yield y
    else:
        yield v


class Ctx(object):
    def __init__(self):
        self.rbql, self.eng, self.rbql_csv = _mods()
        self.tmp = tempfile.mkdtemp(prefix='rbql_verif_c14_')
        self.a_path = os.path.join(self.tmp, 'in_table')
        self.b_path = os.path.join(self.tmp, 'jt_file')
        self.o_path = os.path.join(self.tmp, 'out_table')

    def close(self):
        shutil.rmtree(self.tmp, ignore_errors=True)

    def run_csv(self, query, a_bytes, b_bytes, in_delim, in_policy, out_delim, out_policy, encoding, header, comment_prefix):
        with open(self.a_path, 'wb') as f:
            f.write(a_bytes)
        if b_bytes is not None:
            with open(self.b_path, 'wb') as f:
                f.write(b_bytes)
        elif os.path.exists(self.b_path):
            os.unlink(self.b_path)
        if os.path.exists(self.o_path):
            os.unlink(self.o_path)
        warnings = []
        exc = None
        try:
            self.rbql_csv.query_csv(query, self.a_path, in_delim, in_policy, self.o_path, out_delim, out_policy, encoding, warnings,
                                    header, comment_prefix)
        except Exception as e:     # noqa: broad on purpose, the class is what is being checked
            exc = e
        out = b''
        if os.path.exists(self.o_path):
            with open(self.o_path, 'rb') as f:
                out = f.read()
        return exc, warnings, out

    def run_table(self, query, A, B, names=None, jnames=None):
        out, warnings = [], []
        exc = None
        try:
            self.eng.query_table(query, [list(r) for r in A], out, warnings, None if B is None else [list(r) for r in B], names, jnames)
        except Exception as e:     # noqa
            exc = e
        return exc, warnings, out


def exc_text(e):
    return 'no exception' if e is None else '%s: %s' % (type(e).__name__, str(e)[:300])


# ----------------------------------------------------------------------------------------------------------------------
# (1) poisoned record
# ----------------------------------------------------------------------------------------------------------------------
# A row = [id, num, grp], B row = [id, num, tag]; {J} is the join table id ('b' for lists, the file name for CSV).
AGGS = ['SUM', 'MIN', 'MAX', 'AVG', 'VARIANCE', 'MEDIAN']
Q_VALUE = (     # the value a2 of record k is not a number
    [('select', 'select int(a2)'), ('select', 'select a1, float(a2) * 2 as v'), ('select', 'select top 9 a1, int(a2)'),
     ('select', 'select distinct int(a2)'), ('select', 'select a3, UNNEST([int(a2), 7])'), ('select', 'select distinct count int(a2) % 2'),
     ('where', 'select * except a3 where int(a2) > 0'),
     ('where', 'select a1 where int(a2) > 0'), ('where', 'update a1 = "u" where int(a2) > 0'), ('where', 'select COUNT(a1) where float(a2) > 0'),
     ('where', 'select a1, b2 join {J} on a1 == b1 where int(a2) > 0'), ('select', 'select int(a2), b1 left join {J} on a1 == b1'),
     ('orderby', 'select a1 order by int(a2)'), ('orderby', 'select a1, a3 order by a3, float(a2) desc'),
     ('groupby', 'select COUNT(a1) group by int(a2)'), ('groupby', 'select a3, ARRAY_AGG(a1) group by a3, int(a2) % 2'),
     ('update', 'update a3 = int(a2)'), ('update', 'update set a1 = "u", a3 = float(a2) + 1'),
     ('update', 'update a3 = int(a2) join {J} on a1 == b1'),
     ('aggarg', 'select max(a2)'), ('aggarg', 'select a3, min(a2) group by a3'), ('aggarg', 'select sum(a2)')]
    + [('aggarg', 'select %s(a2)' % f) for f in AGGS]
    + [('aggarg', 'select a3, %s(a2) group by a3' % f) for f in AGGS]
    + [('aggarg', 'select COUNT(a1), %s(a2) where a1 != "zz"' % f) for f in AGGS[:3]]
    + [('aggarg', 'select %s(int(a2))' % f) for f in AGGS[3:]]
    + [('aggarg', 'select %s(b2), %s(a2) join {J} on a1 == b1' % (f, f)) for f in ('SUM', 'MEDIAN')])
Q_BVALUE = [    # the join record paired with record k has a non-number b2
    ('join-select', 'select a1, int(b2) join {J} on a1 == b1'), ('join-where', 'select a1 inner join {J} on a1 == b1 where int(b2) > 0'),
    ('join-orderby', 'select a1 left join {J} on a1 == b1 order by int(b2)'), ('join-update', 'update a2 = int(b2) join {J} on a1 == b1'),
    ('join-aggarg', 'select SUM(b2) join {J} on a1 == b1'), ('join-aggarg', 'select a3, MEDIAN(b2) join {J} on a1 == b1 group by a3'),
    ('join-groupby', 'select COUNT(a1) join {J} on a1 == b1 group by int(b2)')]
Q_SHORT = [     # record k has no third field; a3 is used as a JOIN key / as an UPDATE target
    ('joinkey', 'select a1, b2 join {J} on a3 == b3'), ('joinkey', 'select a1 left join {J} on a1 == b1 and a3 == b3'),
    ('joinkey', 'select COUNT(a1) left join {J} on a3 == b3'), ('joinkey', 'update a1 = b2 join {J} on a3 == b3 and a1 == b1'),
    ('update-target', 'update a3 = "n"'), ('update-target', 'update a1 = "z", a3 = a2 where a2 != ""'),
    ('update-target', 'update a3 = b2 join {J} on a1 == b1')]
Q_BSHORT = [    # join record j has only one field; b2 / b3 is a JOIN key
    ('joinkey-b', 'select a1 join {J} on a2 == b2', 2), ('joinkey-b', 'select a1 left join {J} on a1 == b1 and a3 == b3', 3)]
Q_STRICT = [('strictjoin', 'select a1, b2 strict left join {J} on a1 == b1'), ('strictjoin', 'select COUNT(a1) strict left join {J} on a1 == b1')]
Q_NONCONST = [('aggconst', 'select a3, COUNT(a1)'), ('aggconst', 'select SUM(a2), a3 where a1 != "zz"')]
CSV_LAYOUTS = [('quoted', False, False), ('simple', True, False), ('quoted_rfc', True, True)]   # policy, comment lines, multi-line 4th field
A_NAMES, B_NAMES = ['id', 'num', 'grp'], ['id', 'num', 'tag']


def poison_tables(n, kind, ks, rnd):
    """A, B with the poison of `kind` planted at the 1-based positions ks (first one is the expected record)"""
    nums = [str(rnd.randint(11, 99)) for _ in range(n)]
    A = [['r%d' % i, nums[i - 1], 'g%d' % (i % 2)] for i in range(1, n + 1)]
    B = [['r%d' % i, str(100 + 3 * i), 'g%d' % (i % 2)] for i in range(n, 0, -1)]       # reversed: bNR differs from NR
    if kind == 'nonconst':
        for r in A:
            r[2] = 'g'
    for k in ks:
        if kind == 'value':
            A[k - 1][1] = POISON
        elif kind == 'bvalue':
            for b in B:
                if b[0] == 'r%d' % k:
                    b[1] = POISON
        elif kind == 'short':
            A[k - 1] = A[k - 1][:2]
        elif kind == 'bshort':
            B[k - 1] = B[k - 1][:1]
        elif kind == 'strict':
            B = [b for b in B if b[0] != 'r%d' % k]
        elif kind == 'nonconst':
            A[k - 1][2] = 'h'
    return A, B


def check_err(ctx, case):
    """run one poisoned-record case; returns (ok, expected, observed)"""
    eng = ctx.eng
    k = case['record']
    exp = 'RbqlRuntimeError naming record %d' % k + ((' and field %s' % case['field']) if case.get('field') else '')
    if case['entry'] == 'table':
        names = A_NAMES if case.get('header') else None
        e, ws, out = ctx.run_table(case['query'].replace('{J}', 'b'), case['A'], case['B'], names, B_NAMES if names else None)
    else:
        policy, comments, multiline = case['layout']
        A = [r + (['multi\nline, "field" %d' % i] if multiline and len(r) == 3 else []) for i, r in enumerate(case['A'])]
        cb = set(range(len(A) + 1)) if comments else ()      # a comment line before every record and after the last one
        hdr = case.get('header')
        a_txt = render_csv(A, ',', policy, (A_NAMES + (['note'] if multiline else [])) if hdr else None, cb)
        b_txt = render_csv(case['B'], ',', policy, B_NAMES if hdr else None, {0, 1} if comments else ())
        e, ws, out = ctx.run_csv(case['query'].replace('{J}', 'jt_file'), a_txt.encode('utf-8'), b_txt.encode('utf-8'), ',', policy, ',', policy,
                                 'utf-8', bool(hdr), '#' if comments else None)
    ok = isinstance(e, eng.RbqlRuntimeError) and names_record(str(e), k)
    if ok and case.get('field'):
        msg = str(e)
        f = case['field']
        if f.startswith('b'):
            ints = [int(x) for x in re.findall(r'\d+', msg)]
            if k in ints:
                ints.remove(k)
            ok = f in msg or int(f[1:]) in ints
        else:
            ok = re.search(r'(?<![A-Za-z0-9_])%s(?![0-9])' % re.escape(f), msg) is not None
    return ok, exp, exc_text(e)


def gen_err_cases(tier, rnd):
    nmax_t = 4 if tier == 'quick' else 5
    nmax_c = 3 if tier == 'quick' else 5
    for entry in ('table', 'csv'):
        nmax = nmax_t if entry == 'table' else nmax_c
        for n in range(1, nmax + 1):
            shapes = [(k,) for k in range(1, n + 1)] + [(k, k2) for k in range(1, n + 1) for k2 in range(k + 1, n + 1)]
            for ks in shapes:
                variants = [(None, False), (None, True)] if entry == 'table' else [(lay, h) for lay in CSV_LAYOUTS for h in (False, True)]
                if entry == 'csv' and tier == 'quick':
                    variants = [(lay, bool((li + n + ks[0]) % 2)) for li, lay in enumerate(CSV_LAYOUTS)]
                for vi, (lay, hdr) in enumerate(variants):
                    for kind, qs in (('value', Q_VALUE), ('bvalue', Q_BVALUE), ('short', Q_SHORT), ('bshort', Q_BSHORT), ('strict', Q_STRICT),
                                     ('nonconst', Q_NONCONST)):
                        if entry == 'table' and hdr and kind not in ('value', 'bvalue'):
                            continue     # a names list must match the width of the first list record
                        if kind == 'nonconst' and ks[0] == 1:
                            continue     # "non-constant" needs an earlier record to differ from
                        A, B = poison_tables(n, kind, ks, rnd)
                        for j, q in enumerate(qs):
                            if tier == 'quick' and kind == 'value' and (entry == 'csv' or hdr) and (j + n + ks[0] + vi) % 3:
                                continue     # quick tier: every third SELECT/WHERE/... query per CSV (or named) variant, all of them on plain lists
                            case = {'replay': 'c14', 'kind': 'err', 'entry': entry, 'query': q[1], 'A': A, 'B': B, 'record': ks[0],
                                    'header': hdr, 'layout': lay,
                                    'key': 'err:%s:%s:%s' % (entry, q[0], re.sub(r'[^A-Za-z]+', '_', q[1])[:40])}
                            if kind == 'short':
                                case['field'] = 'a3'
                            if kind == 'bshort':
                                case['field'] = 'b%d' % q[2]
                            yield case


def check_clean(ctx, case):
    """the same queries on un-poisoned tables: no error, and (header-less) no warning at all"""
    if case['entry'] == 'table':
        e, ws, out = ctx.run_table(case['query'].replace('{J}', 'b'), case['A'], case['B'])
    else:
        policy = case['layout'][0]
        hdr = case.get('header')
        cb = {0, 2} if case['layout'][1] else ()
        e, ws, out = ctx.run_csv(case['query'].replace('{J}', 'jt_file'), render_csv(case['A'], ',', policy, A_NAMES if hdr else None, cb).encode('utf-8'),
                                 render_csv(case['B'], ',', policy, B_NAMES if hdr else None).encode('utf-8'), ',', policy, ',', policy, 'utf-8', bool(hdr),
                                 '#' if cb else None)
    bad = [w for w in ws if classify_warning(w) in WARN_CATS] if case.get('header') else list(ws)
    return e is None and not bad, 'no error, no warning', exc_text(e) if e is not None else {'warnings': ws}


def gen_clean_cases(tier, rnd):
    for entry in ('table', 'csv'):
        for n in ((1, 3) if tier == 'quick' else (1, 2, 3, 5)):
            A, B = poison_tables(n, 'value', (), rnd)
            qs = [q for grp in (Q_VALUE, Q_BVALUE, Q_SHORT, Q_BSHORT, Q_STRICT) for q in grp]
            for qn, q in enumerate(qs):
                variants = [(None, False)] if entry == 'table' else [(lay, h) for lay in CSV_LAYOUTS[:2] for h in (False, True)]
                if entry == 'csv' and tier == 'quick':
                    variants = [(CSV_LAYOUTS[qn % 2], bool((qn // 2 + n) % 2))]
                for lay, hdr in variants:
                    if hdr and 'distinct count' in q[1]:
                        continue     # CSV header + DISTINCT COUNT fails on the header width (known finding F3 of C07), unrelated to C14
                    yield {'replay': 'c14', 'kind': 'clean', 'entry': entry, 'query': q[1], 'A': A, 'B': B, 'header': hdr, 'layout': lay,
                           'key': 'clean:%s:%s' % (entry, re.sub(r'[^A-Za-z]+', '_', q[1])[:40])}
            if entry == 'table':
                Ac, _ = poison_tables(n, 'nonconst', (), rnd)
                for q in Q_NONCONST:
                    yield {'replay': 'c14', 'kind': 'clean', 'entry': entry, 'query': q[1], 'A': Ac, 'B': B, 'header': False, 'layout': None,
                           'key': 'clean:%s:%s' % (entry, re.sub(r'[^A-Za-z]+', '_', q[1])[:40])}


# ----------------------------------------------------------------------------------------------------------------------
# (2) mistakes visible in the query text
# ----------------------------------------------------------------------------------------------------------------------
# (tag, query, needs: 'any' | 'record' (detected when the first record is evaluated) | 'noheader' | 'header', strict class?)
STATIC = [
    ('no-select', 'a1, a2', 'any', True), ('bare-select', 'select', 'any', True),
    ('dup-select', 'select a1 select a2', 'any', True), ('dup-where', 'select a1 where a2 == "x" where a1 == "y"', 'any', True),
    ('dup-orderby', 'select a1 order by a1 order by a2', 'any', True), ('dup-limit', 'select a1 limit 1 limit 2', 'any', True),
    ('dup-join', 'select a1 join {J} on a1 == b1 join {J} on a2 == b2', 'any', True),
    ('limit-nonint', 'select a1 limit x', 'any', True), ('limit-float', 'select a1 where a2 == "x" limit 2.5', 'any', True),
    ('unknown-join-table', 'select a1 join nosuchtable on a1 == b1', 'list', True),
    ('where-assign', 'select a1 where a2 = "x"', 'any', True), ('update-orderby', 'update a1 = "x" order by a2', 'any', True),
    ('update-groupby', 'update a1 = "x" group by a2', 'any', True),
    ('agg-orderby', 'select a1, COUNT(a2) group by a1 order by a1', 'any', True),
    ('agg-orderby2', 'select COUNT(a1), MAX(a2) order by a2', 'record', True),
    ('agg-distinct', 'select distinct a1, COUNT(a2)', 'record', True), ('agg-distinct-count', 'select distinct count a1, COUNT(a2)', 'record', True),
    ('agg-arith', 'select a1, SUM(a2) + 1 group by a1', 'record', True), ('agg-in-where', 'select a1 where SUM(a2) > 1', 'record', True),
    ('agg-nested', 'select MAX(SUM(a2))', 'record', True), ('agg-in-list', 'select a1, int(MIN(a2))', 'record', True),
    ('select-not-first', 'where a1 == "x" select a1', 'any', True), ('update-not-first', 'where a1 == "x" update a1 = "y"', 'any', True),
    ('select-and-update', 'select a1 update a2 = "x"', 'any', True),
    ('update-no-assign', 'update a1', 'any', True), ('update-bad-lhs', 'update foo = 1', 'any', True),
    ('update-unknown-field', 'update a.zz = 1', 'any', True), ('update-unknown-field2', 'update a5x = 1', 'any', True),
    ('except-join', 'select * except a1 join {J} on a1 == b1', 'any', True), ('except-unknown', 'select * except zz', 'any', True),
    ('except-unknown2', 'select * except a1, zz', 'any', True),
    ('join-no-on', 'select a1 join {J} a1 == b1', 'any', True), ('join-or', 'select a1 join {J} on a1 == b1 or a2 == b2', 'any', True),
    ('join-nofield-b', 'select a1 join {J} on a1 == c1', 'any', True), ('join-nofield-a', 'select a1 join {J} on c1 == b1', 'any', True),
    ('empty-select', 'select  where a1 == "x"', 'any', True),
    ('star-alias', 'select *, a1 as x', 'noheader', True), ('alias-star', 'select a1 as x, *', 'noheader', True),
    ('unknown-column', 'select a.nosuch', 'header', True), ('unknown-column-where', 'select a1 where a.nosuch == "x"', 'header', True),
    # broken Python in an expression: any parsing-class report (RbqlParsingError or the SyntaxError that exception_to_error_info names
    # 'syntax error') is accepted, the point is that no record is written
    ('py-syntax-select', 'select a1 +', 'any', False), ('py-syntax-paren', 'select (a1', 'any', False),
    ('py-syntax-where', 'select a1 where a2 ==', 'any', False), ('py-syntax-orderby', 'select a1 order by', 'any', False),
    ('py-syntax-top', 'select top x a1', 'any', False), ('py-syntax-alias', 'select a1, a2 as 9x', 'any', False),
    ('py-syntax-update', 'update a1 = ', 'any', False),
]


def check_static(ctx, case):
    eng = ctx.eng
    A, B, hdr = case['A'], case['B'], case['header']
    strict = case['strict']
    exp = ('RbqlParsingError' if strict else 'RbqlParsingError / SyntaxError') + ' and no record written'
    written = None
    if case['entry'] == 'query':
        events = []

        class Rec(eng.RBQLOutputWriter):
            def write(self, fields):
                events.append(['write', [str(f) for f in fields]])
                return True

            def finish(self):
                events.append(['finish'])

            def set_header(self, header):
                events.append(['set_header', header])
        reg = None
        if case['registry']:
            reg = eng.ListTableRegistry([eng.ListTableInfo('b', [list(r) for r in B], B_NAMES if hdr else None)])
        e = None
        try:
            eng.query(case['query'].replace('{J}', 'b'), eng.TableIterator([list(r) for r in A], A_NAMES if hdr else None), Rec(), [], reg)
        except Exception as ex:    # noqa
            e = ex
        written = [ev for ev in events if ev[0] == 'write']
    elif case['entry'] == 'table':
        e, ws, out = ctx.run_table(case['query'].replace('{J}', 'b'), A, B, A_NAMES if hdr else None, B_NAMES if hdr else None)
        written = out
    else:
        e, ws, out = ctx.run_csv(case['query'].replace('{J}', 'jt_file'), render_csv(A).encode('utf-8'), render_csv(B).encode('utf-8'),
                                 ',', 'quoted', ',', 'quoted', 'utf-8', False, None)
        written = out.decode('latin-1')
    if strict:
        cls_ok = isinstance(e, eng.RbqlParsingError)
    else:
        cls_ok = isinstance(e, (eng.RbqlParsingError, SyntaxError))
    ok = cls_ok and not written
    return ok, exp, {'raised': exc_text(e), 'written': written}


def gen_static_cases(tier, rnd):
    for n in (0, 1, 3):
        A, B = poison_tables(n, 'value', (), rnd)
        for tag, q, needs, strict in STATIC:
            if needs == 'record' and n == 0:
                continue
            for entry in ('query', 'table', 'csv'):
                for hdr in (False, True):
                    if hdr and (entry == 'csv' or n == 0):
                        continue    # CSV with a header: the header line itself reaches the writer before the check; not a record, not asserted
                    if (needs == 'noheader' and hdr) or (needs == 'header' and not hdr):
                        continue
                    if needs == 'list' and entry == 'csv':
                        continue    # a missing join *file* is not visible in the query text
                    yield {'replay': 'c14', 'kind': 'static', 'entry': entry, 'query': q, 'A': A, 'B': B, 'header': hdr, 'strict': strict,
                           'registry': True, 'key': 'static:%s:%s' % (entry, tag)}
        # JOIN where the application provides no join tables at all
        yield {'replay': 'c14', 'kind': 'static', 'entry': 'query', 'query': 'select a1, b2 join b on a1 == b1', 'A': A, 'B': B, 'header': False,
               'strict': True, 'registry': False, 'key': 'static:query:join-unsupported'}


# ----------------------------------------------------------------------------------------------------------------------
# (3) undecodable / inconsistent input
# ----------------------------------------------------------------------------------------------------------------------

def check_io(ctx, case):
    eng = ctx.eng
    exp = 'RbqlIOHandlingError' if case['expect_error'] else 'no error'
    if case['entry'] == 'table':
        e, ws, out = ctx.run_table(case['query'], case['A'], case['B'], case.get('names'), case.get('jnames'))
    else:
        a = case['a_latin1'].encode('latin-1') * case.get('a_repeat', 1) + case.get('a_tail_latin1', '').encode('latin-1')
        b = None if case.get('b_latin1') is None else case['b_latin1'].encode('latin-1')
        e, ws, out = ctx.run_csv(case['query'], a, b, case['in_delim'], case['in_policy'], ',', 'quoted', case['encoding'], case['header'], None)
    ok = isinstance(e, eng.RbqlIOHandlingError) if case['expect_error'] else e is None
    return ok, exp, exc_text(e)


def gen_io_cases(tier, rnd):
    bad_seqs = ['\xff', '\xc3\x28', '\xe2\x82', '\xf0\x28\x8c\x28']
    queries = ['select *', 'select a1 where a2 != "zz"', 'select COUNT(a1), MAX(NF)', 'select a1 order by a2 desc', 'update a1 = "u"',
               'select a1, b2 join jt_file on a1 == b1']
    nmax = 3 if tier == 'quick' else 4
    for n in range(1, nmax + 1):
        for pos in range(0, n + 1):          # line index of the bad byte sequence (0 = header line when header)
            for header in (False, True):
                nlines = n + (1 if header else 0)
                if pos >= nlines:
                    continue
                for bad in (bad_seqs if tier != 'quick' else bad_seqs[:2]):
                    lines = ['r%d,%d,g%d' % (i, 10 * i, i % 2) for i in range(1, nlines + 1)]
                    good = ''.join(l + '\n' for l in lines)
                    lines[pos] = lines[pos][:3] + 'x' + bad + 'y' + lines[pos][3:]
                    broken = ''.join(l + '\n' for l in lines)
                    for qi, q in enumerate(queries):
                        for where in ('a', 'b'):
                            if where == 'b' and 'join' not in q:
                                continue
                            for enc in ('utf-8', 'latin-1'):
                                yield {'replay': 'c14', 'kind': 'io', 'entry': 'csv', 'query': q, 'a_latin1': broken if where == 'a' else good,
                                       'b_latin1': (broken if where == 'b' else good) if 'join' in q else None, 'in_delim': ',', 'in_policy': 'quoted',
                                       'encoding': enc, 'header': header, 'expect_error': enc == 'utf-8',
                                       'key': 'io:utf8:%s:%s:q%d' % (where, enc, qi)}
    # the bad bytes far behind the first chunk (reached while the main loop is running)
    for q in queries[:5]:
        for enc in ('utf-8', 'latin-1'):
            yield {'replay': 'c14', 'kind': 'io', 'entry': 'csv', 'query': q, 'a_latin1': 'r1,10,g1\nr2,20,g0\n', 'a_repeat': 2500 if tier == 'quick' else 12000,
                   'a_tail_latin1': 'r3,3\xff0,g1\nr4,40,g0\n', 'b_latin1': None, 'in_delim': ',', 'in_policy': 'quoted', 'encoding': enc, 'header': False,
                   'expect_error': enc == 'utf-8', 'key': 'io:utf8:late:%s' % enc}
    # a header on one side of a JOIN only; a names list that does not fit the records
    A = [['r1', '10', 'g1'], ['r2', '20', 'g0']]
    for q in ('select a1, b2 join b on a1 == b1', 'select * left join b on a1 == b1', 'update a2 = b2 join b on a1 == b1'):
        for names, jnames in ((A_NAMES, None), (None, B_NAMES), (A_NAMES, B_NAMES), (None, None)):
            yield {'replay': 'c14', 'kind': 'io', 'entry': 'table', 'query': q, 'A': A, 'B': A, 'names': names, 'jnames': jnames,
                   'expect_error': (names is None) != (jnames is None), 'key': 'io:header-mismatch:%s:%s' % (names is not None, jnames is not None)}
    for names in (['id'], ['id', 'num'], ['id', 'num', 'grp', 'extra']):
        for q in ('select *', 'select a1', 'update a1 = "u"'):
            yield {'replay': 'c14', 'kind': 'io', 'entry': 'table', 'query': q, 'A': A, 'B': None, 'names': names, 'expect_error': True,
                   'key': 'io:names-width:%d' % len(names)}
    # RFC policy: a record whose quoting cannot be parsed is inconsistent input
    for n in (1, 2, 3):
        for pos in range(n):
            for cell in ('a"b', '"a"b', 'a ""b"" c'):
                lines = ['r%d,%d,g%d' % (i, 10 * i, i % 2) for i in range(1, n + 1)]
                good = ''.join(l + '\n' for l in lines)
                lines[pos] = 'r%d,%s,g0' % (pos + 1, cell)
                for q in ('select *', 'select COUNT(a1)'):
                    yield {'replay': 'c14', 'kind': 'io', 'entry': 'csv', 'query': q, 'a_latin1': ''.join(l + '\n' for l in lines), 'b_latin1': None,
                           'in_delim': ',', 'in_policy': 'quoted_rfc', 'encoding': 'utf-8', 'header': False, 'expect_error': True, 'key': 'io:rfc-quoting'}
                    yield {'replay': 'c14', 'kind': 'io', 'entry': 'csv', 'query': q, 'a_latin1': good, 'b_latin1': None,
                           'in_delim': ',', 'in_policy': 'quoted_rfc', 'encoding': 'utf-8', 'header': False, 'expect_error': False, 'key': 'io:rfc-clean'}
    # delimiter / policy combinations that cannot describe any input
    for delim, policy in (('"', 'quoted'), (',', 'whitespace'), ('\t', 'whitespace')):
        yield {'replay': 'c14', 'kind': 'io', 'entry': 'csv', 'query': 'select *', 'a_latin1': 'a b\nc d\n', 'b_latin1': None, 'in_delim': delim,
               'in_policy': policy, 'encoding': 'utf-8', 'header': False, 'expect_error': True, 'key': 'io:delim-policy:%s' % policy}


# ----------------------------------------------------------------------------------------------------------------------
# (4) warnings if and only if
# ----------------------------------------------------------------------------------------------------------------------

def compare_warnings(ws, exp_cats, exp_cites, ignore_other=False):
    cats = sorted(classify_warning(w) for w in ws)
    if ignore_other:
        cats = [c for c in cats if c != 'other']
    obs = {'categories': cats, 'warnings': ws}
    if cats != sorted(exp_cats):
        return False, obs
    if exp_cites is not None:
        cites = sorted(cited_pairs(w) for w in ws if classify_warning(w) == 'fieldcount')
        obs['cites'] = cites
        if cites != sorted(sorted(c) for c in exp_cites):
            return False, obs
    return True, obs


LIST_SCAN_QUERIES = ['select *', 'select NR, NF', 'select a1 where NF > 1', 'select COUNT(NR), MAX(NF)', 'select NF, COUNT(NR) group by NF',
                     'select * order by NF desc', 'select distinct NF', 'select distinct count NF', 'select a2, a1 where False']
LIST_SCAN_JOIN = ['select NR, bNR join b on NR == bNR', 'select NF, b1 left join b on NR == bNR', 'select COUNT(b1) join b on NR == bNR']


def check_warn_list(ctx, case):
    A = [['c%d' % j for j in range(n)] for n in case['a_lengths']]
    B = None if case['b_lengths'] is None else [['d%d' % j for j in range(n)] for n in case['b_lengths']]
    e, ws, out = ctx.run_table(case['query'], A, B)
    exp_cats, exp_cites = [], []
    for lengths in (case['a_lengths'], case['b_lengths'] or []):
        if len(set(lengths)) > 1:
            exp_cats.append('fieldcount')
            exp_cites.append(first_two_lengths(lengths))
    exp = {'categories': exp_cats, 'cites': exp_cites}
    if e is not None:
        return False, exp, exc_text(e)
    ok, obs = compare_warnings(ws, exp_cats, exp_cites)
    return ok, exp, obs


def gen_warn_list_cases(tier, rnd):
    nmax = 4 if tier == 'quick' else 5
    for n in range(0, nmax + 1):
        for lengths in itertools.product((0, 1, 2, 3), repeat=n):
            if tier == 'quick' and n == nmax and rnd.random() < 0.75:
                continue
            for qi, q in enumerate(LIST_SCAN_QUERIES):
                if n >= 4 and (qi + sum(lengths)) % 3:
                    continue
                yield {'replay': 'c14', 'kind': 'warn_list', 'query': q, 'a_lengths': list(lengths), 'b_lengths': None,
                       'key': 'warn:list:fieldcount:q%d' % qi}
    for n in range(1, 4):
        for al in itertools.product((1, 2, 3), repeat=n):
            for bl in itertools.product((1, 2, 3), repeat=n):
                for qi, q in enumerate(LIST_SCAN_JOIN):
                    if (sum(al) + sum(bl) + qi) % 3 and n == 3:
                        continue
                    yield {'replay': 'c14', 'kind': 'warn_list', 'query': q, 'a_lengths': list(al), 'b_lengths': list(bl),
                           'key': 'warn:list:fieldcount:join:q%d' % qi}


CSV_SCAN_QUERIES = ['select NR, NF', 'select *', 'select COUNT(NR), MAX(NF)', 'select NF order by NR desc', 'update a1 = "u"']


def check_warn_ragged_csv(ctx, case):
    """header-less CSV, lines != records (comment lines, multi-line RFC fields): the warning cites RECORD numbers"""
    policy = case['policy']
    recs = []
    for i, n in enumerate(case['lengths']):
        r = ['c%d' % j for j in range(n)]
        if i in case['multiline']:
            r[0] = 'multi\nline\n"cell"'
        recs.append(r)
    txt = render_csv(recs, case['delim'], policy, None, set(case['comments']))
    b_txt = None
    if case.get('b_lengths') is not None:
        b_txt = render_csv([['d%d' % j for j in range(n)] for n in case['b_lengths']], case['delim'], policy, None, set(case['comments'])).encode('utf-8')
    # override: the caller says "with headers", the query says WITH (noheader): every line is a record, and is counted as one (C09 / C14)
    e, ws, out = ctx.run_csv(case['query'] + (' with (noheader)' if case.get('override') else ''), txt.encode('utf-8'), b_txt, case['delim'], policy, case['delim'],
                             'quoted_rfc' if policy == 'quoted_rfc' else 'quoted', 'utf-8', bool(case.get('override')), '#')
    exp_cats, exp_cites = [], []
    for lengths in (case['lengths'], case.get('b_lengths') or []):
        if len(set(lengths)) > 1:
            exp_cats.append('fieldcount')
            exp_cites.append(first_two_lengths(lengths))
    exp = {'categories': exp_cats, 'cites': exp_cites}
    if e is not None:
        return False, exp, exc_text(e)
    ok, obs = compare_warnings(ws, exp_cats, exp_cites)
    return ok, exp, obs


def gen_warn_ragged_csv_cases(tier, rnd):
    nmax = 3 if tier == 'quick' else 4
    for n in range(1, nmax + 1):
        for lengths in itertools.product((1, 2, 3), repeat=n):
            masks = list(itertools.product((0, 1), repeat=n + 1))
            for mask in masks:
                comments = [i for i, m in enumerate(mask) if m]
                if n == nmax and n >= 3 and len(comments) not in (0, 1, n + 1) and rnd.random() < (0.85 if tier == 'quick' else 0.3):
                    continue
                for policy, delim in (('simple', ','), ('quoted', ';'), ('quoted_rfc', ',')):
                    mls = [[]]
                    if policy == 'quoted_rfc':
                        mls = [[], [0]] + ([[n - 2]] if n >= 3 else []) + ([[0, 1]] if n >= 3 else [])
                    for ml in mls:
                        qi = (sum(lengths) + len(comments) + len(ml)) % len(CSV_SCAN_QUERIES)
                        for q in sorted({CSV_SCAN_QUERIES[0], CSV_SCAN_QUERIES[qi]} if tier != 'quick' else {CSV_SCAN_QUERIES[qi]}):
                            yield {'replay': 'c14', 'kind': 'warn_ragged_csv', 'query': q, 'lengths': list(lengths), 'comments': comments, 'multiline': ml,
                                   'policy': policy, 'delim': delim, 'key': 'warn:csv:fieldcount:%s:%s' % (policy, 'ml' if ml else ('cm' if comments else 'plain'))}
                            if not ml and len(comments) in (0, 1) and policy != 'quoted':
                                yield {'replay': 'c14', 'kind': 'warn_ragged_csv', 'query': q, 'lengths': list(lengths), 'comments': comments, 'multiline': ml, 'override': True,
                                       'policy': policy, 'delim': delim, 'key': 'warn:csv:fieldcount:%s:%s:noheader-overrides-flag' % (policy, 'cm' if comments else 'plain')}
    # ragged join file with comment lines
    for al in itertools.product((2, 3), repeat=2):
        for bl in itertools.product((1, 2, 3), repeat=3):
            for comments in (([], [0, 1, 2]) if tier == 'quick' else ([], [0], [0, 1, 2])):
                yield {'replay': 'c14', 'kind': 'warn_ragged_csv', 'query': 'select NR, bNR, NF join jt_file on NR == bNR', 'lengths': list(al), 'b_lengths': list(bl),
                       'comments': comments, 'multiline': [], 'policy': 'quoted', 'delim': ',', 'key': 'warn:csv:fieldcount:join'}


# combined anomalies over one generated CSV table ----------------------------------------------------------------------

def _g(r, i):
    return r[i] if i < len(r) else None


def _ref_group_nf(R):
    keys = sorted(set(len(r) for r in R))
    return [[k, [[_g(r, 0), _g(r, 2)] for r in R if len(r) == k]] for k in keys]


def _ref_update(R):
    out = []
    for r in R:
        r = list(r)
        r[1] = _g(r, 2)
        out.append(r)
    return out


COMBO_QUERIES = [
    ('select *', lambda R: [list(r) for r in R]),
    ('select a1, a2', lambda R: [[_g(r, 0), _g(r, 1)] for r in R]),
    ('select a1, a3', lambda R: [[_g(r, 0), _g(r, 2)] for r in R]),
    ('select a3, [a1, a2]', lambda R: [[_g(r, 2), [_g(r, 0), _g(r, 1)]] for r in R]),
    ('select a1, [a2, a3]', lambda R: [[_g(r, 0), [_g(r, 1), _g(r, 2)]] for r in R]),
    ('select a1, [a1, [a2, [a3]]]', lambda R: [[_g(r, 0), [_g(r, 0), [_g(r, 1), [_g(r, 2)]]]] for r in R]),
    ('select a1, a3 where NF == 3', lambda R: [[_g(r, 0), _g(r, 2)] for r in R if len(r) == 3]),
    ('select a2, a3 where NF != 3', lambda R: [[_g(r, 1), _g(r, 2)] for r in R if len(r) != 3]),
    ('select ARRAY_AGG(a3)', lambda R: [[[_g(r, 2) for r in R]]]),
    ('select ARRAY_AGG(a2), COUNT(a3)', lambda R: [[[_g(r, 1) for r in R], len(R)]]),
    ('select NF, ARRAY_AGG([a1, a3]) group by NF', _ref_group_nf),
    ('update a2 = a3', _ref_update),
    ('select a1, a2 order by a2 desc', lambda R: [[_g(r, 0), _g(r, 1)] for r in R]),
    ('select COUNT(a3), MAX(NF)', lambda R: [[len(R), max(len(r) for r in R)]]),
    ('select NR, a3 is None', lambda R: [[i + 1, _g(r, 2) is None] for i, r in enumerate(R)]),
]
COMBO_OUT = [(';', 'simple'), ('\t', 'simple'), (';', 'quoted'), (';', 'quoted_rfc')]
BAD_QUOTE_CELLS = ['a"b', '"a"b', '"ab', 'a ""b""']


def combo_expect(case):
    n = case['n']
    R = []
    for i in range(n):
        r = ['id%d' % i, 'v%d' % i, 'té%d' % i]
        if case['delimpos'] == i:
            r[1] = 'p;q'
        if case['ragged'] == i:
            r = r[:2]
        R.append(r)
    qtext, ref = COMBO_QUERIES[case['qi']]
    rows = ref(R)
    out_delim, out_policy = COMBO_OUT[case['oi']]
    cats = []
    if case['ragged'] is not None:
        cats.append('fieldcount')
    if case['bom']:
        cats.append('bom')
    if case['badq'] is not None and case['in_policy'] == 'quoted':
        cats.append('quoting')
    cells = [c for row in rows for c in flatten(row)]
    if any(c is None for c in cells):
        cats.append('none')
    if out_policy == 'simple' and any(out_delim in str(c) for c in cells if c is not None):
        cats.append('delim')
    cites = None
    if not case['header'] and case['ragged'] is not None:
        cites = [first_two_lengths([len(r) for r in R])]
    # file text
    raw = []
    for i, r in enumerate(R):
        cells_txt = list(r)
        if case['badq'] is not None and case['badq'][0] == i:
            cells_txt[0] = BAD_QUOTE_CELLS[case['badq'][1]]
        elif case['goodq'] and case['in_policy'] == 'quoted' and i == 0:
            cells_txt[0] = ' "id ""0"", x" '        # well-formed: quoted, escaped quotes, the delimiter inside, spaces outside
        raw.append(cells_txt)
    hdr = ['id', 'val', 'tag'] if case['header'] else None
    txt = render_csv(raw, ',', 'simple', hdr, (), case['bom'], raw=True)
    return qtext, txt, sorted(cats), cites, out_delim, out_policy


def check_warn_combo(ctx, case):
    qtext, txt, cats, cites, out_delim, out_policy = combo_expect(case)
    data = txt.encode('utf-8')
    e, ws, out = ctx.run_csv(qtext, data, None, ',', case['in_policy'], out_delim, out_policy, case['encoding'], case['header'], None)
    exp = {'categories': cats, 'cites': cites, 'query': qtext, 'input': txt}
    if e is not None:
        return False, exp, exc_text(e)
    ok, obs = compare_warnings(ws, cats, cites)
    return ok, exp, obs


def _combo_fix(c):
    if c['header'] and c['ragged'] is not None and COMBO_QUERIES[c['qi']][0] in ('select *', 'update a2 = a3'):
        c['header'] = False      # a header fixes the output width: ragged output rows are then an error, outside the warning clauses
    return c


def gen_warn_combo_cases(tier, rnd):
    count = 600 if tier == 'quick' else 14000
    # one pass over every (query, single anomaly) pair first, then seeded samples of the full product
    base = {'n': 3, 'ragged': None, 'bom': False, 'badq': None, 'delimpos': None, 'goodq': False, 'in_policy': 'quoted', 'oi': 0, 'encoding': 'utf-8',
            'header': False}
    singles = [{}, {'ragged': 1}, {'ragged': 0}, {'bom': True}, {'badq': [1, 0]}, {'badq': [2, 1]}, {'delimpos': 2}, {'goodq': True},
               {'in_policy': 'simple', 'badq': [0, 1]}, {'bom': True, 'encoding': 'latin-1'}, {'header': True, 'bom': True}, {'ragged': 2, 'delimpos': 0}]
    for qi in range(len(COMBO_QUERIES)):
        for si, s in enumerate(singles):
            for oi in range(len(COMBO_OUT)):
                c = dict(base)
                c.update(s)
                c.update({'qi': qi, 'oi': oi})
                if tier == 'quick' and (qi + oi + si) % 4:
                    continue
                yield _combo_fix(c)
    for _ in range(count):
        n = rnd.choice((1, 2, 3, 3))
        pos = [None] + list(range(n))
        c = {'n': n, 'ragged': rnd.choice(pos) if n > 1 else None, 'bom': rnd.random() < 0.4,
             'badq': None if rnd.random() < 0.5 else [rnd.randrange(n), rnd.randrange(len(BAD_QUOTE_CELLS))],
             'delimpos': rnd.choice(pos), 'goodq': rnd.random() < 0.3, 'in_policy': rnd.choice(('quoted', 'quoted', 'simple')),
             'oi': rnd.randrange(len(COMBO_OUT)), 'encoding': rnd.choice(('utf-8', 'latin-1')), 'header': rnd.random() < 0.3,
             'qi': rnd.randrange(len(COMBO_QUERIES))}
        yield _combo_fix(c)


def combo_key(c):
    anomalies = [a for a in ('ragged', 'bom', 'badq', 'delimpos') if c[a] is not None and c[a] is not False]
    return 'warn:combo:q%d:%s:%s' % (c['qi'], COMBO_OUT[c['oi']][1], '+'.join(anomalies) or 'clean')


# anomalies in the join file -------------------------------------------------------------------------------------------
JOIN_QUERIES = [
    ('select a1, b3 join jt_file on a1 == b1', 'inner'), ('select a1, b2 left join jt_file on a1 == b1', 'left'),
    ('select a1, [b2, b3] join jt_file on a1 == b1', 'inner-list')]


def check_warn_join(ctx, case):
    n = 3
    A = [['id%d' % i, 'v%d' % i, 't%d' % i] for i in range(n)]
    B = [['id%d' % i, 'w%d' % i, 'u%d' % i] for i in (2, 0)]             # id1 has no partner
    a_raw, b_raw = [list(r) for r in A], [list(r) for r in B]
    cats = []
    for side, R, raw in (('a', A, a_raw), ('b', B, b_raw)):
        an = case[side]
        if 'ragged' in an:
            R[1] = R[1][:2]
            raw[1] = raw[1][:2]
            cats.append('fieldcount')
        if 'bom' in an:
            cats.append('bom')
        if 'badq' in an:
            raw[0][1] = 'w"0"'
            cats.append('quoting')
    qtext, mode = JOIN_QUERIES[case['qi']]
    rows = []
    for r in A:
        matches = [b for b in B if b[0] == r[0]]
        if not matches and mode == 'left':
            matches = [[None, None, None]]
        for b in matches:
            rows.append({'inner': [r[0], _g(b, 2)], 'left': [r[0], _g(b, 1)], 'inner-list': [r[0], [_g(b, 1), _g(b, 2)]]}[mode])
    if any(c is None for row in rows for c in flatten(row)):
        cats.append('none')
    a_txt = render_csv(a_raw, ',', 'simple', None, (), 'bom' in case['a'], raw=True)
    b_txt = render_csv(b_raw, ',', 'simple', None, (), 'bom' in case['b'], raw=True)
    out_delim, out_policy = COMBO_OUT[case['oi']]
    e, ws, out = ctx.run_csv(qtext, a_txt.encode('utf-8'), b_txt.encode('utf-8'), ',', 'quoted', out_delim, out_policy, 'utf-8', False, None)
    exp = {'categories': sorted(cats), 'query': qtext, 'a': a_txt, 'b': b_txt}
    if e is not None:
        return False, exp, exc_text(e)
    ok, obs = compare_warnings(ws, cats, None)
    return ok, exp, obs


def gen_warn_join_cases(tier, rnd):
    subsets = [[], ['ragged'], ['bom'], ['badq'], ['ragged', 'bom'], ['ragged', 'badq'], ['bom', 'badq'], ['ragged', 'bom', 'badq']]
    for a in subsets:
        for b in subsets:
            for qi in range(len(JOIN_QUERIES)):
                for oi in ([(len(a) + len(b) + qi) % len(COMBO_OUT)] if tier == 'quick' else range(len(COMBO_OUT))):
                    yield {'replay': 'c14', 'kind': 'warn_join', 'a': a, 'b': b, 'qi': qi, 'oi': oi,
                           'key': 'warn:join:q%d:a=%s:b=%s' % (qi, '+'.join(a) or 'clean', '+'.join(b) or 'clean')}


# BOM only at the very start of the input; whitespace policy (records without any field) ------------------------------------

def check_warn_misc(ctx, case):
    e, ws, out = ctx.run_csv(case['query'], case['a_latin1'].encode('latin-1'), None, case['in_delim'], case['in_policy'], case['out_delim'], case['out_policy'],
                             case['encoding'], case['header'], None)
    exp = {'categories': sorted(case['expect'])}
    if e is not None:
        return False, exp, exc_text(e)
    ok, obs = compare_warnings(ws, case['expect'], case.get('cites'))
    return ok, exp, obs


def gen_warn_misc_cases(tier, rnd):
    bom8 = '\xef\xbb\xbf'
    for enc in ('utf-8', 'latin-1'):
        for header in (False, True):
            for n in (1, 2, 3):
                lines = ['r%d,%d' % (i, i) for i in range(n)]
                for pos in [None] + list(range(n)):
                    for q in ('select *', 'select a1', 'select COUNT(a1)'):
                        ls = list(lines)
                        if pos is not None:
                            ls[pos] = bom8 + ls[pos]
                        # a BOM is the mark at the very beginning of the file; the same bytes elsewhere are data
                        yield {'replay': 'c14', 'kind': 'warn_misc', 'query': q, 'a_latin1': ''.join(l + '\n' for l in ls), 'in_delim': ',', 'in_policy': 'quoted',
                               'out_delim': ',', 'out_policy': 'quoted', 'encoding': enc, 'header': header, 'expect': ['bom'] if pos == 0 else [],
                               'key': 'warn:bom:%s:%s' % (enc, 'start' if pos == 0 else ('absent' if pos is None else 'inside'))}
    # whitespace policy: a blank line is a record without fields.  Nothing in such an output record contains the separator.
    nmax = 2 if tier == 'quick' else 3
    for n in range(1, nmax + 1):
        for lines in itertools.product(('a b', '', 'c'), repeat=n):
            lengths = [len(l.split()) for l in lines]
            for q, none_cond in (('select *', False), ('select a1', any(x == 0 for x in lengths)), ('select NR, NF', False)):
                for out_delim, out_policy in ((',', 'simple'), (' ', 'whitespace'), (',', 'quoted')):
                    exp, cites = [], None
                    if len(set(lengths)) > 1:
                        exp.append('fieldcount')
                        cites = [first_two_lengths(lengths)]
                    if none_cond:
                        exp.append('none')
                    zero = q == 'select *' and 0 in lengths and out_policy != 'quoted'
                    yield {'replay': 'c14', 'kind': 'warn_misc', 'query': q, 'a_latin1': ''.join(l + '\n' for l in lines), 'in_delim': ' ', 'in_policy': 'whitespace',
                           'out_delim': out_delim, 'out_policy': out_policy, 'encoding': 'utf-8', 'header': False, 'expect': exp, 'cites': cites,
                           'key': 'warn:delim:zero-field-output-record' if zero else 'warn:whitespace:%s' % out_policy}


# ----------------------------------------------------------------------------------------------------------------------
# driver
# ----------------------------------------------------------------------------------------------------------------------
CHECKS = {'err': check_err, 'clean': check_clean, 'static': check_static, 'io': check_io, 'warn_list': check_warn_list,
          'warn_ragged_csv': check_warn_ragged_csv, 'warn_combo': check_warn_combo, 'warn_join': check_warn_join, 'warn_misc': check_warn_misc}


def _trim(v, limit=1200):
    s = repr(v)
    return v if len(s) <= limit else s[:limit] + '...'


@job('C14')
def errors_and_warnings(prop, tier, seed):
    rnd = random.Random(seed)
    ctx = Ctx()
    fails, seen_keys = [], set()
    counts = {}
    samples = []
    try:
        gens = [('err', gen_err_cases), ('clean', gen_clean_cases), ('static', gen_static_cases), ('io', gen_io_cases), ('warn_list', gen_warn_list_cases),
                ('warn_ragged_csv', gen_warn_ragged_csv_cases), ('warn_combo', gen_warn_combo_cases), ('warn_join', gen_warn_join_cases),
                ('warn_misc', gen_warn_misc_cases)]
        for kind, gen in gens:
            kind_fails = 0
            for case in gen(tier, rnd):
                case.setdefault('replay', 'c14')
                case.setdefault('kind', kind)
                if kind == 'warn_combo':
                    case.setdefault('key', combo_key(case))
                counts[kind] = counts.get(kind, 0) + 1
                if kind_fails >= 2 or len(fails) >= MAX_FAILS:
                    if len(fails) >= MAX_FAILS:
                        break
                    continue          # keep counting the domain, stop evaluating this part (other parts still get their turn)
                try:
                    ok, exp, obs = CHECKS[kind](ctx, case)
                except Exception as e:     # a crash of the harness itself must not hide as a pass
                    ok, exp, obs = False, 'check runs', 'harness error %s: %s' % (type(e).__name__, e)
                if counts[kind] == 3:
                    samples.append(_trim({k: v for k, v in case.items() if k in ('kind', 'query', 'key', 'A', 'a_lengths', 'lengths')}, 300))
                if not ok:
                    if case['key'] in seen_keys:
                        continue
                    seen_keys.add(case['key'])
                    kind_fails += 1
                    f = dict(case)
                    f['expected'] = _trim(exp)
                    f['observed'] = _trim(obs)
                    fails.append(f)
            if len(fails) >= MAX_FAILS:
                break
    finally:
        ctx.close()
    n = sum(counts.values())
    return {'job': 'errors_and_warnings', 'evaluations': n, 'distinct_nontrivial': n - counts.get('clean', 0), 'exhaustive': False,
            'rule': ('tier %s: (1) tables of n<=%d list records / n<=%d CSV records (3 CSV layouts x header/no header, comment lines, multi-line RFC fields) with a '
                     'poisoned record at every position k, optionally a second one later, x %d queries covering SELECT, WHERE, ORDER BY, GROUP BY, '
                     'aggregate argument (6 aggregates), UPDATE rhs/target, JOIN key (both sides), strict join, non-constant aggregate column; '
                     '(2) %d textual mistakes x tables of 0/1/3 records x rbql.query with a recording writer / query_table / query_csv; '
                     '(3) invalid UTF-8 at every line of files of <=%d lines (input and join file, early and beyond the first chunk), one-sided headers, '
                     'names-width mismatch, RFC quoting, delimiter/policy mismatch; (4) warnings iff: all field-count vectors over {0..3}^n n<=%d (lists, + joins), '
                     'over {1..3}^n n<=%d with comment lines / multi-line fields (CSV), seeded product of ragged x BOM x bad quoting x delimiter-in-field x '
                     'None-producing queries x 4 output formats (%d cases), anomalies in the join file (8x8 subsets), BOM position, whitespace policy blank lines; '
                     'plus the same queries on clean tables expecting no warning at all; per-part counts %s')
                    % (tier, 4 if tier == 'quick' else 5, 3 if tier == 'quick' else 5,
                       len(Q_VALUE) + len(Q_BVALUE) + len(Q_SHORT) + len(Q_BSHORT) + len(Q_STRICT) + len(Q_NONCONST), len(STATIC),
                       4 if tier == 'quick' else 5, 4 if tier == 'quick' else 5, 3 if tier == 'quick' else 4, counts.get('warn_combo', 0), counts),
            'failures': fails, 'samples': samples,
            'assumptions': ['a warning is attributed to one of the five conditions by keyword (BOM / quot / number of fields / None / separator|delimiter), '
                            'a record number is read after the word "record" in a message; exact wording is not asserted',
                            'cells of generated tables are strings (what a CSV reader yields); the poison is a non-numeric string',
                            'with a header only the presence of the field-count warning is asserted, not the cited numbers (quantifier)']}


def replay_c14(case):
    ctx = Ctx()
    try:
        ok, exp, obs = CHECKS[case['kind']](ctx, case)
    finally:
        ctx.close()
    return {'fails': not ok, 'expected': exp, 'observed': obs, 'key': case.get('key')}
